"""Further observation functions (registered into project.OBS)."""
