"""Further observation functions (registered into project.OBS)."""
import numpy as np

from harness import project as P
from harness.project import Q, Qs, NANV


def region_assemble(g, name, loc, trim=True):
    """global array assembled from the in-memory region arrays (keeps what the file drops when trim=False is not needed)"""
    t = g.extra["tables"]
    NXf, NYf = t["meshnx"], t["meshny"]
    out = np.full((NXf, NYf), np.nan)
    for r in g.extra["regions"]:
        key = "r%d_%s_%s" % (r["id"], name, loc)
        if key not in g.reg:
            return None
        a = g.reg[key]
        x0, x1, y0, y1 = t["rects"][r["id"]]
        out[x0:x1, y0:y1] = a[: x1 - x0, : y1 - y0]
    return out


def region_faces(g, name):
    """(lower-face value, upper-face value) per cell from the in-memory ylow arrays (ny+1 per region)"""
    t = g.extra["tables"]
    lo = np.full((t["meshnx"], t["meshny"]), np.nan)
    hi = np.full((t["meshnx"], t["meshny"]), np.nan)
    for r in g.extra["regions"]:
        a = g.reg["r%d_%s_ylow" % (r["id"], name)]
        x0, x1, y0, y1 = t["rects"][r["id"]]
        lo[x0:x1, y0:y1] = a[:, :-1]
        hi[x0:x1, y0:y1] = a[:, 1:]
    return lo, hi


def pair(out, clause, loc, a, b, quantum, bound, dom="all", kind="near"):
    out.setdefault("pairs", []).append({"clause": clause, "loc": loc, "dom": dom, "kind": kind, "bound": int(bound),
                                        "a": Q(a, quantum), "b": Q(b, quantum)})


def relq(*arrs, rel=1e-9):
    m = max(float(np.nanmax(np.abs(np.where(np.isfinite(a), a, 0.0)))) for a in arrs)
    return rel * max(m, 1e-300)


def measured_beta(g, loc):
    """cos(beta), tan(beta) measured from the grid itself, with the definitions of Metric.tla:
    dx_hat = direction of increasing x-index (xlow -> next xlow at centre; corner -> next corner at ylow),
    psihat = grad(psi)/|grad(psi)| of the equilibrium, rot(psihat) = psihat rotated clockwise."""
    t = g.extra["tables"]
    cosb = np.full((t["meshnx"], t["meshny"]), np.nan)
    tanb = np.full_like(cosb, np.nan)
    h = 1e-6
    eq = g.eq
    for r in g.extra["regions"]:
        i = r["id"]
        x0, x1, y0, y1 = t["rects"][i]
        if loc == "centre":
            Rf, Zf = g.reg["r%d_Rxy_xlow" % i], g.reg["r%d_Zxy_xlow" % i]
            Rp, Zp = g.reg["r%d_Rxy_centre" % i], g.reg["r%d_Zxy_centre" % i]
        else:
            Rf, Zf = g.reg["r%d_Rxy_corners" % i][:, :-1], g.reg["r%d_Zxy_corners" % i][:, :-1]
            Rp, Zp = g.reg["r%d_Rxy_ylow" % i][:, :-1], g.reg["r%d_Zxy_ylow" % i][:, :-1]
        dR, dZ = Rf[1:, :] - Rf[:-1, :], Zf[1:, :] - Zf[:-1, :]
        n = np.hypot(dR, dZ)
        dR, dZ = dR / n, dZ / n
        pR = (eq.psi(Rp + h, Zp) - eq.psi(Rp - h, Zp)) / (2 * h)
        pZ = (eq.psi(Rp, Zp + h) - eq.psi(Rp, Zp - h)) / (2 * h)
        m = np.hypot(pR, pZ)
        pR, pZ = pR / m, pZ / m
        c = dR * pR + dZ * pZ
        sn = dR * pZ + dZ * (-pR)          # dx_hat . (psihat rotated clockwise) = dx_hat . (pZ, -pR)
        cosb[x0:x1, y0:y1] = c
        tanb[x0:x1, y0:y1] = sn / c
    return cosb, tanb


def measured_beta_xlow(g):
    """the same at the x-faces: dx_hat from the cell centre on the inner side to the cell centre on the outer side of the face (the
    global arrays put x-neighbouring regions side by side), from the face to the first centre at the inner edge of the grid"""
    h = 1e-6
    eq = g.eq
    Rc, Zc, Rx, Zx = g.var("Rxy"), g.var("Zxy"), g.var("Rxy_xlow"), g.var("Zxy_xlow")
    dR = np.empty_like(Rc)
    dZ = np.empty_like(Zc)
    dR[1:], dZ[1:] = Rc[1:] - Rc[:-1], Zc[1:] - Zc[:-1]
    dR[0], dZ[0] = Rc[0] - Rx[0], Zc[0] - Zx[0]
    n = np.hypot(dR, dZ)
    dR, dZ = dR / n, dZ / n
    pR = (eq.psi(Rx + h, Zx) - eq.psi(Rx - h, Zx)) / (2 * h)
    pZ = (eq.psi(Rx, Zx + h) - eq.psi(Rx, Zx - h)) / (2 * h)
    m = np.hypot(pR, pZ)
    pR, pZ = pR / m, pZ / m
    c = dR * pR + dZ * pZ
    sn = dR * pZ + dZ * (-pR)
    return c, sn / c


def obs_C02(g, out):
    orth = g.extra["orthogonal"]
    for loc in ("centre", "xlow", "ylow"):
        f = lambda n: g.loc(n, loc)  # noqa: E731
        R, Bp, Bt, hy, J = f("Rxy"), f("Bpxy"), f("Btxy"), f("hy"), f("J")
        up = {k: f(k) for k in ("g11", "g22", "g33", "g12", "g13", "g23")}
        dn = {k: f(k) for k in ("g_11", "g_22", "g_33", "g_12", "g_13", "g_23")}
        U = np.array([[up["g11"], up["g12"], up["g13"]], [up["g12"], up["g22"], up["g23"]], [up["g13"], up["g23"], up["g33"]]])
        D = np.array([[dn["g_11"], dn["g_12"], dn["g_13"]], [dn["g_12"], dn["g_22"], dn["g_23"]], [dn["g_13"], dn["g_23"], dn["g_33"]]])
        prod = np.einsum("ikxy,kjxy->ijxy", U, D)
        for i in range(3):
            for j in range(3):
                pair(out, "InverseOK", loc, prod[i, j], np.full(R.shape, 1.0 if i == j else 0.0), 1e-9, 100)
        pair(out, "JacobianIsHyOverBp", loc, J, hy / Bp, relq(J), 20)
        det = (up["g11"] * up["g22"] * up["g33"] + 2 * up["g12"] * up["g13"] * up["g23"] - up["g11"] * up["g23"] ** 2
               - up["g22"] * up["g13"] ** 2 - up["g33"] * up["g12"] ** 2)
        pair(out, "JacobianIsInvSqrtDet", loc, np.abs(J) * np.sqrt(det), np.ones(R.shape), 1e-9, 100)
        pair(out, "ClosedForm_g11", loc, up["g11"], (R * Bp) ** 2, relq(up["g11"]), 20)
        pair(out, "ClosedForm_g_33", loc, dn["g_33"], R ** 2, relq(dn["g_33"]), 20)
        dphidy = f("dphidy")
        pair(out, "Dphidy", loc, dphidy, hy * Bt / (Bp * R), relq(dphidy) if np.nanmax(np.abs(dphidy)) > 0 else 1e-12, 20)
        if orth:
            cosb = np.ones(R.shape)
            tanb = np.zeros(R.shape)
            for k in ("g12", "g13"):
                pair(out, "OrthogonalZero_" + k, loc, up[k], np.zeros(R.shape), 1e-12, 0)
            pair(out, "OrthogonalZero_g_12", loc, dn["g_12"], np.zeros(R.shape), 1e-12, 0)
        elif loc in ("centre", "ylow"):
            # the non-orthogonality angle is MEASURED here from positions and grad(psi), not taken from the code
            cosb, tanb = measured_beta(g, loc)
            pair(out, "BetaIsMeasuredAngle_cos", loc, region_assemble(g, "cosBeta", loc), cosb, 1e-7, 100)
            pair(out, "BetaIsMeasuredAngle_tan", loc, region_assemble(g, "tanBeta", loc), tanb, 1e-7 * max(1.0, float(np.nanmax(np.abs(tanb)))), 100)
        else:
            cosb, tanb = measured_beta_xlow(g)
            cbx = region_assemble(g, "cosBeta", "xlow")
            if cbx is not None:
                pair(out, "BetaIsMeasuredAngle_cos", loc, cbx, cosb, 1e-7, 100, dom="awayX")
                pair(out, "BetaIsMeasuredAngle_tan", loc, region_assemble(g, "tanBeta", "xlow"), tanb, 1e-7 * max(1.0, float(np.nanmax(np.abs(tanb)))), 100, dom="awayX")
        if cosb is not None:
            fq = 1.0 if orth else 100.0     # measured beta carries the error of a finite-difference gradient (~1e-8)
            pair(out, "ClosedForm_g22", loc, up["g22"], 1.0 / (hy * cosb) ** 2, relq(up["g22"]) * fq, 20)
            pair(out, "ClosedForm_g33", loc, up["g33"], 1.0 / R ** 2 + (dphidy / (hy * cosb)) ** 2, relq(up["g33"]) * fq, 20)
            pair(out, "ClosedForm_g_11", loc, dn["g_11"], 1.0 / (R * Bp * cosb) ** 2, relq(dn["g_11"]) * fq, 20)
            pair(out, "ClosedForm_g_22", loc, dn["g_22"], hy ** 2 + (dphidy * R) ** 2, relq(dn["g_22"]), 20)
            sg = np.sign(Bp)
            pair(out, "ClosedForm_g12", loc, up["g12"], -sg * R * np.abs(Bp) * tanb / hy, relq(up["g12"], rel=1e-7) if np.nanmax(np.abs(up["g12"])) > 0 else 1e-12, 100)
            pair(out, "ClosedForm_g13", loc, up["g13"], sg * Bt * tanb, relq(up["g13"], Bt, rel=1e-7), 100)
            pair(out, "ClosedForm_g_12", loc, dn["g_12"], sg * hy * tanb / (R * np.abs(Bp)), relq(dn["g_12"], rel=1e-7) if np.nanmax(np.abs(dn["g_12"])) > 0 else 1e-12, 100)
            pair(out, "ClosedForm_g23", loc, up["g23"], -sg * dphidy / (hy * cosb) ** 2, (relq(up["g23"]) if np.nanmax(np.abs(up["g23"])) > 0 else 1e-12) * fq, 20)
            pair(out, "ClosedForm_g_23", loc, dn["g_23"], sg * dphidy * R ** 2, relq(dn["g_23"]) if np.nanmax(np.abs(dn["g_23"])) > 0 else 1e-12, 20)
    # y-z coupling against the toroidal shift stored in the same grid (centre): g_23 = g_33 * d(zShift)/dy
    dy = g.var("dy")
    zlo, zhi = region_faces(g, "zShift")
    dz = (zhi - zlo) / dy
    a = g.var("g_23") / g.var("g_33")
    if np.nanmax(np.abs(g.var("Btxy"))) > 0:
        pair(out, "G23MatchesZShift", "centre", a, dz, relq(a, dz, rel=1e-6), 0, kind="signratio")
        pair(out, "G23upMatchesZShift", "centre", -g.var("g23") / g.var("g22"), dz, relq(a, dz, rel=1e-6), 0, kind="signratio")
    # covariant components reproduce the scalar products of the actual displacements (centre)
    Rx = [region_assemble(g, "Rxy", "xlow")]
    t = g.extra["tables"]
    dRx = np.full((t["meshnx"], t["meshny"]), np.nan)
    dZx = np.full_like(dRx, np.nan)
    dRy = np.full_like(dRx, np.nan)
    dZy = np.full_like(dRx, np.nan)
    for r in g.extra["regions"]:
        x0, x1, y0, y1 = t["rects"][r["id"]]
        Rxl, Zxl = g.reg["r%d_Rxy_xlow" % r["id"]], g.reg["r%d_Zxy_xlow" % r["id"]]
        Ryl, Zyl = g.reg["r%d_Rxy_ylow" % r["id"]], g.reg["r%d_Zxy_ylow" % r["id"]]
        dRx[x0:x1, y0:y1] = Rxl[1:, :] - Rxl[:-1, :]
        dZx[x0:x1, y0:y1] = Zxl[1:, :] - Zxl[:-1, :]
        dRy[x0:x1, y0:y1] = Ryl[:, 1:] - Ryl[:, :-1]
        dZy[x0:x1, y0:y1] = Zyl[:, 1:] - Zyl[:, :-1]
    dx = g.var("dx")
    g_11, g_12, g_22 = g.var("g_11"), g.var("g_12"), g.var("g_22")
    pol22 = g_22 - (g.var("Rxy") * g.var("dphidy")) ** 2
    pair(out, "Displacement_g_11", "centre", g_11, (dRx ** 2 + dZx ** 2) / dx ** 2, relq(g_11, rel=1e-6), 0, kind="signratio", dom="awayX")
    pair(out, "Displacement_g_22pol", "centre", pol22, (dRy ** 2 + dZy ** 2) / dy ** 2, relq(pol22, rel=1e-6), 0, kind="signratio")
    if not orth:
        d12 = (dRx * dRy + dZx * dZy) / (dx * dy)
        pair(out, "Displacement_g_12", "centre", g_12, d12, relq(g_12, d12, rel=1e-6), 0, kind="signratio12", dom="legsAwayX")
        out["g12scale"] = Q(np.sqrt(np.abs(g_11 * pol22)), relq(g_12, d12, rel=1e-6))
        # the same at the ylow location: corner-to-corner displacement in x, centre-to-centre in y (rows inside a region)
        dRxl = np.full_like(dRx, np.nan); dZxl = np.full_like(dRx, np.nan); dRyl = np.full_like(dRx, np.nan); dZyl = np.full_like(dRx, np.nan)
        for r in g.extra["regions"]:
            x0, x1, y0, y1 = t["rects"][r["id"]]
            Rk, Zk = g.reg["r%d_Rxy_corners" % r["id"]], g.reg["r%d_Zxy_corners" % r["id"]]
            Rc, Zc = g.reg["r%d_Rxy_centre" % r["id"]], g.reg["r%d_Zxy_centre" % r["id"]]
            dRxl[x0:x1, y0:y1] = (Rk[1:, :] - Rk[:-1, :])[:, :-1]
            dZxl[x0:x1, y0:y1] = (Zk[1:, :] - Zk[:-1, :])[:, :-1]
            dRyl[x0:x1, y0 + 1:y1] = Rc[:, 1:] - Rc[:, :-1]
            dZyl[x0:x1, y0 + 1:y1] = Zc[:, 1:] - Zc[:, :-1]
        dxl, dyl = g.var("dx_ylow"), g.var("dy_ylow")
        d12l = (dRxl * dRyl + dZxl * dZyl) / (dxl * dyl)
        q12l = relq(g.var("g_12_ylow"), np.where(np.isfinite(d12l), d12l, 0.0), rel=1e-6)
        pair(out, "Displacement_g_12", "ylow", g.var("g_12_ylow"), d12l, q12l, 0, kind="signratio12y", dom="legsAwayXnotfirst")
        pol22l = g.var("g_22_ylow") - (g.var("Rxy_ylow") * g.var("dphidy_ylow")) ** 2
        out["g12scale_ylow"] = Q(np.sqrt(np.abs(g.var("g_11_ylow") * pol22l)), q12l)
    # the poloidal part of g_22 against the arcs of the independent contour follower (centre: face to face; ylow: centre to centre)
    arcs = cell_arcs(g)
    out["arc"] = {k: Q(arcs[k], QLEN) for k in ("Alo_c", "Ahi_c")}
    pol22y = g.var("g_22_ylow") - (g.var("Rxy_ylow") * g.var("dphidy_ylow")) ** 2
    out["g22pol"] = {"centre": Q(np.sqrt(np.abs(pol22)) * dy, QLEN), "ylow": Q(np.sqrt(np.abs(pol22y)) * dy, QLEN)}
    out["nfine"] = int(g.extra["meshuser"].get("finecontour_Nfine", 0))


P.OBS["C02"] = obs_C02


def analytic_profiles(cfg):
    from harness.drivers.gridrun import fpol_func, pressure_func

    return fpol_func(cfg.get("fpol")), pressure_func(cfg.get("pressure"))


def cell_dy_displacement(g):
    t = g.extra["tables"]
    dRy = np.full((t["meshnx"], t["meshny"]), np.nan)
    dZy = np.full_like(dRy, np.nan)
    for r in g.extra["regions"]:
        x0, x1, y0, y1 = t["rects"][r["id"]]
        Ryl, Zyl = g.reg["r%d_Rxy_ylow" % r["id"]], g.reg["r%d_Zxy_ylow" % r["id"]]
        dRy[x0:x1, y0:y1] = Ryl[:, 1:] - Ryl[:, :-1]
        dZy[x0:x1, y0:y1] = Zyl[:, 1:] - Zyl[:, :-1]
    return dRy, dZy


def obs_C03(g, out):
    eq = g.eq
    h = 1e-5
    fpol0, pres0 = analytic_profiles(g.cfg)
    from harness import oracles as _O

    psign = _O.psi_factor(g.cfg)      # file psi / psign = psi of the unsigned, unscaled family (incl. reverse_current, psi_divide_twopi)
    btsign = _O.bt_sign(g.cfg)        # reverse_Bt flips the sign of fpol
    fpol = pres = None
    if g.cfg.get("family", "tokamak") == "tokamak":
        # the input profiles are given on the psi range of the psi1D array only; outside it the
        # profile is its boundary value (spline ext=3), which is part of the profile's definition
        from harness import equilibria as E

        psi1d = E.tokamak_arrays(g.cfg["geometry"], g.cfg.get("nR", 65), g.cfg.get("nZ", 65), mirror=g.cfg.get("mirror", False),
                                 psi1d_rmax=g.cfg.get("psi1d_rmax"))[3]
        lo, hi = float(np.min(psi1d)), float(np.max(psi1d))
        if g.cfg.get("gfile"):
            # through a geqdsk file the profiles are given between the axis and the separatrix only
            ax, bd, _ = E.gfile_psi_range(g.cfg["geometry"], g.cfg.get("nR", 65), g.cfg.get("nZ", 65), mirror=g.cfg.get("mirror", False))
            lo, hi = min(ax, bd), max(ax, bd)
        if fpol0 is not None:
            fpol = lambda u: btsign * fpol0(np.clip(u, lo, hi))  # noqa: E731
        if pres0 is not None:
            pres = lambda u: pres0(np.clip(u, lo, hi))  # noqa: E731
        if g.cfg.get("options", {}).get("extrapolate_profiles"):
            # documented model outside the last profile point psi0: fpol constant, p = p0*exp((psi-psi0)*dpdpsi/p0)
            psi0, psi0m = float(psi1d[-1]), float(psi1d[-2])
            p0 = float(pres0(psi0))
            dpdpsi = (p0 - float(pres0(psi0m))) / (psi0 - psi0m)
            inner = (lambda u: u >= psi0) if psi1d[0] > psi1d[-1] else (lambda u: u <= psi0)
            pres = lambda u: np.where(inner(u), pres0(np.clip(u, lo, hi)), p0 * np.exp((u - psi0) * dpdpsi / p0))  # noqa: E731
    for loc in ("centre", "xlow", "ylow"):
        f = lambda n: g.loc(n, loc)  # noqa: E731
        R, Z = f("Rxy"), f("Zxy")
        Br, Bz, Bp, Bt, B = f("Brxy"), f("Bzxy"), f("Bpxy"), f("Btxy"), f("Bxy")
        dpsidZ = (eq.psi(R, Z + h) - eq.psi(R, Z - h)) / (2 * h)
        dpsidR = (eq.psi(R + h, Z) - eq.psi(R - h, Z)) / (2 * h)
        qB = relq(Br, Bz, rel=1e-7)
        pair(out, "BrIsDpsidZOverR", loc, Br, dpsidZ / R, qB, 50)
        pair(out, "BzIsMinusDpsidROverR", loc, Bz, -dpsidR / R, qB, 50)
        pair(out, "BpMagnitude", loc, np.abs(Bp), np.sqrt(Br ** 2 + Bz ** 2), relq(Bp), 20)
        pair(out, "BtotIsSqrt", loc, B, np.sqrt(Bp ** 2 + Bt ** 2), relq(B), 20)
        psi = f("psixy")
        if g.cfg.get("family", "tokamak") == "tokamak":
            if fpol is not None:
                # the analytic profile the input arrays were sampled from (psi of the unsigned family)
                # (with extrapolate_profiles the constant continuation has a kink at the last profile point,
                #  which the cubic spline rounds off: bound 1e-3 instead of 1e-4)
                kink = 10.0 if g.cfg.get("options", {}).get("extrapolate_profiles") else 1.0
                pair(out, "BtIsFpolOverR", loc, Bt, fpol(psi / psign) / R, relq(Bt, rel=1e-6 * kink), 100)
            else:
                pair(out, "BtIsFpolOverR", loc, Bt, np.zeros(R.shape), 1e-12, 0)
        if pres is not None and g.var("pressure") is not None:
            p = f("pressure")
            leg_psi = g.extra["psi_sep"][0]
            sign = np.sign(g.extra["psi_sep"][0] - g.extra["psi_axis"])
            qp = relq(p, rel=1e-6)
            if g.cfg.get("options", {}).get("extrapolate_profiles"):
                qp = relq(p, rel=1e-4)      # the extension is a spline through 49 samples of the exponential
            pair(out, "PressureIsProfile", loc, p, pres(psi / psign), qp, 100, dom="coreRegions")
            # legs: reflected about the leg's separatrix value
            psis = g.extra["psi_sep"]
            refl = np.full(R.shape, np.nan)
            t = g.extra["tables"]
            for r in g.extra["regions"]:
                x0, x1, y0, y1 = t["rects"][r["id"]]
                if "wall" in r["kind"]:
                    # the separatrix this leg hangs from: psi at the X-point of its name (lower legs: the X-point below the axis, upper legs:
                    # the one above), whichever radial segment of the leg this is
                    xp = g.extra.get("x_points") or []
                    if len(xp) >= 2 and ("lower" in r["eqname"] or "upper" in r["eqname"]):
                        xz = min(xp, key=lambda q: q[1]) if "lower" in r["eqname"] else max(xp, key=lambda q: q[1])
                        lp = float(eq.psi(xz[0], xz[1]))
                    else:
                        lp = min(psis, key=lambda s: min(abs(s - r["psi_vals"][0]), abs(s - r["psi_vals"][-1])))
                    pp = psi[x0:x1, y0:y1]
                    refl[x0:x1, y0:y1] = lp + sign * np.abs(pp - lp)
                else:
                    refl[x0:x1, y0:y1] = psi[x0:x1, y0:y1]
            pair(out, "PressureReflectedInLegs", loc, p, pres(refl / psign), qp, 100, dom="legRegions")
    # one sign of Bp for the whole grid, equal to the direction of Bp along increasing y
    dRy, dZy = cell_dy_displacement(g)
    dot = g.var("Brxy") * dRy + g.var("Bzxy") * dZy
    pair(out, "BpSignIsDirection", "centre", g.var("Bpxy"), dot, 1e-12, 0, kind="samesign")
    out["bpsign_all"] = {loc: Q(np.sign(g.loc("Bpxy", loc)), 1.0) for loc in ("centre", "xlow", "ylow")}
    # scalars
    from scipy.optimize import minimize, fsolve

    scal = {}
    qs = 1e-8 * g.psi_scale()
    if "o_point" in g.extra and g.var("psi_axis") is not None:
        o = g.extra["o_point"]
        sgn = 1.0 if eq.psi(*o) > eq.psi(o[0] + 0.05, o[1]) else -1.0
        res = minimize(lambda p: -sgn * float(eq.psi(p[0], p[1])), o, method="Nelder-Mead", options={"xatol": 1e-10, "fatol": 1e-14})
        scal["psi_axis"] = [Qs(float(g.var("psi_axis")), qs), Qs(float(eq.psi(*res.x)), qs)]
        Ro = float(res.x[0])
        if fpol is not None:
            qb = 1e-7 * max(1.0, abs(float(g.var("Bt_axis"))))
            scal["Bt_axis"] = [Qs(float(g.var("Bt_axis")), qb), Qs(float(fpol(float(eq.psi(*res.x)) / psign)) / Ro, qb)]
    if g.extra.get("x_points") and g.var("psi_bdry") is not None:
        x0 = g.extra["x_points"][0]

        def grad(p):
            return [(float(eq.psi(p[0] + h, p[1])) - float(eq.psi(p[0] - h, p[1]))) / (2 * h),
                    (float(eq.psi(p[0], p[1] + h)) - float(eq.psi(p[0], p[1] - h))) / (2 * h)]

        xs = fsolve(grad, x0, xtol=1e-12)
        scal["psi_bdry"] = [Qs(float(g.var("psi_bdry")), qs), Qs(float(eq.psi(*xs)), qs)]
    out["scalars"] = scal


P.OBS["C03"] = obs_C03


# ---------------------------------------------------------------------------------------------
# arcs and field-line integrals between the faces and the centre of every cell (oracle, cached)
def cell_arcs(g):
    import os
    from harness import oracles

    cache = os.path.join(g.d, "arcs.npz")
    if os.path.exists(cache):
        z = np.load(cache)
        return {k: z[k] for k in z.files}
    t = g.extra["tables"]
    NXf, NYf = t["meshnx"], t["meshny"]
    an = oracles.analytic_psi_grad(g.cfg)
    eq = g.eq
    if an is not None:
        psi_f, grad = an
        fpol0, _ = analytic_profiles(g.cfg)
        from harness import equilibria as E

        psi1d = E.tokamak_arrays(g.cfg["geometry"], g.cfg.get("nR", 65), g.cfg.get("nZ", 65), mirror=g.cfg.get("mirror", False),
                                 psi1d_rmax=g.cfg.get("psi1d_rmax"))[3]
        lo, hi = float(np.min(psi1d)), float(np.max(psi1d))
        psign = oracles.psi_factor(g.cfg)

        def integrand(R, Z):
            if fpol0 is None:
                return 0.0
            gR, gZ = grad(R, Z)
            f = oracles.bt_sign(g.cfg) * float(fpol0(np.clip(psi_f(R, Z) / psign, lo, hi)))
            return f / (R * np.hypot(gR, gZ))       # Bt/(R |Bp|) = (f/R) / (R * |grad psi|/R)
    else:
        def grad(R, Z):
            return -R * float(eq.Bp_Z(R, Z)), R * float(eq.Bp_R(R, Z))

        def integrand(R, Z):
            bp = np.hypot(float(eq.Bp_R(R, Z)), float(eq.Bp_Z(R, Z)))
            return float(eq.fpol(eq.psi(R, Z))) / R / (R * bp)

    res = {k: np.full((NXf, NYf), np.nan) for k in ("Alo_c", "Ahi_c", "Ilo_c", "Ihi_c", "Alo_l", "Ahi_l", "Ilo_l", "Ihi_l")}
    for r in g.extra["regions"]:
        i = r["id"]
        x0, x1, y0, y1 = t["rects"][i]
        Rc, Zc = g.reg["r%d_Rxy_centre" % i], g.reg["r%d_Zxy_centre" % i]
        Ry, Zy = g.reg["r%d_Rxy_ylow" % i], g.reg["r%d_Zxy_ylow" % i]
        Rx, Zx = g.reg["r%d_Rxy_xlow" % i], g.reg["r%d_Zxy_xlow" % i]
        Rk, Zk = g.reg["r%d_Rxy_corners" % i], g.reg["r%d_Zxy_corners" % i]
        for a in range(x1 - x0):
            for b in range(y1 - y0):
                A, I = oracles.follow((Ry[a, b], Zy[a, b]), (Rc[a, b], Zc[a, b]), grad, integrand)
                res["Alo_c"][x0 + a, y0 + b], res["Ilo_c"][x0 + a, y0 + b] = A, I
                A, I = oracles.follow((Rc[a, b], Zc[a, b]), (Ry[a, b + 1], Zy[a, b + 1]), grad, integrand)
                res["Ahi_c"][x0 + a, y0 + b], res["Ihi_c"][x0 + a, y0 + b] = A, I
                A, I = oracles.follow((Rk[a, b], Zk[a, b]), (Rx[a, b], Zx[a, b]), grad, integrand)
                res["Alo_l"][x0 + a, y0 + b], res["Ilo_l"][x0 + a, y0 + b] = A, I
                A, I = oracles.follow((Rx[a, b], Zx[a, b]), (Rk[a, b + 1], Zk[a, b + 1]), grad, integrand)
                res["Ahi_l"][x0 + a, y0 + b], res["Ihi_l"][x0 + a, y0 + b] = A, I
    np.savez(cache, **res)
    return res


QLEN = 1e-7     # metres
QANG = 1e-7     # radians


def upper_face(g, name, locname):
    """value at the upper y-face of every cell from the in-memory arrays (ylow / corners have ny+1 entries)"""
    t = g.extra["tables"]
    out = np.full((t["meshnx"], t["meshny"]), np.nan)
    for r in g.extra["regions"]:
        a = g.reg["r%d_%s_%s" % (r["id"], name, locname)]
        x0, x1, y0, y1 = t["rects"][r["id"]]
        out[x0:x1, y0:y1] = a[: x1 - x0, 1:]
    return out


def obs_C05(g, out):
    arcs = cell_arcs(g)
    dy = g.var("dy")
    out["arc"] = {k: Q(arcs[k], QLEN) for k in ("Alo_c", "Ahi_c", "Alo_l", "Ahi_l")}
    out["hydy"] = {"centre": Q(g.var("hy") * dy, QLEN), "ylow": Q(g.var("hy_ylow") * dy, QLEN), "xlow": Q(g.var("hy_xlow") * dy, QLEN)}
    out["pd"] = {"centre": Q(g.var("poloidal_distance"), QLEN), "ylow": Q(g.var("poloidal_distance_ylow"), QLEN),
                 "xlow": Q(g.var("poloidal_distance_xlow"), QLEN),
                 "hi_c": Q(upper_face(g, "poloidal_distance", "ylow"), QLEN), "hi_l": Q(upper_face(g, "poloidal_distance", "corners"), QLEN),
                 "corner": Q(region_assemble(g, "poloidal_distance", "corners"), QLEN)}
    out["total_pd"] = Q(g.var("total_poloidal_distance"), QLEN)
    out["nfine"] = int(g.extra["meshuser"].get("finecontour_Nfine", 0))


def obs_C06(g, out):
    arcs = cell_arcs(g)
    out["int"] = {k: Q(arcs[k], QANG) for k in ("Ilo_c", "Ihi_c", "Ilo_l", "Ihi_l")}
    out["zs"] = {"centre": Q(g.var("zShift"), QANG), "ylow": Q(g.var("zShift_ylow"), QANG), "xlow": Q(g.var("zShift_xlow"), QANG),
                 "hi_c": Q(upper_face(g, "zShift", "ylow"), QANG), "hi_l": Q(upper_face(g, "zShift", "corners"), QANG),
                 "corner": Q(region_assemble(g, "zShift", "corners"), QANG)}
    out["shiftangle"] = Q(g.var("ShiftAngle"), QANG)
    # ShiftAngle on the x-faces is not written, but chi_xlow = 2 pi zShift_xlow / ShiftAngle_xlow is: the value the file implies, per x
    # (median over the cells of the closed surface where chi is away from zero; NaN where chi_xlow is undefined)
    with np.errstate(invalid="ignore", divide="ignore"):
        chx, zsx = g.var("chi_xlow"), g.var("zShift_xlow")
        imp = np.where(np.abs(chx) > 0.3, 2 * np.pi * zsx / chx, np.nan)
        row = np.array([np.nanmedian(imp[x]) if np.any(np.isfinite(imp[x])) else np.nan for x in range(imp.shape[0])])
    out["shiftangle_xlow"] = Q(row, QANG)
    has_bt = float(np.nanmax(np.abs(g.var("Btxy")))) > 0
    out["has_bt"] = 1 if has_bt else 0
    # dphidy = hy*Bt/(Bp*R)  and ShiftTorsion = centred x-derivative of dphidy
    for loc in ("centre", "xlow", "ylow"):
        f = lambda n: g.loc(n, loc)  # noqa: E731
        d = f("dphidy")
        pair(out, "DphidyFormula", loc, d, f("hy") * f("Btxy") / (f("Bpxy") * f("Rxy")), relq(d) if np.nanmax(np.abs(d)) > 0 else 1e-12, 20)
    out["dphidy_q"] = Q(g.var("dphidy"), relq(g.var("dphidy"), rel=1e-8) if has_bt else 1e-12)
    # for the DDX clause: values scaled by a common quantum so that TLC can form the centred difference
    qd = relq(g.var("dphidy"), g.var("dphidy_xlow"), rel=1e-7) if has_bt else 1e-12
    t = g.extra["tables"]
    fxhi = np.full((t["meshnx"], t["meshny"]), np.nan)      # dphidy at the outer x-face of each cell, from the cell's own region
    for r in g.extra["regions"]:
        a = g.reg["r%d_dphidy_xlow" % r["id"]]
        x0, x1, y0, y1 = t["rects"][r["id"]]
        fxhi[x0:x1, y0:y1] = a[1:, :]
    out["ddx"] = {"f_centre": Q(g.var("dphidy"), qd), "f_xlow": Q(g.var("dphidy_xlow"), qd), "f_xhi": Q(fxhi, qd),
                  "st_times_dx": Q(g.var("ShiftTorsion") * g.var("dx"), qd),
                  # at the x-faces: ShiftTorsion_xlow * dx_xlow is the difference of dphidy between the two adjacent cell centres
                  # (twice the centre-minus-face difference at the inner boundary of the grid)
                  "stx_times_dx": Q(g.var("ShiftTorsion_xlow") * g.var("dx_xlow"), qd),
                  "dxl": Q(g.var("dx_xlow"), 1e-9 * g.psi_scale()), "dxc": Q(g.var("dx"), 1e-9 * g.psi_scale())}
    # chi: NaN mask and value relative to zShift/ShiftAngle
    out["chi_nan"] = {loc: np.isnan(g.loc("chi", loc)).astype(int).tolist() for loc in ("centre", "xlow", "ylow")}
    if g.extra["tables"]["order"] == ["circular"] and has_bt:
        # circular equilibrium: ShiftAngle = 2 pi q
        qprof = g.extra["equser"].get("q_coefficients", [])
        out["circ_q2pi"] = Qs(2 * np.pi * float(qprof[0]), QANG) if len(qprof) == 1 else NANV


P.OBS["C05"] = obs_C05
P.OBS["C06"] = obs_C06


def x_hi_face(g, name):
    """value at the outer x-face (xlow location of x+1) of every cell, from the cell's own region"""
    t = g.extra["tables"]
    out = np.full((t["meshnx"], t["meshny"]), np.nan)
    for r in g.extra["regions"]:
        a = g.reg["r%d_%s_xlow" % (r["id"], name)]
        x0, x1, y0, y1 = t["rects"][r["id"]]
        out[x0:x1, y0:y1] = a[1:, :]
    return out


def obs_C08(g, out):
    q = 1e-8
    R0 = float(np.nanmin(g.var("Rxy_corners")))
    Z0 = float(np.nanmin(g.var("Zxy_corners")))
    pos = {}
    for loc in ("corners", "lower_right_corners", "upper_right_corners", "upper_left_corners"):
        pos[loc] = {"R": Q(g.var("Rxy_" + loc) - R0, q), "Z": Q(g.var("Zxy_" + loc) - Z0, q)}
    for loc in ("xlow", "ylow"):
        pos[loc] = {"R": Q(g.loc("Rxy", loc) - R0, q), "Z": Q(g.loc("Zxy", loc) - Z0, q)}
    pos["yhi"] = {"R": Q(upper_face(g, "Rxy", "ylow") - R0, q), "Z": Q(upper_face(g, "Zxy", "ylow") - Z0, q)}
    pos["xhi"] = {"R": Q(x_hi_face(g, "Rxy") - R0, q), "Z": Q(x_hi_face(g, "Zxy") - Z0, q)}
    out["pos"] = pos
    out["chi_nan"] = {loc: np.isnan(g.loc("chi", loc)).astype(int).tolist() for loc in ("centre", "xlow", "ylow")}


P.OBS["C08"] = obs_C08


# ---------------------------------------------------------------------------------------------
# C16: pairs of grids (mirror images, field reversals)
C16_VARS = ["psixy", "hy", "Bpxy", "Btxy", "Bxy", "Brxy", "Bzxy", "J", "dx", "g11", "g22", "g33", "g23", "g_11", "g_22", "g_33", "g_23", "dphidy", "zShift",
            "curl_bOverB_x", "curl_bOverB_y", "curl_bOverB_z", "bxcvx", "bxcvy", "bxcvz", "ShiftTorsion"]


def obs_C16_pair(gA, gB, kind, out):
    qpos = 1e-8
    out["kind"] = kind
    out["B"] = {k: gB.header()[k] for k in ("topo", "nx", "ny", "G", "ints", "rects", "NX", "NY", "conn")}
    pos = {}
    for tag, g in (("A", gA), ("B", gB)):
        pos[tag] = {"Rc": Q(g.var("Rxy"), qpos), "Zc": Q(g.var("Zxy"), qpos), "Rx": Q(g.var("Rxy_xlow"), qpos), "Zx": Q(g.var("Zxy_xlow"), qpos),
                    "Rlo": Q(g.var("Rxy_ylow"), qpos), "Zlo": Q(g.var("Zxy_ylow"), qpos),
                    "Rhi": Q(upper_face(g, "Rxy", "ylow"), qpos), "Zhi": Q(upper_face(g, "Zxy", "ylow"), qpos)}
    out["pos"] = pos
    sc = {}
    for v in C16_VARS:
        a, b = gA.var(v), gB.var(v)
        if a is None or b is None:
            continue
        m = max(float(np.nanmax(np.abs(a))), float(np.nanmax(np.abs(b))), 1e-300)
        q = 1e-7 * m
        sc[v] = {"A": Q(a, q), "B": Q(b, q)}
    out["sc"] = sc
    out["scnames"] = sorted(sc)


def obs_C13_pair(gA, gB, kind, out):
    """A: generated serially, B: with worker processes - every numeric variable of the two files, value for value"""
    out["kind"] = kind
    va, vb = gA.ds.variables, gB.ds.variables
    diff, missing, n = [], [], 0
    for name in va:
        if getattr(va[name].dtype, "kind", "S") not in "fiu":
            continue
        n += 1
        if name not in vb:
            missing.append(name)
            continue
        a, b = np.array(va[name][...], dtype=float), np.array(vb[name][...], dtype=float)
        if a.shape != b.shape or not np.array_equal(a, b, equal_nan=True):
            diff.append(name)
    out["nvars"], out["ndiff"], out["nmissing"] = n, len(diff), len(missing)
    out["differing"] = sorted(diff)[:20]


P.OBS_PAIR = {"C16": obs_C16_pair, "C13": obs_C13_pair}


def obs_C09(g, out):
    q = 1e-9 * g.psi_scale()
    out["psivals9"] = [Q(r["psi_vals"], q) for r in sorted(g.extra["regions"], key=lambda r: r["id"])]
    out["dx9"] = {"centre": Q(g.var("dx"), q), "ylow": Q(g.var("dx_ylow"), q), "xlow": Q(g.var("dx_xlow"), q)}
    out["psixl9"] = Q(g.var("psixy_xlow"), q)
    out["psic9"] = Q(g.var("psixy"), q)
    out["bpsign"] = int(g.extra["regions"][0]["bpsign"])


P.OBS["C09"] = obs_C09


# ---------------------------------------------------------------------------------------------
# C10: poloidal order along every flux surface; nesting of the grid with all ny doubled
def _tangent_fn(g):
    from harness import oracles

    an = oracles.analytic_psi_grad(g.cfg)
    if an is not None:
        grad = an[1]
    else:
        eq = g.eq

        def grad(R, Z):
            return -R * float(eq.Bp_Z(R, Z)), R * float(eq.Bp_R(R, Z))

    def tang(R, Z):
        gR, gZ = grad(R, Z)
        n = np.hypot(gR, gZ)
        return (gZ / n, -gR / n) if n > 1e-12 else (np.nan, np.nan)

    return tang


def _qsign(a, quantum):
    """quantise keeping the sign of non-zero values (a positive step smaller than half a quantum stays positive)"""
    a = np.asarray(a, dtype=float)
    q = np.asarray(Q(a, quantum))
    q = np.where((q == 0) & (a > 0), 1, np.where((q == 0) & (a < 0), -1, q))
    return q.astype(np.int64).tolist()


def obs_C10(g, out):
    """steps lower face -> centre -> upper face of every cell (and corner -> xlow -> upper corner), projected on the tangent of the
    flux surface given by the oracle at the middle of the step; the code's own poloidal_distance at the same places"""
    t = g.extra["tables"]
    NXf, NYf = t["meshnx"], t["meshny"]
    tang = _tangent_fn(g)
    st = {k: np.full((NXf, NYf), np.nan) for k in ("c1", "c2", "l1", "l2")}
    for r in g.extra["regions"]:
        i = r["id"]
        x0, x1, y0, y1 = t["rects"][i]
        Rc, Zc = g.reg["r%d_Rxy_centre" % i], g.reg["r%d_Zxy_centre" % i]
        Ry, Zy = g.reg["r%d_Rxy_ylow" % i], g.reg["r%d_Zxy_ylow" % i]
        Rx, Zx = g.reg["r%d_Rxy_xlow" % i], g.reg["r%d_Zxy_xlow" % i]
        Rk, Zk = g.reg["r%d_Rxy_corners" % i], g.reg["r%d_Zxy_corners" % i]
        for a in range(x1 - x0):
            for b in range(y1 - y0):
                for key, p, q in (("c1", (Ry[a, b], Zy[a, b]), (Rc[a, b], Zc[a, b])), ("c2", (Rc[a, b], Zc[a, b]), (Ry[a, b + 1], Zy[a, b + 1])),
                                  ("l1", (Rk[a, b], Zk[a, b]), (Rx[a, b], Zx[a, b])), ("l2", (Rx[a, b], Zx[a, b]), (Rk[a, b + 1], Zk[a, b + 1]))):
                    tr, tz = tang(0.5 * (p[0] + q[0]), 0.5 * (p[1] + q[1]))
                    if not np.isfinite(tr):        # step straddles the X-point exactly (grad psi = 0 in the middle): use the chord itself
                        st[key][x0 + a, y0 + b] = np.hypot(q[0] - p[0], q[1] - p[1])
                    else:
                        st[key][x0 + a, y0 + b] = (q[0] - p[0]) * tr + (q[1] - p[1]) * tz
    # orientation of the y index relative to the oracle tangent: one sign for the whole grid
    tot = sum(float(np.nansum(v)) for v in st.values())
    s = 1.0 if tot >= 0 else -1.0
    out["kind"] = "single"
    out["orient"] = int(s)
    out["step"] = {k: _qsign(s * v, 1e-9) for k, v in st.items()}
    # the code's own poloidal distance: increments over the same steps (absolute values exceed the 32-bit range at this quantum)
    pc, pl = g.var("poloidal_distance"), g.var("poloidal_distance_xlow")
    out["pdstep"] = {"c1": _qsign(pc - g.var("poloidal_distance_ylow"), 1e-9), "c2": _qsign(upper_face(g, "poloidal_distance", "ylow") - pc, 1e-9),
                     "l1": _qsign(pl - region_assemble(g, "poloidal_distance", "corners"), 1e-9), "l2": _qsign(upper_face(g, "poloidal_distance", "corners") - pl, 1e-9)}


P.OBS["C10"] = obs_C10


def obs_C10_pair(gA, gB, kind, out):
    """A: coarse grid, B: the same configuration with all ny doubled"""
    qpos = 1e-8
    out["kind"] = kind
    out["B"] = {k: gB.header()[k] for k in ("topo", "nx", "ny", "G", "NX", "NY", "conn")}
    pos = {}
    for tag, g in (("A", gA), ("B", gB)):
        pos[tag] = {"Rc": Q(g.var("Rxy"), qpos), "Zc": Q(g.var("Zxy"), qpos),
                    "Rlo": Q(g.var("Rxy_ylow"), qpos), "Zlo": Q(g.var("Zxy_ylow"), qpos),
                    "Rhi": Q(upper_face(g, "Rxy", "ylow"), qpos), "Zhi": Q(upper_face(g, "Zxy", "ylow"), qpos),
                    "Rk": Q(region_assemble(g, "Rxy", "corners"), qpos), "Zk": Q(region_assemble(g, "Zxy", "corners"), qpos),
                    "Rkhi": Q(upper_face(g, "Rxy", "corners"), qpos), "Zkhi": Q(upper_face(g, "Zxy", "corners"), qpos)}
    out["pos"] = pos


P.OBS_PAIR["C10"] = obs_C10_pair


# ---------------------------------------------------------------------------------------------
# C11: targets on the wall, cells inside / guard cells outside, penalty_mask, wall output
def input_wall(cfg):
    from harness import equilibria as E

    if cfg.get("family", "tokamak") != "tokamak":
        return None
    w = E.default_wall(slanted=("many" if cfg.get("wall") == "many" else cfg.get("wall") == "slanted"), mirror=cfg.get("mirror", False))
    if cfg.get("wall") == "limiter":
        w = E.limiter_wall()
    if cfg.get("wall") == "baffle":
        w = E.baffle_wall()
    if cfg.get("wall_clockwise"):
        w = w[::-1]
    k = int(cfg.get("wall_start", 0))      # the polygon may start at any of its vertices ...
    w = list(w[k:]) + list(w[:k])
    if cfg.get("wall_closed"):                 # ... and may or may not repeat the first point at the end
        w = list(w) + [w[0]]
    return [list(map(float, p)) for p in w]


def obs_C11(g, out):
    from harness import oracles as O

    win = input_wall(g.cfg)
    out["haswall"] = 0 if win is None else 1
    out["protruding"] = 1 if g.cfg.get("wall") == "limiter" else 0      # the wall cuts flux surfaces between the targets (a limiter)
    if win is None:
        return
    poly = np.array(win)
    wR, wZ = np.atleast_1d(g.var("closed_wall_R")), np.atleast_1d(g.var("closed_wall_Z"))
    out["wall_in7"] = [[Qs(p[0], 1e-7), Qs(p[1], 1e-7)] for p in win]
    out["wall_out7"] = [[Qs(a, 1e-7), Qs(b, 1e-7)] for a, b in zip(wR, wZ)]
    out["wall_out3"] = [[Qs(a, 1e-3), Qs(b, 1e-3)] for a, b in zip(wR, wZ)]
    pts = {"lo": (g.var("Rxy_ylow"), g.var("Zxy_ylow")), "hi": (upper_face(g, "Rxy", "ylow"), upper_face(g, "Zxy", "ylow")),
           "c": (g.var("Rxy"), g.var("Zxy")),
           "klo": (region_assemble(g, "Rxy", "corners"), region_assemble(g, "Zxy", "corners")),
           "khi": (upper_face(g, "Rxy", "corners"), upper_face(g, "Zxy", "corners"))}
    out["dw"] = {k: Q(O.poly_distance(poly, R, Z), 1e-8) for k, (R, Z) in pts.items()}
    out["inw"] = {k: O.poly_inside(poly, R, Z).astype(int).tolist() for k, (R, Z) in pts.items()}
    pm = g.var("penalty_mask")
    out["pm"] = Q(pm, 1e-6)
    Rl, Zl = pts["lo"]
    Rh, Zh = pts["hi"]
    fr = np.full(pm.shape, np.nan)
    for x in range(pm.shape[0]):
        for y in range(pm.shape[1]):
            fr[x, y] = O.chord_outside_fraction(poly, (Rl[x, y], Zl[x, y]), (Rh[x, y], Zh[x, y]))
    out["frac"] = Q(fr, 1e-6)
    q = 1e-8 * g.psi_scale()
    out["psivals"] = [Q(r["psi_vals"], q) for r in sorted(g.extra["regions"], key=lambda r: r["id"])]
    out["psi_t"] = {"lo": Q(g.eq.psi(Rl, Zl), q), "hi": Q(g.eq.psi(Rh, Zh), q)}


P.OBS["C11"] = obs_C11


# ---------------------------------------------------------------------------------------------
# C04: radial grid lines of an orthogonal grid are integral curves of grad(psi)
def region_lattice(g, i):
    """(2nx+1, 2ny+1, 2) positions of all contour points of region i: corners / ylow / xlow / centre interleaved"""
    c = g.reg
    Rc, Rx, Ry, Rk = [c["r%d_Rxy_%s" % (i, l)] for l in ("centre", "xlow", "ylow", "corners")]
    Zc, Zx, Zy, Zk = [c["r%d_Zxy_%s" % (i, l)] for l in ("centre", "xlow", "ylow", "corners")]
    nx, ny = Rc.shape
    Pm = np.full((2 * nx + 1, 2 * ny + 1, 2), np.nan)
    Pm[0::2, 0::2, 0], Pm[0::2, 0::2, 1] = Rk, Zk
    Pm[1::2, 0::2, 0], Pm[1::2, 0::2, 1] = Ry, Zy
    Pm[0::2, 1::2, 0], Pm[0::2, 1::2, 1] = Rx, Zx
    Pm[1::2, 1::2, 0], Pm[1::2, 1::2, 1] = Rc, Zc
    return Pm


def obs_C04(g, out):
    """for every pair of radially adjacent contour points (same poloidal index): follow the integral curve of grad(psi) of the
    equilibrium from the first to the psi of the second with an independent integrator (DOP853, rtol 1e-10) and record the distance
    to the second; per cell the sine of the angle between the chord of the two x-faces and grad(psi) at the centre"""
    from scipy.integrate import solve_ivp

    eq = g.eq
    t = g.extra["tables"]

    def rhs(psi, x):
        return [float(eq.f_R(x[0], x[1])), float(eq.f_Z(x[0], x[1]))]

    regs = []
    sinc = np.full((t["meshnx"], t["meshny"]), np.nan)
    for r in sorted(g.extra["regions"], key=lambda r: r["id"]):
        i = r["id"]
        Pm = region_lattice(g, i)
        nk, nj = Pm.shape[:2]
        dev = np.full((nk - 1, nj), np.nan)
        psiv = eq.psi(Pm[:, :, 0], Pm[:, :, 1])
        for j in range(nj):
            for k in range(nk - 1):
                a, b = Pm[k, j], Pm[k + 1, j]
                pa, pb = float(psiv[k, j]), float(psiv[k + 1, j])
                if not (np.isfinite(pa) and np.isfinite(pb)) or pa == pb:
                    continue
                try:
                    s = solve_ivp(rhs, (pa, pb), [a[0], a[1]], rtol=1e-10, atol=1e-12, method="DOP853")
                    if s.status == 0:
                        dev[k, j] = float(np.hypot(s.y[0, -1] - b[0], s.y[1, -1] - b[1]))
                except Exception:  # noqa
                    pass
        # the same radial line continues in the next radial segment: the points of the shared flux surface, as the outer neighbour holds
        # them, are the points this region ends on (distance per poloidal index)
        outer = t["meshconn"][i][1]
        if outer is not None and outer >= 0:
            Po = region_lattice(g, outer)
            xj = np.hypot(Pm[-1, :, 0] - Po[0, :, 0], Pm[-1, :, 1] - Po[0, :, 1]) if Po.shape[1] == Pm.shape[1] else np.full(nj, np.nan)
        else:
            outer, xj = -1, np.zeros(0)
        regs.append({"id": i, "dev": Q(dev, 1e-8), "outer": int(outer), "xj": Q(xj, 1e-8)})
        x0, x1, y0, y1 = t["rects"][i]
        for a in range(x1 - x0):
            for b in range(y1 - y0):
                p, q2, c = Pm[2 * a, 2 * b + 1], Pm[2 * a + 2, 2 * b + 1], Pm[2 * a + 1, 2 * b + 1]
                gR, gZ = float(eq.f_R(c[0], c[1])), float(eq.f_Z(c[0], c[1]))
                d = q2 - p
                sinc[x0 + a, y0 + b] = abs(d[0] * gZ - d[1] * gR) / (np.hypot(*d) * np.hypot(gR, gZ))
    out["c04"] = regs
    out["sinc"] = Q(sinc, 1e-6)


P.OBS["C04"] = obs_C04


# ---------------------------------------------------------------------------------------------
# C07: curl(b/B) from an independent finite-difference oracle
def _fd1(f, R, Z, ax, h):
    if ax == 0:
        return (-f(R + 2 * h, Z) + 8 * f(R + h, Z) - 8 * f(R - h, Z) + f(R - 2 * h, Z)) / (12 * h)
    return (-f(R, Z + 2 * h) + 8 * f(R, Z + h) - 8 * f(R, Z - h) + f(R, Z - 2 * h)) / (12 * h)


def curl_oracle(eq):
    """curl(b/B) in cylindrical components from psi(R,Z) and fpol(psi) only (4th-order central differences), with
    B_R = psi_Z/R, B_Z = -psi_R/R, B_zeta = fpol/R.  Returns function (R, Z) -> dict."""
    h1, h2 = 1e-4, 2e-3
    psi = lambda R, Z: eq.psi(R, Z)  # noqa: E731

    def Bvec(R, Z):
        pR, pZ = _fd1(psi, R, Z, 0, h1), _fd1(psi, R, Z, 1, h1)
        return pZ / R, eq.fpol(psi(R, Z)) / R, -pR / R

    def A(R, Z, k):
        b = Bvec(R, Z)
        return b[k] / (b[0] ** 2 + b[1] ** 2 + b[2] ** 2)

    def f(R, Z):
        cR = -_fd1(lambda r, z: A(r, z, 1), R, Z, 1, h2)
        cZ = _fd1(lambda r, z: r * A(r, z, 1), R, Z, 0, h2) / R
        ct = _fd1(lambda r, z: A(r, z, 0), R, Z, 1, h2) - _fd1(lambda r, z: A(r, z, 2), R, Z, 0, h2)
        BR, Bt, BZ = Bvec(R, Z)
        return {"cR": cR, "ct": ct, "cZ": cZ, "BR": BR, "Bt": Bt, "BZ": BZ, "pR": -BZ * R, "pZ": BR * R}

    return f


def grad_y_direction(g, loc):
    """unit vector n (R, Z components) along grad(y) and n . e_y_hat at every file position of `loc' (centre or ylow), measured
    from the grid: n is perpendicular to the radial grid direction (x-face to x-face), e_y_hat the tangent of the flux surface in
    the direction of increasing y"""
    t = g.extra["tables"]
    nR = np.full((t["meshnx"], t["meshny"]), np.nan)
    nZ = np.full_like(nR, np.nan)
    for r in g.extra["regions"]:
        i = r["id"]
        x0, x1, y0, y1 = t["rects"][i]
        Pm = region_lattice(g, i)
        for a in range(x1 - x0):
            for b in range(y1 - y0):
                if loc == "centre":
                    ex = Pm[2 * a + 2, 2 * b + 1] - Pm[2 * a, 2 * b + 1]
                    ey = Pm[2 * a + 1, 2 * b + 2] - Pm[2 * a + 1, 2 * b]
                else:
                    ex = Pm[2 * a + 2, 2 * b] - Pm[2 * a, 2 * b]
                    ey = Pm[2 * a + 1, 2 * b + 1] - Pm[2 * a + 1, 2 * b] if b == 0 else Pm[2 * a + 1, 2 * b + 1] - Pm[2 * a + 1, 2 * b - 1]
                n = np.array([-ex[1], ex[0]]) / np.hypot(*ex)
                if n @ ey < 0:
                    n = -n
                nR[x0 + a, y0 + b], nZ[x0 + a, y0 + b] = n
    return nR, nZ


def obs_C07(g, out):
    out["kind"] = "single"
    eq = g.eq
    orc = curl_oracle(eq)
    orth = bool(g.extra["orthogonal"])
    for loc in ("centre", "xlow", "ylow"):
        R, Z = g.loc("Rxy", loc), g.loc("Zxy", loc)
        o = orc(R, Z)
        hy, Bp, Bt, B = g.loc("hy", loc), g.loc("Bpxy", loc), g.loc("Btxy", loc), g.loc("Bxy", loc)
        fx, fy, fz = (g.loc("curl_bOverB_" + c, loc) for c in "xyz")
        cx = o["cR"] * o["pR"] + o["cZ"] * o["pZ"]
        bpmag = np.hypot(o["BR"], o["BZ"])
        if orth or loc == "xlow":
            # grad(y) = tangent of the surface in the direction of increasing y, over hy: sign from the file's signed Bpxy
            sg = np.sign(Bp)
            gyR, gyZ = sg * o["BR"] / bpmag / hy, sg * o["BZ"] / bpmag / hy
        else:
            nR, nZ = grad_y_direction(g, loc)
            sg = np.sign(Bp)
            eyR, eyZ = sg * o["BR"] / bpmag, sg * o["BZ"] / bpmag
            cosb = nR * eyR + nZ * eyZ
            gyR, gyZ = nR / (hy * cosb), nZ / (hy * cosb)
        cy = o["cR"] * gyR + o["cZ"] * gyZ
        cz = o["ct"] / R - Bt * hy / (Bp * R) * cy
        sx, sy, sz = (relq(v, rel=1e-6) for v in (fx, fy, fz))
        pair(out, "CurlX", loc, fx, cx, sx, 3000, dom="all")
        if orth or loc != "xlow":
            pair(out, "CurlY", loc, fy, cy, sy, 5000, dom="awayX")
            pair(out, "CurlZ", loc, fz, cz, sz, 5000, dom="awayX")
        for c, f in zip("xyz", (fx, fy, fz)):
            bx = g.loc("bxcv" + c, loc)
            pair(out, "BxcvIsHalfBCurl", loc, bx, B / 2.0 * f, relq(bx, rel=1e-9), 10, dom="all")
        if g.extra["meshuser"].get("curvature_type", "curl(b/B)") == "curl(b/B)":
            # this form is evaluated pointwise from the equilibrium's field functions: to rounding it must be the specification's curl(b/B)
            # (FieldOps!CurlDef, here through the evaluator TLC compares with it) of the equilibrium's own psi derivatives, fpol and fpol',
            # projected on grad(x) = grad(psi), grad(y) = (BR + BZ tan(beta), BZ - BR tan(beta)) / (Bp hy), grad(z) = zetahat / R - Bt hy / (Bp R) grad(y)
            from harness import fields_eval

            with np.errstate(all="ignore"):
                pv = np.asarray(eq.psi(R, Z), dtype=float)
                BRv, BZv = np.asarray(eq.Bp_R(R, Z), dtype=float), np.asarray(eq.Bp_Z(R, Z), dtype=float)
                d = fields_eval.fields(R, pv, -R * BZv, R * BRv, np.asarray(eq.d2psidR2(R, Z), dtype=float), np.asarray(eq.d2psidRdZ(R, Z), dtype=float),
                                       np.asarray(eq.d2psidZ2(R, Z), dtype=float), np.asarray(eq.fpol(pv), dtype=float) + 0.0 * R,
                                       np.asarray(eq.fpolprime(pv), dtype=float) + 0.0 * R)
                tb = np.zeros(R.shape) if orth else region_assemble(g, "tanBeta", loc)
                pair(out, "CurlXIsDefinition", loc, fx, d["curl_x"], relq(fx, rel=1e-9), 20, dom="all")
                if tb is not None:
                    dy_ = (d["curl_R"] * (BRv + BZv * tb) + d["curl_Z"] * (BZv - BRv * tb)) / (Bp * hy)
                    dz_ = d["curl_zeta"] / R - Bt * hy / (Bp * R) * dy_
                    pair(out, "CurlYIsDefinition", loc, fy, dy_, relq(fy, rel=1e-9), 20, dom="awayX")
                    pair(out, "CurlZIsDefinition", loc, fz, dz_, relq(fz, rel=1e-9), 20, dom="awayX")


P.OBS["C07"] = obs_C07


def obs_C07_pair(gA, gB, kind, out):
    """A: curvature_type curl(b/B) (R-Z form); B: the same grid with the x-y-derivative form"""
    out["kind"] = kind
    sc = {}
    for c in "xyz":
        a, b = gA.var("curl_bOverB_" + c), gB.var("curl_bOverB_" + c)
        q = 1e-6 * max(float(np.nanmax(np.abs(a))), 1e-300)
        sc[c] = {"A": Q(a, q), "B": Q(b, q)}
    out["curl"] = sc
    out["posdiff"] = int(min(np.nanmax(np.hypot(gA.var("Rxy") - gB.var("Rxy"), gA.var("Zxy") - gB.var("Zxy"))) / 1e-9, 10**9))


P.OBS_PAIR["C07"] = obs_C07_pair


def obs_C05_pair(gA, gB, kind, out):
    """A and B: the same configuration at finecontour_Nfine = N and 2N; relative error of hy*dy against the oracle's arc, per cell (1e-8)"""
    out["kind"] = kind
    err = {}
    for tag, g in (("A", gA), ("B", gB)):
        arcs = cell_arcs(g)
        A = arcs["Alo_c"] + arcs["Ahi_c"]
        H = g.var("hy") * g.var("dy")
        err[tag] = Q((H - A) / A, 1e-8)
    out["relerr"] = err
    out["nfineA"] = int(gA.extra["meshuser"].get("finecontour_Nfine", 0))
    out["nfineB"] = int(gB.extra["meshuser"].get("finecontour_Nfine", 0))


P.OBS_PAIR["C05"] = obs_C05_pair
