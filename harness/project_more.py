"""Further observation functions (registered into project.OBS)."""
import numpy as np

from harness import project as P
from harness.project import Q, NANV


def region_assemble(g, name, loc, trim=True):
    """global array assembled from the in-memory region arrays (keeps what the file drops when trim=False is not needed)"""
    t = g.extra["tables"]
    NXf, NYf = t["meshnx"], t["meshny"]
    out = np.full((NXf, NYf), np.nan)
    for r in g.extra["regions"]:
        key = "r%d_%s_%s" % (r["id"], name, loc)
        if key not in g.reg:
            return None
        a = g.reg[key]
        x0, x1, y0, y1 = t["rects"][r["id"]]
        out[x0:x1, y0:y1] = a[: x1 - x0, : y1 - y0]
    return out


def region_faces(g, name):
    """(lower-face value, upper-face value) per cell from the in-memory ylow arrays (ny+1 per region)"""
    t = g.extra["tables"]
    lo = np.full((t["meshnx"], t["meshny"]), np.nan)
    hi = np.full((t["meshnx"], t["meshny"]), np.nan)
    for r in g.extra["regions"]:
        a = g.reg["r%d_%s_ylow" % (r["id"], name)]
        x0, x1, y0, y1 = t["rects"][r["id"]]
        lo[x0:x1, y0:y1] = a[:, :-1]
        hi[x0:x1, y0:y1] = a[:, 1:]
    return lo, hi


def pair(out, clause, loc, a, b, quantum, bound, dom="all", kind="near"):
    out.setdefault("pairs", []).append({"clause": clause, "loc": loc, "dom": dom, "kind": kind, "bound": int(bound),
                                        "a": Q(a, quantum), "b": Q(b, quantum)})


def relq(*arrs, rel=1e-9):
    m = max(float(np.nanmax(np.abs(np.where(np.isfinite(a), a, 0.0)))) for a in arrs)
    return rel * max(m, 1e-300)


def obs_C02(g, out):
    orth = g.extra["orthogonal"]
    for loc in ("centre", "xlow", "ylow"):
        f = lambda n: g.loc(n, loc)  # noqa: E731
        R, Bp, Bt, hy, J = f("Rxy"), f("Bpxy"), f("Btxy"), f("hy"), f("J")
        up = {k: f(k) for k in ("g11", "g22", "g33", "g12", "g13", "g23")}
        dn = {k: f(k) for k in ("g_11", "g_22", "g_33", "g_12", "g_13", "g_23")}
        U = np.array([[up["g11"], up["g12"], up["g13"]], [up["g12"], up["g22"], up["g23"]], [up["g13"], up["g23"], up["g33"]]])
        D = np.array([[dn["g_11"], dn["g_12"], dn["g_13"]], [dn["g_12"], dn["g_22"], dn["g_23"]], [dn["g_13"], dn["g_23"], dn["g_33"]]])
        prod = np.einsum("ikxy,kjxy->ijxy", U, D)
        for i in range(3):
            for j in range(3):
                pair(out, "InverseOK", loc, prod[i, j], np.full(R.shape, 1.0 if i == j else 0.0), 1e-9, 100)
        pair(out, "JacobianIsHyOverBp", loc, J, hy / Bp, relq(J), 20)
        det = (up["g11"] * up["g22"] * up["g33"] + 2 * up["g12"] * up["g13"] * up["g23"] - up["g11"] * up["g23"] ** 2
               - up["g22"] * up["g13"] ** 2 - up["g33"] * up["g12"] ** 2)
        pair(out, "JacobianIsInvSqrtDet", loc, np.abs(J) * np.sqrt(det), np.ones(R.shape), 1e-9, 100)
        pair(out, "ClosedForm_g11", loc, up["g11"], (R * Bp) ** 2, relq(up["g11"]), 20)
        pair(out, "ClosedForm_g_33", loc, dn["g_33"], R ** 2, relq(dn["g_33"]), 20)
        dphidy = f("dphidy")
        pair(out, "Dphidy", loc, dphidy, hy * Bt / (Bp * R), relq(dphidy) if np.nanmax(np.abs(dphidy)) > 0 else 1e-12, 20)
        if orth:
            cosb = np.ones(R.shape)
            tanb = np.zeros(R.shape)
            for k in ("g12", "g13"):
                pair(out, "OrthogonalZero_" + k, loc, up[k], np.zeros(R.shape), 1e-12, 0)
            pair(out, "OrthogonalZero_g_12", loc, dn["g_12"], np.zeros(R.shape), 1e-12, 0)
        elif loc in ("centre", "ylow"):
            cosb = region_assemble(g, "cosBeta", loc)
            tanb = region_assemble(g, "tanBeta", loc)
        else:
            cosb = tanb = None
        if cosb is not None:
            pair(out, "ClosedForm_g22", loc, up["g22"], 1.0 / (hy * cosb) ** 2, relq(up["g22"]), 20)
            pair(out, "ClosedForm_g33", loc, up["g33"], 1.0 / R ** 2 + (dphidy / (hy * cosb)) ** 2, relq(up["g33"]), 20)
            pair(out, "ClosedForm_g_11", loc, dn["g_11"], 1.0 / (R * Bp * cosb) ** 2, relq(dn["g_11"]), 20)
            pair(out, "ClosedForm_g_22", loc, dn["g_22"], hy ** 2 + (dphidy * R) ** 2, relq(dn["g_22"]), 20)
            sg = np.sign(Bp)
            pair(out, "ClosedForm_g12", loc, up["g12"], -sg * R * np.abs(Bp) * tanb / hy, relq(up["g11"], up["g22"]), 20)
            pair(out, "ClosedForm_g13", loc, up["g13"], sg * Bt * tanb, relq(up["g11"], up["g33"]), 20)
            pair(out, "ClosedForm_g_12", loc, dn["g_12"], sg * hy * tanb / (R * np.abs(Bp)), relq(dn["g_11"], dn["g_22"]), 20)
            pair(out, "ClosedForm_g23", loc, up["g23"], -sg * dphidy / (hy * cosb) ** 2, relq(up["g23"]) if np.nanmax(np.abs(up["g23"])) > 0 else 1e-12, 20)
            pair(out, "ClosedForm_g_23", loc, dn["g_23"], sg * dphidy * R ** 2, relq(dn["g_23"]) if np.nanmax(np.abs(dn["g_23"])) > 0 else 1e-12, 20)
    # y-z coupling against the toroidal shift stored in the same grid (centre): g_23 = g_33 * d(zShift)/dy
    dy = g.var("dy")
    zlo, zhi = region_faces(g, "zShift")
    dz = (zhi - zlo) / dy
    a = g.var("g_23") / g.var("g_33")
    if np.nanmax(np.abs(g.var("Btxy"))) > 0:
        pair(out, "G23MatchesZShift", "centre", a, dz, relq(a, dz, rel=1e-6), 0, kind="signratio")
        pair(out, "G23upMatchesZShift", "centre", -g.var("g23") / g.var("g22"), dz, relq(a, dz, rel=1e-6), 0, kind="signratio")
    # covariant components reproduce the scalar products of the actual displacements (centre)
    Rx = [region_assemble(g, "Rxy", "xlow")]
    t = g.extra["tables"]
    dRx = np.full((t["meshnx"], t["meshny"]), np.nan)
    dZx = np.full_like(dRx, np.nan)
    dRy = np.full_like(dRx, np.nan)
    dZy = np.full_like(dRx, np.nan)
    for r in g.extra["regions"]:
        x0, x1, y0, y1 = t["rects"][r["id"]]
        Rxl, Zxl = g.reg["r%d_Rxy_xlow" % r["id"]], g.reg["r%d_Zxy_xlow" % r["id"]]
        Ryl, Zyl = g.reg["r%d_Rxy_ylow" % r["id"]], g.reg["r%d_Zxy_ylow" % r["id"]]
        dRx[x0:x1, y0:y1] = Rxl[1:, :] - Rxl[:-1, :]
        dZx[x0:x1, y0:y1] = Zxl[1:, :] - Zxl[:-1, :]
        dRy[x0:x1, y0:y1] = Ryl[:, 1:] - Ryl[:, :-1]
        dZy[x0:x1, y0:y1] = Zyl[:, 1:] - Zyl[:, :-1]
    dx = g.var("dx")
    g_11, g_12, g_22 = g.var("g_11"), g.var("g_12"), g.var("g_22")
    pol22 = g_22 - (g.var("Rxy") * g.var("dphidy")) ** 2
    pair(out, "Displacement_g_11", "centre", g_11, (dRx ** 2 + dZx ** 2) / dx ** 2, relq(g_11, rel=1e-6), 0, kind="signratio", dom="awayX")
    pair(out, "Displacement_g_22pol", "centre", pol22, (dRy ** 2 + dZy ** 2) / dy ** 2, relq(pol22, rel=1e-6), 0, kind="signratio")
    if not orth:
        d12 = (dRx * dRy + dZx * dZy) / (dx * dy)
        pair(out, "Displacement_g_12", "centre", g_12, d12, relq(g_12, d12, rel=1e-6), 0, kind="signratio12", dom="legsAwayX")
        out["g12scale"] = Q(np.sqrt(np.abs(g_11 * pol22)), relq(g_12, d12, rel=1e-6))


P.OBS["C02"] = obs_C02
