"""Numeric oracles (trusted base, DESIGN 3.5): an independent follower of flux-surface
contours used to measure arc length and field-line integrals between two grid points."""
import numpy as np
from scipy.integrate import solve_ivp

from harness import equilibria as E


def psi_factor(cfg):
    """file psi = psi_factor * (psi of the unsigned, unscaled analytic family): sign and scale given to the input arrays, times what the
    options reverse_current / psi_divide_twopi do to them"""
    o = cfg.get("options", {})
    f = cfg.get("psi_sign", 1.0) * cfg.get("psi_scale", 1.0)
    if o.get("reverse_current"):
        f = -f
    if o.get("psi_divide_twopi"):
        f = f / (2.0 * np.pi)
    return f


def bt_sign(cfg):
    return -1.0 if cfg.get("options", {}).get("reverse_Bt") else 1.0


def analytic_psi_grad(cfg):
    """(psi, dpsi/dR, dpsi/dZ) as analytic functions for the tokamak families; None otherwise"""
    if cfg.get("family", "tokamak") != "tokamak":
        return None
    if cfg.get("options", {}).get("psi_interpolation_method", "spline") != "spline":
        return None      # the grid follows the contours of the chosen interpolant: use the equilibrium object's own psi (callers fall back)
    geom = cfg["geometry"]
    sgn = psi_factor(cfg)
    mir = -1.0 if cfg.get("mirror") else 1.0
    r0, z0 = E.R0, E.Z0
    lobes = {"lsn": [(1, r0, 0.3 - z0), (1, r0, -0.3 - z0)], "usn": [(1, r0, z0 + 0.3), (1, r0, z0 - 0.3)],
             "cdn": [(1, r0, 0.0), (1, r0, -2 * z0), (1, r0, 2 * z0)], "udn": [(1, r0, 0.0), (1, r0, -2 * z0 - 0.002), (1, r0, 2 * z0)],
             "cdn_unbal": [(1, r0, 0.0), (1, r0, -2 * z0 - 0.0001), (1, r0, 2 * z0)],
             "ldn": [(-1, r0, 0.0), (-1, r0, -2 * z0), (-1, r0, 2 * z0 + 0.003)], "udn2": [(1, r0, 0.0), (1, r0, -2 * z0 - 0.02), (1, r0, 2 * z0)],
             "lsn_tilt": [(1, r0, 0.3 - z0), (1, r0 + 0.08, -0.3 - z0)]}[geom]
    w2 = 0.3 ** 2

    def psi(R, Z):
        Zm = mir * Z
        return sgn * sum(a * np.exp(-((R - rc) ** 2 + (Zm - zc) ** 2) / w2) for a, rc, zc in lobes)

    def grad(R, Z):
        Zm = mir * Z
        gR = gZ = 0.0
        for a, rc, zc in lobes:
            e = a * np.exp(-((R - rc) ** 2 + (Zm - zc) ** 2) / w2)
            gR = gR + e * (-2 * (R - rc) / w2)
            gZ = gZ + e * (-2 * (Zm - zc) / w2)
        return sgn * gR, sgn * mir * gZ

    return psi, grad


def follow(p0, p1, grad, integrand=None, rtol=1e-9):
    """Follow the flux surface through p0 towards p1; stop at the closest approach to p1.
    Returns (arc length, integral of integrand ds) or (nan, nan)."""
    p0 = np.asarray(p0, float)
    p1 = np.asarray(p1, float)
    chord = float(np.hypot(*(p1 - p0)))
    if not np.isfinite(chord):
        return np.nan, np.nan
    if chord < 1e-13:
        return 0.0, 0.0

    def tangent(R, Z):
        gR, gZ = grad(R, Z)
        n = np.hypot(gR, gZ)
        if n < 1e-10:
            raise FloatingPointError("grad psi vanishes")
        return np.array([gZ, -gR]) / n

    try:
        t0 = tangent(*p0)
    except FloatingPointError:
        return np.nan, np.nan
    sig = 1.0 if np.dot(t0, p1 - p0) >= 0 else -1.0

    def rhs(s, y):
        t = sig * tangent(y[0], y[1])
        f = integrand(y[0], y[1]) if integrand is not None else 0.0
        return [t[0], t[1], f]

    def ev(s, y):
        t = sig * tangent(y[0], y[1])
        return float(np.dot(np.array([y[0], y[1]]) - p1, t))

    ev.terminal = True
    ev.direction = 1.0
    try:
        sol = solve_ivp(rhs, [0.0, 4.0 * chord + 1e-6], [p0[0], p0[1], 0.0], events=ev, rtol=rtol, atol=1e-12, method="RK45",
                        max_step=max(chord / 4.0, 1e-6))
    except (FloatingPointError, ValueError):
        return np.nan, np.nan
    if sol.status != 1 or len(sol.t_events[0]) == 0:
        return np.nan, np.nan
    yend = sol.y_events[0][0]
    miss = float(np.hypot(yend[0] - p1[0], yend[1] - p1[1]))
    if miss > 1e-3 * max(chord, 1e-3) + 1e-5:
        return np.nan, np.nan      # p1 is not on the surface followed (caller treats as 'no oracle value')
    return float(sol.t_events[0][0]), float(yend[2])


# ---------------------------------------------------------------------------------------------
# polygon oracle (C11): independent of hypnotoad.utils.polygons / find_intersections
def poly_inside(poly, R, Z):
    """even-odd rule; poly: (n, 2) array of vertices (not closed).  Vectorised over R, Z."""
    R = np.asarray(R, float)
    Z = np.asarray(Z, float)
    inside = np.zeros(R.shape, bool)
    n = len(poly)
    for k in range(n):
        x1, y1 = poly[k]
        x2, y2 = poly[(k + 1) % n]
        if y1 == y2:
            continue
        cond = (y1 > Z) != (y2 > Z)
        with np.errstate(invalid="ignore", divide="ignore"):
            xint = x1 + (Z - y1) * (x2 - x1) / (y2 - y1)
        inside ^= cond & (R < xint)
    return inside


def poly_distance(poly, R, Z):
    """distance from (R, Z) to the boundary of the polygon.  Vectorised."""
    R = np.asarray(R, float)
    Z = np.asarray(Z, float)
    best = np.full(R.shape, np.inf)
    n = len(poly)
    for k in range(n):
        a = np.asarray(poly[k], float)
        b = np.asarray(poly[(k + 1) % n], float)
        ab = b - a
        L2 = float(ab @ ab)
        if L2 == 0.0:
            d = np.hypot(R - a[0], Z - a[1])
        else:
            t = np.clip(((R - a[0]) * ab[0] + (Z - a[1]) * ab[1]) / L2, 0.0, 1.0)
            d = np.hypot(R - (a[0] + t * ab[0]), Z - (a[1] + t * ab[1]))
        best = np.minimum(best, d)
    return best


def chord_outside_fraction(poly, p1, p2):
    """fraction of the length of the straight chord p1 -> p2 that lies outside the polygon"""
    p1 = np.asarray(p1, float)
    p2 = np.asarray(p2, float)
    d = p2 - p1
    L = float(np.hypot(*d))
    if not np.isfinite(L) or L == 0.0:
        return np.nan
    ts = [0.0, 1.0]
    n = len(poly)
    for k in range(n):
        a = np.asarray(poly[k], float)
        b = np.asarray(poly[(k + 1) % n], float)
        e = b - a
        den = d[0] * e[1] - d[1] * e[0]
        if den == 0.0:
            continue
        t = ((a[0] - p1[0]) * e[1] - (a[1] - p1[1]) * e[0]) / den
        u = ((a[0] - p1[0]) * d[1] - (a[1] - p1[1]) * d[0]) / den
        if 0.0 < t < 1.0 and 0.0 <= u <= 1.0:
            ts.append(float(t))
    ts = sorted(set(ts))
    out = 0.0
    for t0, t1 in zip(ts[:-1], ts[1:]):
        m = p1 + 0.5 * (t0 + t1) * d
        if not bool(poly_inside(poly, m[0], m[1])):
            out += t1 - t0
    return out
