"""Running TLC/SANY and reading what it prints: summary counts, coverage,
PrintT lines, -dump dot graphs, -simulate behaviour files, TLA+ values."""
import os
import re
import shutil
import subprocess
import time

from .core import SPEC, CACHE, NCPU, MachineryError, run_group

JAR = "/opt/veriftools/tla/tla2tools.jar"
CP = JAR + ":/opt/veriftools/tla/CommunityModules-deps.jar"


class TLCResult:
    def __init__(self):
        self.rc = None
        self.out = ""
        self.distinct = 0
        self.generated = 0
        self.depth = 0
        self.ok = False  # finished without violation
        self.violated = None  # name of violated invariant/property or 'deadlock'
        self.prints = []  # parsed PrintT values
        self.coverage = {}  # action name -> (distinct, total)
        self.wall = 0.0
        self.module = ""
        self.cfg = ""
        self.error_trace = []

    def summary(self):
        return {
            "module": self.module,
            "cfg": self.cfg,
            "distinct": self.distinct,
            "generated": self.generated,
            "depth": self.depth,
            "ok": self.ok,
            "violated": self.violated,
            "wall_s": round(self.wall, 1),
        }


def sany(module_path):
    p = subprocess.run(
        ["java", "-cp", CP, "tla2sany.SANY", os.path.basename(module_path)],
        cwd=os.path.dirname(module_path),
        capture_output=True,
        text=True,
    )
    ok = p.returncode == 0 and "Semantic errors" not in p.stdout and "***Parse Error***" not in p.stdout and "Fatal" not in p.stdout
    return ok, p.stdout + p.stderr


def run_tlc(
    module,
    cfg,
    workers=None,
    timeout=900,
    extra=None,
    env_extra=None,
    coverage=False,
    dfs=False,
    deadlock=None,
    simulate=None,
    depth=None,
    dump_dot=None,
    specdir=SPEC,
    heap="4g",
    check=True,
):
    """Run TLC on spec/<module>.tla with spec/<cfg>. Returns TLCResult.
    A run that ends for a reason other than success/violation raises MachineryError when check."""
    workers = workers or min(NCPU, 16)
    meta = os.path.join(CACHE, "tmp", "tlc.%d.%d" % (os.getpid(), int(time.time() * 1e6) % 10**9))
    os.makedirs(meta, exist_ok=True)
    java = ["java", "-XX:+UseParallelGC", "-Xmx" + heap]
    if dfs:
        java.append("-Dtlc2.tool.queue.IStateQueue=StateDeque")
    cmd = java + ["-cp", CP, "tlc2.TLC", "-metadir", meta, "-noGenerateSpecTE", "-workers", str(workers), "-config", cfg]
    if coverage:
        cmd += ["-coverage", "1"]
    if deadlock is False:
        cmd += ["-deadlock"]
    if simulate:
        cmd += ["-simulate", simulate]
    if depth:
        cmd += ["-depth", str(depth)]
    if dump_dot:
        cmd += ["-dump", "dot,actionlabels", dump_dot]
    if extra:
        cmd += list(extra)
    cmd.append(module)
    env = dict(os.environ)
    env.pop("JAVA_TOOL_OPTIONS", None)
    if env_extra:
        env.update({k: str(v) for k, v in env_extra.items()})
    t0 = time.time()
    rc, out, err = run_group(cmd, timeout, env=env, cwd=specdir)
    res = parse_tlc_output(out + "\n" + err)
    res.rc = rc
    res.wall = time.time() - t0
    res.module = module
    res.cfg = cfg
    shutil.rmtree(meta, ignore_errors=True)
    if rc is None:
        if check:
            raise MachineryError("TLC timed out after %ss on %s/%s" % (timeout, module, cfg))
        res.violated = "timeout"
    elif check and not res.ok and res.violated is None:
        raise MachineryError("TLC failed on %s/%s (rc=%s):\n%s" % (module, cfg, rc, (out + err)[-3000:]))
    return res


def parse_tlc_output(out):
    res = TLCResult()
    res.out = out
    m = None
    for m in re.finditer(r"(\d+) states generated, (\d+) distinct states found, (\d+) states left on queue", out):
        pass
    if m:
        res.generated = int(m.group(1))
        res.distinct = int(m.group(2))
    else:
        m = re.search(r"(\d+) states generated", out)
        if m:
            res.generated = int(m.group(1))
    m = re.search(r"The depth of the complete state graph search is (\d+)", out)
    if m:
        res.depth = int(m.group(1))
    if "Model checking completed. No error has been found." in out:
        res.ok = True
    if re.search(r"Finished in|Simulation|simulation", out) and "Error:" not in out and not res.ok:
        # simulation mode with num= ends without the 'completed' line
        if "Error" not in out:
            res.ok = True
    m = re.search(r"Error: Invariant (\S+) is violated", out)
    if m:
        res.violated = m.group(1)
    m = re.search(r"Error: Action property (\S+) is violated", out)
    if m:
        res.violated = m.group(1)
    if "Error: Temporal properties were violated" in out:
        res.violated = "temporal"
    if "Error: Deadlock reached" in out:
        res.violated = "deadlock"
    m = re.search(r"Error: Postcondition|The postcondition", out)
    if m and res.violated is None and "violated" in out:
        res.violated = "postcondition"
    m = re.search(r"Error: Assumption .* is false", out)
    if m:
        res.violated = "assumption"
    if res.violated:
        res.ok = False
    # coverage lines:  <Action line 12, col 1 to line 20, col 30 of module M>: 12:34
    for m in re.finditer(r"<(\w+) line \d+, col \d+ to line \d+, col \d+ of module (\w+)>: (\d+):(\d+)", out):
        name = m.group(1)
        d, t = int(m.group(3)), int(m.group(4))
        od, ot = res.coverage.get(name, (0, 0))
        res.coverage[name] = (od + d, ot + t)
    return res


def never_taken(res, actions, module=None, specdir=SPEC):
    """Names of definitions (actions or branch operators) none of whose expressions was
    evaluated with a non-zero count in a -coverage run.  Located by source line span so
    that actions nested under \\E in Next are found too."""
    module = module or res.module
    mods = [module]
    src = {}
    hits = {}
    for m in re.finditer(r"line (\d+), col \d+ to line \d+, col \d+ of module (\w+)>?: (\d+)(?::(\d+))?", res.out):
        ln, mod = int(m.group(1)), m.group(2)
        cnt = int(m.group(4) if m.group(4) is not None else m.group(3))
        hits.setdefault(mod, {})
        hits[mod][ln] = hits[mod].get(ln, 0) + cnt
    missing = []
    for mod in hits:
        pth = os.path.join(specdir, mod + ".tla")
        if os.path.exists(pth):
            with open(pth) as fh:
                src[mod] = fh.read().split("\n")
    for a in actions:
        found = False
        total = 0
        for mod, lines in src.items():
            for n, line in enumerate(lines):
                if re.match(r"%s(\(.*\))?\s*==" % re.escape(a), line):
                    found = True
                    end = n + 1
                    while end < len(lines) and lines[end].strip() and not re.match(r"\S.*==|----|====", lines[end]):
                        end += 1
                    # the definition line itself carries the <Name ...>: d:t count; skip it
                    for ln in range(n + 2, end + 1):
                        total += hits.get(mod, {}).get(ln, 0)
                    if end == n + 1:
                        total += hits.get(mod, {}).get(n + 1, 0)
        if not found or total == 0:
            missing.append(a)
    return missing


# --------------------------------------------------------------------------
# TLA+ value parser (as printed by TLC)
# --------------------------------------------------------------------------
class _P:
    def __init__(self, s):
        self.s = s
        self.i = 0

    def ws(self):
        while self.i < len(self.s) and self.s[self.i] in " \t\r\n":
            self.i += 1

    def peek(self, t):
        self.ws()
        return self.s.startswith(t, self.i)

    def eat(self, t):
        self.ws()
        if not self.s.startswith(t, self.i):
            raise ValueError("expected %r at %d: %r" % (t, self.i, self.s[self.i:self.i + 40]))
        self.i += len(t)

    def value(self):
        self.ws()
        s = self.s
        c = s[self.i]
        if c == '"':
            j = self.i + 1
            buf = []
            while s[j] != '"':
                if s[j] == "\\":
                    j += 1
                buf.append(s[j])
                j += 1
            self.i = j + 1
            return "".join(buf)
        if s.startswith("<<", self.i):
            self.i += 2
            items = []
            self.ws()
            if self.peek(">>"):
                self.eat(">>")
                return tuple(items)
            while True:
                items.append(self.value())
                self.ws()
                if self.peek(","):
                    self.eat(",")
                else:
                    self.eat(">>")
                    return tuple(items)
        if c == "{":
            self.i += 1
            items = []
            if self.peek("}"):
                self.eat("}")
                return frozenset()
            while True:
                items.append(self.value())
                if self.peek(","):
                    self.eat(",")
                else:
                    self.eat("}")
                    return frozenset(items)
        if c == "[":
            self.i += 1
            d = {}
            if self.peek("]"):
                self.eat("]")
                return Rec(d)
            while True:
                self.ws()
                m = re.match(r"[A-Za-z_][A-Za-z0-9_]*", s[self.i:])
                k = m.group(0)
                self.i += len(k)
                self.eat("|->")
                d[k] = self.value()
                if self.peek(","):
                    self.eat(",")
                else:
                    self.eat("]")
                    return Rec(d)
        if c == "(":
            # function  (a :> b @@ c :> d)
            self.i += 1
            d = {}
            while True:
                k = self.value()
                self.eat(":>")
                v = self.value()
                d[k] = v
                if self.peek("@@"):
                    self.eat("@@")
                else:
                    self.eat(")")
                    return Rec(d)
        m = re.match(r"-?\d+", s[self.i:])
        if m:
            self.i += len(m.group(0))
            return int(m.group(0))
        m = re.match(r"[A-Za-z_][A-Za-z0-9_]*", s[self.i:])
        if m:
            w = m.group(0)
            self.i += len(w)
            if w == "TRUE":
                return True
            if w == "FALSE":
                return False
            return w  # model value
        raise ValueError("cannot parse at %d: %r" % (self.i, s[self.i:self.i + 40]))


class Rec(dict):
    """A TLA+ record/function; hashable so it can live in sets."""

    def __hash__(self):
        return hash(tuple(sorted((repr(k), repr(v)) for k, v in self.items())))

    def __getattr__(self, k):
        try:
            return self[k]
        except KeyError:
            raise AttributeError(k)


def parse_value(s):
    p = _P(s)
    v = p.value()
    p.ws()
    if p.i != len(s):
        raise ValueError("trailing text: %r" % s[p.i:p.i + 40])
    return v


def parse_state(text):
    """'/\\ a = 1\n/\\ b = <<>>' -> dict"""
    st = {}
    parts = re.split(r"(?:^|\n)\s*/\\ ", "\n" + text.strip())
    for part in parts:
        part = part.strip()
        if not part:
            continue
        m = re.match(r"([A-Za-z_][A-Za-z0-9_]*)\s*=\s*(.*)\Z", part, re.S)
        if not m:
            raise ValueError("bad conjunct %r" % part[:80])
        st[m.group(1)] = parse_value(m.group(2).strip())
    return st


def parse_dot(path):
    """-dump dot,actionlabels -> (states: id->dict, init ids, edges: list of (src, dst, action))"""
    states, edges, inits = {}, [], []
    node_re = re.compile(r'^(-?\d+) \[label="(.*?)(?<!\\)"(,style = filled)?(?:,tooltip=".*")?\];?$')
    edge_re = re.compile(r'^(-?\d+) -> (-?\d+) \[label="([^"]*)"')
    with open(path) as fh:
        for line in fh:
            line = line.rstrip("\n")
            m = edge_re.match(line)
            if m:
                edges.append((m.group(1), m.group(2), m.group(3)))
                continue
            m = node_re.match(line)
            if m:
                lab = m.group(2).replace("\\n", "\n").replace('\\"', '"').replace("\\\\", "\\")
                states[m.group(1)] = parse_state(lab)
                if m.group(3):
                    inits.append(m.group(1))
    return states, inits, edges


def parse_sim_file(path):
    """A behaviour file written by -simulate file=...: list of (action name or None, state dict)."""
    with open(path) as fh:
        text = fh.read()
    out = []
    for m in re.finditer(r"\\\* <?([A-Za-z_0-9 ]+?)(?: line[^>\n]*)?>?\s*\nSTATE_(\d+) ==\s*\n(.*?)(?=\n\s*\n|\Z)", text, re.S):
        act = m.group(1).strip()
        out.append((act, parse_state(m.group(3))))
    return out


def edge_cover_paths(inits, edges, max_paths=None):
    """Greedy set of paths from an initial state covering every edge at least once.
    edges: list of (src, dst, label). Returns list of paths, each a list of edge indices."""
    from collections import defaultdict, deque

    out = defaultdict(list)
    for n, (a, b, l) in enumerate(edges):
        out[a].append(n)
    uncovered = set(range(len(edges)))
    paths = []
    # BFS tree from inits for shortest prefix to any node
    parent = {}
    dq = deque()
    for i in inits:
        parent[i] = None
        dq.append(i)
    while dq:
        u = dq.popleft()
        for n in out[u]:
            v = edges[n][1]
            if v not in parent:
                parent[v] = n
                dq.append(v)

    def prefix(node):
        p = []
        while parent[node] is not None:
            n = parent[node]
            p.append(n)
            node = edges[n][0]
        p.reverse()
        return p

    while uncovered:
        n0 = min(uncovered)
        path = prefix(edges[n0][0]) + [n0]
        for n in path:
            uncovered.discard(n)
        cur = edges[n0][1]
        # extend greedily along uncovered edges
        while True:
            nxt = [n for n in out[cur] if n in uncovered]
            if not nxt:
                # look one BFS hop ahead for an uncovered edge (bounded)
                found = None
                seen = {cur}
                dq = deque([(cur, [])])
                steps = 0
                while dq and steps < 2000:
                    u, pth = dq.popleft()
                    steps += 1
                    for n in out[u]:
                        if n in uncovered:
                            found = pth + [n]
                            break
                        v = edges[n][1]
                        if v not in seen:
                            seen.add(v)
                            dq.append((v, pth + [n]))
                    if found:
                        break
                if not found:
                    break
                for n in found:
                    uncovered.discard(n)
                path += found
                cur = edges[found[-1]][1]
                continue
            n = nxt[0]
            uncovered.discard(n)
            path.append(n)
            cur = edges[n][1]
        paths.append(path)
        if max_paths and len(paths) >= max_paths:
            break
    return paths


def extract_prints(out, tag):
    """All PrintT values of the form << "tag", ... >> in TLC output (may span lines), parsed."""
    vals = []
    pos = 0
    pat = re.compile(r'<<\s*"%s"' % re.escape(tag))
    while True:
        m = pat.search(out, pos)
        if not m:
            break
        i = m.start()
        depth = 0
        j = i
        while j < len(out):
            if out.startswith("<<", j):
                depth += 1
                j += 2
                continue
            if out.startswith(">>", j):
                depth -= 1
                j += 2
                if depth == 0:
                    break
                continue
            if out[j] == '"':
                j += 1
                while out[j] != '"':
                    j += 2 if out[j] == "\\" else 1
            j += 1
        vals.append(parse_value(out[i:j]))
        pos = j
    return vals
