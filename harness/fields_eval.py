"""Python evaluator of FieldOps.tla's *definition* of the magnetic-field functions (C18): forward-mode differentiation with dual numbers
<value, d/dR, d/dZ> over any number type (fractions.Fraction for the exact comparison with TLC, float for smooth data).

It is not trusted: on every lattice point of the `exact' traces TLC compares its rational results with FieldOps!Def (clause
EvaluatorIsSpec), and only then are its float results used as the expected values on smooth data (clause AlgebraIsSpec)."""

NAMES = ["psi", "Bp_R", "Bp_Z", "d2psidR2", "d2psidZ2", "d2psidRdZ", "Bzeta", "B2", "dBzetadR", "dBzetadZ",
         "dBRdR", "dBRdZ", "dBZdR", "dBZdZ", "dB2dR", "dB2dZ"]
FNAMES = ["f_R", "f_Z"]
CURLNAMES = ["curl_R", "curl_Z", "curl_zeta", "curl_x"]      # curl(b/B) in cylindrical components, and curl(b/B).grad(psi); defined where B != 0


class Dual:
    __slots__ = ("v", "r", "z")

    def __init__(self, v, r, z):
        self.v, self.r, self.z = v, r, z

    def __add__(self, o):
        return Dual(self.v + o.v, self.r + o.r, self.z + o.z)

    def __neg__(self):
        return Dual(-self.v, -self.r, -self.z)

    def __mul__(self, o):
        return Dual(self.v * o.v, self.r * o.v + self.v * o.r, self.z * o.v + self.v * o.z)

    def inv(self):
        i = 1 / self.v
        return Dual(i, -self.r * i * i, -self.z * i * i)

    def __truediv__(self, o):
        return self * o.inv()


def fields(R, p, pR, pZ, pRR, pRZ, pZZ, F, Fp):
    """all exposed functions at one point from the 2-jet of psi, fpol(psi) and fpol'(psi); the number type is that of the arguments"""
    zero = R * 0
    one = zero + 1
    dR = Dual(R, one, zero)
    dpsiR = Dual(pR, pRR, pRZ)
    dpsiZ = Dual(pZ, pRZ, pZZ)
    dF = Dual(F, Fp * pR, Fp * pZ)
    br = dpsiZ / dR
    bz = -(dpsiR / dR)
    bt = dF / dR
    b2 = br * br + bz * bz + bt * bt
    out = {"psi": p, "Bp_R": br.v, "Bp_Z": bz.v, "d2psidR2": dpsiR.r, "d2psidZ2": dpsiZ.z, "d2psidRdZ": dpsiR.z,
           "Bzeta": bt.v, "B2": b2.v, "dBzetadR": bt.r, "dBzetadZ": bt.z, "dBRdR": br.r, "dBRdZ": br.z, "dBZdR": bz.r, "dBZdZ": bz.z,
           "dB2dR": b2.r, "dB2dZ": b2.z}
    try:
        bdef = bool(b2.v != 0)
    except ValueError:
        bdef = True
    if bdef:
        ar, az, at = br / b2, bz / b2, bt / b2          # b/B = B/B^2
        out["curl_R"] = -at.z
        out["curl_Z"] = at.r + at.v / R
        out["curl_zeta"] = ar.z - az.r
        out["curl_x"] = out["curl_R"] * pR + out["curl_Z"] * pZ
    g2 = pR * pR + pZ * pZ
    try:
        defined = bool(g2 != 0)
    except ValueError:          # arrays: the caller masks the points where grad(psi) = 0
        defined = True
    if defined:
        out["f_R"] = pR / g2
        out["f_Z"] = pZ / g2
    return out
