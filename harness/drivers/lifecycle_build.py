"""Driver for Lifecycle.tla, build alphabet (C14): executes a history of BuildEq(option set) calls that all
reuse the SAME caller arrays, then BuildMesh, Geometry, Write, in one interpreter.

usage: lifecycle_build.py <job.json> <outdir>
job: {optsets: {name: dict}, base: options, history: [name, name, ...]}   (the mesh is built from the last equilibrium)
Records for every BuildEq whether the caller's arrays changed, and the digest of the written file.
"""
import hashlib
import json
import os
import sys
import warnings

import numpy as np

from harness import equilibria as E


def file_digest(path):
    from netCDF4 import Dataset

    h = hashlib.sha256()
    with Dataset(path) as ds:
        for n in sorted(ds.variables):
            v = ds.variables[n]
            if getattr(v.dtype, "kind", "S") in "fiu":
                h.update(n.encode())
                h.update(np.ascontiguousarray(np.array(v[...], dtype=float)).tobytes())
    return int(h.hexdigest()[:7], 16)


def main():
    warnings.simplefilter("ignore")
    with open(sys.argv[1]) as fh:
        job = json.load(fh)
    outdir = sys.argv[2]
    os.makedirs(outdir, exist_ok=True)
    from hypnotoad.cases import tokamak
    from hypnotoad.core.mesh import BoutMesh

    r1d, z1d, psi2d, psi1d = E.tokamak_arrays("lsn", 65, 65)
    fpol1d = 1.0 - 0.1 * psi1d ** 2
    pres = 1000.0 * (0.2 + psi1d ** 2)
    arrays = {"r1d": r1d, "z1d": z1d, "psi2d": psi2d, "psi1d": psi1d, "fpol1d": fpol1d, "pres": pres}
    pristine = {k: v.copy() for k, v in arrays.items()}
    events = []
    eq = None
    opts = None
    status = {"events": events}
    try:
        for name in job["history"]:
            opts = dict(job["base"])
            opts.update(job["optsets"][name])
            before = {k: v.copy() for k, v in arrays.items()}
            try:
                with E.quiet():
                    eq = tokamak.TokamakEquilibrium(arrays["r1d"], arrays["z1d"], arrays["psi2d"], arrays["psi1d"], arrays["fpol1d"], pressure=arrays["pres"],
                                                    wall=E.default_wall(), settings=dict(opts), nonorthogonal_settings=dict(opts))
                out = "ok"
            except Exception as e:  # noqa
                out = "refused"
                eq = None
                status.setdefault("exc", []).append("%s: %s" % (type(e).__name__, str(e)[:150]))
            changed = [k for k in arrays if not np.array_equal(arrays[k], before[k])]
            events.append({"ev": "BuildEq", "arg": name, "out": out, "changed": 1 if changed else 0, "which": ",".join(changed),
                           "pristine": 1 if all(np.array_equal(arrays[k], pristine[k]) for k in arrays) else 0, "digest": 0})
        if eq is not None:
            with E.quiet():
                mesh = BoutMesh(eq, opts)
                events.append({"ev": "BuildMesh", "arg": "", "out": "ok", "changed": 0, "which": "", "pristine": 0, "digest": 0})
                mesh.geometry()
                events.append({"ev": "Geometry", "arg": "", "out": "ok", "changed": 0, "which": "", "pristine": 0, "digest": 0})
                fn = os.path.join(outdir, "grid.nc")
                mesh.writeGridfile(fn)
            events.append({"ev": "Write", "arg": "", "out": "ok", "changed": 0, "which": "", "pristine": 0, "digest": file_digest(fn)})
            mesh.parallel_map = None
    except Exception as e:  # noqa
        import traceback
        status["fatal"] = "%s: %s" % (type(e).__name__, str(e)[:300])
        status["traceback"] = traceback.format_exc()[-1500:]
    with open(os.path.join(outdir, "status.json"), "w") as fh:
        json.dump(status, fh)


if __name__ == "__main__":
    main()
