"""Driver for Lifecycle.tla, build alphabet (C14): executes a history of BuildEq(option set) calls that all
reuse the SAME caller arrays, then BuildMesh, Geometry, Write, in one interpreter.

usage: lifecycle_build.py <job.json> <outdir>
job: {optsets: {name: dict}, base: options, history: [name, name, ...]}   (the mesh is built from the last equilibrium)
Records for every BuildEq whether the caller's arrays changed, and the digest of the written file.
"""
import hashlib
import json
import os
import sys
import warnings

import numpy as np

from harness import equilibria as E


def file_digest(path):
    from netCDF4 import Dataset

    h = hashlib.sha256()
    with Dataset(path) as ds:
        for n in sorted(ds.variables):
            v = ds.variables[n]
            if getattr(v.dtype, "kind", "S") in "fiu":
                h.update(n.encode())
                h.update(np.ascontiguousarray(np.array(v[...], dtype=float)).tobytes())
    return int(h.hexdigest()[:7], 16)


def main():
    warnings.simplefilter("ignore")
    with open(sys.argv[1]) as fh:
        job = json.load(fh)
    outdir = sys.argv[2]
    os.makedirs(outdir, exist_ok=True)
    from hypnotoad.cases import tokamak
    from hypnotoad.core.mesh import BoutMesh

    # two caller array sets: I1 the symmetric lower single null, I2 the same with a tilted X-point (a different flux function)
    inputs = {}
    for iname, geom in (("I1", "lsn"), ("I2", "lsn_tilt")):
        r1d, z1d, psi2d, psi1d = E.tokamak_arrays(geom, 65, 65)
        inputs[iname] = {"r1d": r1d, "z1d": z1d, "psi2d": psi2d, "psi1d": psi1d, "fpol1d": 1.0 - 0.1 * psi1d ** 2, "pres": 1000.0 * (0.2 + psi1d ** 2)}
    pristine_all = {i: {k: v.copy() for k, v in a.items()} for i, a in inputs.items()}
    # via = "gfile": the route of a user with EFIT files - each input set is a geqdsk text, and before a build the ONE file the user works
    # with (current.geqdsk) is overwritten with it and read with tokamak.read_geqdsk(open file); what the caller owns is then the file
    via = job.get("via", "arrays")
    gtext = {}
    gpath = os.path.join(outdir, "current.geqdsk")
    if via == "gfile":
        import io
        from hypnotoad.geqdsk import _geqdsk

        for iname, geom in (("I1", "lsn"), ("I2", "lsn_tilt")):
            a = inputs[iname]
            simagx, sibdry, (rm, zm) = E.gfile_psi_range(geom, 65, 65)
            p1 = np.linspace(simagx, sibdry, 65)
            wl = E.default_wall()
            data = {"nx": 65, "ny": 65, "rdim": float(a["r1d"][-1] - a["r1d"][0]), "zdim": float(a["z1d"][-1] - a["z1d"][0]), "rcentr": 1.5, "bcentr": 1.0,
                    "rleft": float(a["r1d"][0]), "zmid": float(0.5 * (a["z1d"][0] + a["z1d"][-1])), "rmagx": rm, "zmagx": zm, "simagx": simagx, "sibdry": sibdry,
                    "cpasma": 1e6, "fpol": 1.0 - 0.1 * p1 ** 2, "pres": 1000.0 * (0.2 + p1 ** 2), "qpsi": np.zeros(65), "psi": a["psi2d"],
                    "rlim": [q[0] for q in wl], "zlim": [q[1] for q in wl]}
            buf = io.StringIO()
            _geqdsk.write(data, buf)
            gtext[iname] = buf.getvalue()
    # the caller also owns the wall list and the settings dictionaries: they are passed as they are (not copies), kept between builds, and
    # must come back unchanged like the arrays
    import copy as _copy
    wall_obj = E.default_wall()
    wall_pristine = _copy.deepcopy(wall_obj)
    optobjs = {}
    events = []
    eq = None
    opts = meshopts = None
    status = {"events": events}
    try:
        for item in job["history"]:
            # an item is an option-set name (BuildEq from I1), "name@I2" (BuildEq from I2), or "M" (build a mesh from the current
            # equilibrium and compute its geometry, without writing: state that a later build must not see)
            if item == "M":
                if eq is not None:
                    with E.quiet():
                        m0 = BoutMesh(eq, meshopts)
                        mc = int(meshopts != opts)
                        events.append({"ev": "BuildMesh", "arg": "", "input": "", "out": "ok", "changed": mc, "which": "mesh_settings" if mc else "", "pristine": 0, "digest": 0})
                        m0.geometry()
                        events.append({"ev": "Geometry", "arg": "", "input": "", "out": "ok", "changed": 0, "which": "", "pristine": 0, "digest": 0})
                continue
            name, _, iname = item.partition("@")
            iname = iname or "I1"
            arrays = inputs[iname]
            pristine = pristine_all[iname]
            opts = dict(job["base"])
            opts.update(job["optsets"][name])
            if name not in optobjs:
                optobjs[name] = (dict(opts), dict(opts))
            meshopts = dict(opts)        # the caller's dictionary for the mesh (compared with opts after BoutMesh(...))
            before = {k: v.copy() for k, v in arrays.items()}
            try:
                with E.quiet():
                    if via == "gfile":
                        with open(gpath, "w") as gfh:
                            gfh.write(gtext[iname])
                        with open(gpath) as gfh:
                            eq = tokamak.read_geqdsk(gfh, settings=optobjs[name][0], nonorthogonal_settings=optobjs[name][1])
                        if isinstance(eq, tuple):       # (partial object, exception) when the constructor raised
                            raise eq[1]
                    else:
                        eq = tokamak.TokamakEquilibrium(arrays["r1d"], arrays["z1d"], arrays["psi2d"], arrays["psi1d"], arrays["fpol1d"], pressure=arrays["pres"],
                                                        wall=wall_obj, settings=optobjs[name][0], nonorthogonal_settings=optobjs[name][1])
                out = "ok"
            except BaseException as e:  # noqa
                out = "refused"
                eq = None
                status.setdefault("exc", []).append("%s: %s" % (type(e).__name__, str(e)[:150]))
            changed = [k for k in arrays if not np.array_equal(arrays[k], before[k])]
            if via == "gfile":
                with open(gpath) as gfh:
                    if gfh.read() != gtext[iname]:
                        changed.append("gfile")
            if wall_obj != wall_pristine:
                changed.append("wall")
            if optobjs[name][0] != opts or optobjs[name][1] != opts:
                changed.append("settings")
            events.append({"ev": "BuildEq", "arg": name, "input": iname, "out": out, "changed": 1 if changed else 0, "which": ",".join(changed),
                           "pristine": 1 if all(np.array_equal(arrays[k], pristine[k]) for k in arrays) else 0, "digest": 0})
        if eq is not None:
            with E.quiet():
                mesh = BoutMesh(eq, meshopts)
                mc = int(meshopts != opts)
                events.append({"ev": "BuildMesh", "arg": "", "input": "", "out": "ok", "changed": mc, "which": "mesh_settings" if mc else "", "pristine": 0, "digest": 0})
                mesh.geometry()
                events.append({"ev": "Geometry", "arg": "", "input": "", "out": "ok", "changed": 0, "which": "", "pristine": 0, "digest": 0})
                fn = os.path.join(outdir, "grid.nc")
                mesh.writeGridfile(fn)
            events.append({"ev": "Write", "arg": "", "input": "", "out": "ok", "changed": 0, "which": "", "pristine": 0, "digest": file_digest(fn)})
            mesh.parallel_map = None
    except BaseException as e:  # noqa  (func_timeout's FunctionTimedOut is a BaseException)
        import traceback
        status["fatal"] = "%s: %s" % (type(e).__name__, str(e)[:300])
        status["traceback"] = traceback.format_exc()[-1500:]
    with open(os.path.join(outdir, "status.json"), "w") as fh:
        json.dump(status, fh)


if __name__ == "__main__":
    main()
