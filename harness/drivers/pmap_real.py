"""C->S driver for ParallelMap: real multiprocessing, tracing queues.

usage: pmap_real.py <runs.json> <out.json>
runs.json: list of {id, np, nts, fail, delays}; each run happens in a forked child
so that a hang can be killed.  Output: list of {id, cfg, ev} (Trace_ParallelMap format).
"""
import json
import multiprocessing as real_mp
import os
import re
import shutil
import signal
import sys
import tempfile
import time

import hypnotoad.utils.parallel_map as pmod

WATCHDOG = float(os.environ.get("PMAP_WATCHDOG", "12"))
LOGDIR = None


class TaskError(Exception):
    def __init__(self, c, i):
        super().__init__("task %d of call %d failed" % (i, c))
        self.c = c
        self.i = i

    def __reduce__(self):
        return (TaskError, (self.c, self.i))


class AwkwardError(Exception):
    """module-level, but its constructor does not take just the message: cannot be rebuilt from (class, args)"""

    def __init__(self, c, i):
        super().__init__("task %d of call %d failed" % (i, c))


def raise_failure(kind, c, i):
    """the ways a task of the library can fail: the exception classes of hypnotoad are not all picklable (MaxIterException is defined
    inside followPerpendicular); whatever the class, the caller must get an exception that names the failure, and no hang"""
    if kind == "local":
        class LocalError(Exception):
            pass

        raise LocalError("task %d of call %d failed" % (i, c))
    if kind == "attr":
        e = ValueError("task %d of call %d failed" % (i, c))
        e.callback = lambda: None
        raise e
    if kind == "ctor":
        raise AwkwardError(c, i)
    raise TaskError(c, i)


_MSG = re.compile(r"task (\d+) of call (\d+) failed")


class Eq:
    psi = "psi"
    f_R = "f_R"
    f_Z = "f_Z"


_fh = None
_fh_pid = None


def log(ev):
    global _fh, _fh_pid
    pid = os.getpid()
    if _fh is None or _fh_pid != pid:
        _fh = open(os.path.join(LOGDIR, "%d.log" % pid), "a")
        _fh_pid = pid
    e = {"op": "", "c": 0, "i": 0, "v": "", "b": 0, "res": []}
    e.update(ev)
    _fh.write(json.dumps(e) + "\n")
    _fh.flush()


def find_exc(o, depth=0):
    if isinstance(o, TaskError):
        return o
    if depth > 4 or o is None:
        return None
    if isinstance(o, str):
        m = _MSG.search(o)
        return TaskError(int(m.group(2)), int(m.group(1))) if m else None
    if isinstance(o, BaseException):
        for a in (o.__cause__, o.__context__) + tuple(o.args):
            r = find_exc(a, depth + 1)
            if r is not None:
                return r
    if isinstance(o, (tuple, list)):
        for x in o:
            r = find_exc(x, depth + 1)
            if r is not None:
                return r
    if hasattr(o, "__dict__") and not isinstance(o, type):
        for x in vars(o).values():
            r = find_exc(x, depth + 1)
            if r is not None:
                return r
    if isinstance(o, bytes) and depth < 3:
        try:
            import dill

            return find_exc(dill.loads(o), depth + 1)
        except Exception:
            return None
    return None


def proj_res(i, r):
    if isinstance(r, tuple) and len(r) == 3 and r[0] == "val":
        return {"c": r[1], "i": i + 1, "v": "ok" if r[2] == i + 1 else "wrongval"}
    e = find_exc(r)
    if e is not None:
        return {"c": e.c, "i": i + 1, "v": "exc" if e.i == i + 1 else "wrongexc"}
    return {"c": 0, "i": i + 1, "v": "unknown"}


class TQ:
    def __init__(self, q, name):
        self.q = q
        self.name = name

    def put(self, x, *a, **k):
        if self.name == "t":
            log({"op": "tput", "c": x[2][0], "i": x[0] + 1})
        else:
            d = proj_res(*x)
            d["op"] = "rput"
            log(d)
        return self.q.put(x, *a, **k)

    def get(self, *a, **k):
        x = self.q.get(*a, **k)
        if self.name == "t":
            log({"op": "tget", "c": x[2][0], "i": x[0] + 1})
        else:
            d = proj_res(*x)
            d["op"] = "rget"
            log(d)
        return x

    def empty(self):
        r = self.q.empty()
        log({"op": self.name + "empty", "b": 1 if r else 0})
        return r


class TMP:
    def __init__(self):
        self.n = 0

    def Queue(self, *a, **k):
        self.n += 1
        return TQ(real_mp.Queue(*a, **k), "t" if self.n == 1 else "r")

    Process = staticmethod(real_mp.Process)


RUN = None


def task(c, i, *, equilibrium, psi, f_R, f_Z):
    # module-level so that the real Queue can pickle it by reference; RUN is inherited by fork
    if RUN["np"] == 1:
        log({"op": "serial", "c": c, "i": i + 1})
    time.sleep(RUN["delays"][c - 1][i] / 1000.0)
    if (i + 1) in RUN["fail"][c - 1]:
        raise_failure(RUN.get("exckind", "plain"), c, i + 1)
    return ("val", c, i + 1)


def one_run(run):
    """Executed in a forked child: performs the calls, logging events."""
    global RUN
    RUN = run
    np_, nts, fail, delays = run["np"], run["nts"], run["fail"], run["delays"]
    pmod.multiprocessing = TMP()

    pm = pmod.ParallelMap(np_, equilibrium=Eq())
    for c, nt in enumerate(nts, start=1):
        log({"op": "call", "c": c, "i": nt})
        try:
            out = pm(task, [(c, i) for i in range(nt)])
            log({"op": "ret", "c": c, "res": [[r[1], r[2], "ok"] if isinstance(r, tuple) and len(r) == 3 and r[0] == "val" and r[2] == n + 1 else [0, n + 1, "bad"] for n, r in enumerate(out)]})
        except ValueError as e:
            if find_exc(e) is not None:
                log({"op": "raise", "c": find_exc(e).c, "i": find_exc(e).i})
            else:
                log({"op": "valerr", "c": c})
        except Exception as e:
            te = find_exc(e)
            if te is not None:
                log({"op": "raise", "c": te.c, "i": te.i})
            else:
                log({"op": "otherexc", "c": c, "v": type(e).__name__})
    pm.__del__()
    pm.workers = None
    log({"op": "shutdown"})


def main():
    global LOGDIR
    with open(sys.argv[1]) as fh:
        runs = json.load(fh)
    out = []
    base = tempfile.mkdtemp(prefix="pmapreal.", dir=os.path.dirname(os.path.abspath(sys.argv[2])))
    for run in runs:
        LOGDIR = os.path.join(base, str(run["id"]))
        os.makedirs(LOGDIR)
        pid = os.fork()
        if pid == 0:
            os.setsid()
            try:
                one_run(run)
            finally:
                os._exit(0)
        t0 = time.time()
        hung = False
        while True:
            r, st = os.waitpid(pid, os.WNOHANG)
            if r == pid:
                break
            if time.time() - t0 > WATCHDOG:
                hung = True
                break
            time.sleep(0.01)
        try:
            os.killpg(pid, signal.SIGKILL)
        except ProcessLookupError:
            pass
        if hung:
            os.waitpid(pid, 0)
        logs = {}
        for f in os.listdir(LOGDIR):
            with open(os.path.join(LOGDIR, f)) as fh:
                logs[int(f[:-4])] = [json.loads(line) for line in fh if line.strip()]
        pev = logs.pop(pid, [])
        if hung:
            pev.append({"op": "hang", "c": 0, "i": 0, "v": "", "b": 0, "res": []})
        nw = 0 if run["np"] == 1 else run["np"]
        wevs = [logs[k] for k in sorted(logs)]
        while len(wevs) < nw:
            wevs.append([])
        out.append({"id": run["id"], "hung": hung,
                    "cfg": {"nw": nw, "nts": run["nts"], "fail": run["fail"]},
                    "ev": [pev] + wevs[:max(nw, 0)], "extra_logs": len(wevs) - nw})
        shutil.rmtree(LOGDIR, ignore_errors=True)
    shutil.rmtree(base, ignore_errors=True)
    with open(sys.argv[2], "w") as fh:
        json.dump(out, fh)


if __name__ == "__main__":
    main()
