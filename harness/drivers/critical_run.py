"""C->S driver for Critical.tla: critical points of analytic flux functions (sums of Gaussian lobes) found
(a) by an independent Newton search on the analytic gradient (the truth), (b) by critical.find_critical on the sampled array,
(c) as selected by TokamakEquilibrium.

usage: critical_run.py <cases.json> <out.json>
case: {"id", "lobes": [[amp, R, Z, width], ...], "nR", "nZ", "sign", "psinorm_sol", "wall_inset", "nx_inter_sep"}"""
import contextlib
import io
import json
import sys
import warnings

import numpy as np
from scipy import interpolate

from harness import oracles as O

RL, ZL = (1.0, 2.0), (-0.7, 0.7)


def funcs(lobes, sign):
    """psi, grad, hess of the analytic family.  A lobe is [amp, R0, Z0, w] (round Gaussian) or [amp, R0, Z0, wu, wv, theta_deg] (elliptical
    Gaussian with principal axes rotated by theta); ["quad", Rc, Zc, k] is sign*((R-Rc)^2 + k (Z-Zc)^2) and
    ["quadrot", Rc, Zc, a, b, theta_deg] is sign*(a u^2 + b v^2) in coordinates rotated by theta (a cubic spline reproduces both exactly)."""
    if lobes and lobes[0][0] == "quad":
        _, Rc, Zc, k = lobes[0]
        return ((lambda R, Z: sign * ((R - Rc) ** 2 + k * (Z - Zc) ** 2)),
                (lambda R, Z: (sign * 2 * (R - Rc), sign * 2 * k * (Z - Zc))),
                (lambda R, Z: (sign * 2.0, 0.0, sign * 2.0 * k)))
    if lobes and lobes[0][0] == "quadrot":
        _, Rc, Zc, a, b, th = lobes[0]
        c, sn = np.cos(np.radians(th)), np.sin(np.radians(th))
        hRR, hRZ, hZZ = 2 * (a * c * c + b * sn * sn), 2 * (a - b) * c * sn, 2 * (a * sn * sn + b * c * c)
        return ((lambda R, Z: sign * 0.5 * (hRR * (R - Rc) ** 2 + 2 * hRZ * (R - Rc) * (Z - Zc) + hZZ * (Z - Zc) ** 2)),
                (lambda R, Z: (sign * (hRR * (R - Rc) + hRZ * (Z - Zc)), sign * (hRZ * (R - Rc) + hZZ * (Z - Zc)))),
                (lambda R, Z: (sign * hRR, sign * hRZ, sign * hZZ)))

    def parts(lobe):
        if len(lobe) == 4:
            a, r, z, w = lobe
            return a, r, z, 1.0 / w ** 2, 0.0, 1.0 / w ** 2
        a, r, z, wu, wv, th = lobe
        c, sn = np.cos(np.radians(th)), np.sin(np.radians(th))
        # q = qRR dR^2 + 2 qRZ dR dZ + qZZ dZ^2
        return a, r, z, c * c / wu ** 2 + sn * sn / wv ** 2, c * sn / wu ** 2 - c * sn / wv ** 2, sn * sn / wu ** 2 + c * c / wv ** 2

    P = [parts(lb) for lb in lobes]

    def psi(R, Z):
        return sign * sum(a * np.exp(-(qrr * (R - r) ** 2 + 2 * qrz * (R - r) * (Z - z) + qzz * (Z - z) ** 2)) for a, r, z, qrr, qrz, qzz in P)

    def grad(R, Z):
        gR = gZ = 0.0
        for a, r, z, qrr, qrz, qzz in P:
            e = a * np.exp(-(qrr * (R - r) ** 2 + 2 * qrz * (R - r) * (Z - z) + qzz * (Z - z) ** 2))
            gR = gR - e * (2 * qrr * (R - r) + 2 * qrz * (Z - z))
            gZ = gZ - e * (2 * qrz * (R - r) + 2 * qzz * (Z - z))
        return sign * gR, sign * gZ

    def hess(R, Z):
        hRR = hZZ = hRZ = 0.0
        for a, r, z, qrr, qrz, qzz in P:
            e = a * np.exp(-(qrr * (R - r) ** 2 + 2 * qrz * (R - r) * (Z - z) + qzz * (Z - z) ** 2))
            dR, dZ = 2 * qrr * (R - r) + 2 * qrz * (Z - z), 2 * qrz * (R - r) + 2 * qzz * (Z - z)
            hRR += e * (dR * dR - 2 * qrr)
            hZZ += e * (dZ * dZ - 2 * qzz)
            hRZ += e * (dR * dZ - 2 * qrz)
        return sign * hRR, sign * hRZ, sign * hZZ

    return psi, grad, hess


def truth_points(lobes, sign):
    """all critical points of the analytic psi inside the domain: multi-start Newton on the analytic gradient"""
    psi, grad, hess = funcs(lobes, sign)
    pts = []
    for R0 in np.linspace(RL[0], RL[1], 41):
        for Z0 in np.linspace(ZL[0], ZL[1], 57):
            R, Z = R0, Z0
            ok = False
            for _ in range(60):
                gR, gZ = grad(R, Z)
                a, b, c = hess(R, Z)
                det = a * c - b * b
                if abs(det) < 1e-14:
                    break
                dR, dZ = (c * gR - b * gZ) / det, (-b * gR + a * gZ) / det
                step = np.hypot(dR, dZ)
                if step > 0.05:
                    dR, dZ = dR * 0.05 / step, dZ * 0.05 / step
                R, Z = R - dR, Z - dZ
                if not (RL[0] - 0.2 < R < RL[1] + 0.2 and ZL[0] - 0.2 < Z < ZL[1] + 0.2):
                    break
                if step < 1e-13:
                    ok = True
                    break
            if ok and RL[0] <= R <= RL[1] and ZL[0] <= Z <= ZL[1] and not any(np.hypot(R - p[0], Z - p[1]) < 1e-6 for p in pts):
                a, b, c = hess(R, Z)
                pts.append((R, Z, float(psi(R, Z)), "X" if a * c - b * b < 0 else "O", float(a * c - b * b)))
    return pts


def legs_open(psi, grad, x, poly, axis):
    """do the separatrix branches leaving the X-point reach the wall?  Traced on the analytic psi with an independent integrator:
    the two branches on the side away from the magnetic axis are the legs; the X-point is `open' when both leave the wall polygon"""
    from scipy.integrate import solve_ivp

    ang = np.linspace(0.0, 2 * np.pi, 1441)
    rad = 0.01
    rv, zv = x[0] + rad * np.cos(ang), x[1] + rad * np.sin(ang)
    d = psi(rv, zv) - x[2]
    idx = np.nonzero(d[1:] * d[:-1] < 0)[0]
    if len(idx) != 4:
        return None
    # the legs are the two branches on the side of the X-point away from the magnetic axis
    th0 = np.arctan2(x[1] - axis[1], x[0] - axis[0])
    idx = [i for i in idx if abs((ang[i] - th0 + np.pi) % (2 * np.pi) - np.pi) < np.pi / 2]
    if len(idx) != 2:
        return None
    exits = 0
    for i in idx:
        t = d[i] / (d[i] - d[i + 1])
        p0 = np.array([rv[i] + t * (rv[i + 1] - rv[i]), zv[i] + t * (zv[i + 1] - zv[i])])
        gR, gZ = grad(p0[0], p0[1])
        tan = np.array([gZ, -gR]) / np.hypot(gR, gZ)
        sg = 1.0 if tan @ (p0 - np.array(x[:2])) > 0 else -1.0

        def rhs(s, y):
            a, b = grad(y[0], y[1])
            n = np.hypot(a, b)
            return [sg * b / n, -sg * a / n]

        def left(s, y):
            return 1.0 if bool(O.poly_inside(poly, y[0], y[1])) else -1.0

        def back(s, y):
            return np.hypot(y[0] - x[0], y[1] - x[1]) - 0.5 * rad if s > 0.05 else 1.0

        left.terminal = True
        back.terminal = True
        sol = solve_ivp(rhs, (0.0, 30.0), p0, events=[left, back], rtol=1e-8, atol=1e-10, max_step=0.02)
        if sol.status == 1 and len(sol.t_events[0]) > 0:
            exits += 1
    return exits == 2


def mono_metric(psi, o, x):
    rl, zl = np.linspace(o[0], x[0], 50), np.linspace(o[1], x[1], 50)
    pl = psi(rl, zl)
    if x[2] < o[2]:
        pl = -pl
    maxp = np.max(pl)
    drop = (maxp - pl[-1]) / (maxp - pl[0])
    ind = int(np.argmin(pl))
    far = (rl[ind] - o[0]) ** 2 + (zl[ind] - o[1]) ** 2
    return float(drop), float(far)


def run(c):
    from hypnotoad.utils import critical
    from hypnotoad.cases import tokamak
    from harness import equilibria as E

    sign = c["sign"]
    nR, nZ = c["nR"], c["nZ"]
    # "zoff": the whole configuration - domain, wall and flux function - displaced in Z (nothing in the property refers to Z = 0)
    global ZL
    zoff = float(c.get("zoff", 0.0))
    ZL = (-0.7 + zoff, 0.7 + zoff)
    if zoff:
        c = dict(c, lobes=[[lb[0], lb[1], lb[2] + zoff] + list(lb[3:]) for lb in c["lobes"]])
    r1, z1 = np.linspace(*RL, nR), np.linspace(*ZL, nZ)
    if c["lobes"] and c["lobes"][0][0] == "quadnode":
        # position given as (node index, fraction of the cell) so that half-cell positions are exactly equidistant from two nodes
        _, iR, fr, jZ, fz, k = c["lobes"][0]
        c = dict(c, lobes=[["quad", float(r1[iR] + fr * (r1[iR + 1] - r1[iR])), float(z1[jZ] + fz * (z1[jZ + 1] - z1[jZ])), k]])
    if c["lobes"] and c["lobes"][0][0] == "quadrotnode":
        _, iR, fr, jZ, fz, a, b, th = c["lobes"][0]
        c = dict(c, lobes=[["quadrot", float(r1[iR] + fr * (r1[iR + 1] - r1[iR])), float(z1[jZ] + fz * (z1[jZ + 1] - z1[jZ])), a, b, th]])
    psi, grad, hess = funcs(c["lobes"], sign)
    R2, Z2 = np.meshgrid(r1, z1, indexing="ij")
    psi2 = psi(R2, Z2)
    hR, hZ = r1[1] - r1[0], z1[1] - z1[0]
    rec = {"id": c["id"], "skip": "", "tie": 0}
    pts = truth_points(c["lobes"], sign)
    # the searched interior: grid indices 2 .. n-3; points within 1.5 cells of its border (or of the domain edge) are ambiguous
    lo = (r1[2], z1[2])
    hi = (r1[-3], z1[-3])

    def where(p):
        inside = lo[0] + 1.5 * hR < p[0] < hi[0] - 1.5 * hR and lo[1] + 1.5 * hZ < p[1] < hi[1] - 1.5 * hZ
        outside = p[0] < lo[0] - 1.5 * hR or p[0] > hi[0] + 1.5 * hR or p[1] < lo[1] - 1.5 * hZ or p[1] > hi[1] + 1.5 * hZ
        return "in" if inside else "out" if outside else "edge"

    inpts = [p for p in pts if where(p) == "in"]
    edgepts = [p for p in pts if where(p) == "edge"]
    # well separated, non-degenerate (the property's premise): at least 4 cells apart, Hessian determinant not tiny
    for a in pts:
        for b in pts:
            if a is not b and abs(a[0] - b[0]) < 4 * hR and abs(a[1] - b[1]) < 4 * hZ:
                rec["skip"] = "critical points closer than 4 cells"
    if any(abs(p[4]) < 1.0 for p in inpts):
        rec["skip"] = "nearly degenerate critical point"
    Rmid, Zmid = 0.5 * (r1[0] + r1[-1]), 0.5 * (z1[0] + z1[-1])
    tos = sorted([p for p in inpts if p[3] == "O"], key=lambda p: (p[0] - Rmid) ** 2 + (p[1] - Zmid) ** 2)
    rec["notok"] = 1 if c.get("notok") else 0
    if not tos and not c.get("notok"):
        rec["skip"] = "no O-point in the searched interior"
        return rec
    if len(tos) > 1 and abs(np.hypot(tos[0][0] - Rmid, tos[0][1] - Zmid) - np.hypot(tos[1][0] - Rmid, tos[1][1] - Zmid)) < 2 * max(hR, hZ):
        rec["skip"] = "two O-points equally near the centre"
    axis = tos[0] if tos else (Rmid, Zmid, 0.0)
    txs = sorted([p for p in inpts if p[3] == "X"], key=lambda p: abs(p[2] - axis[2]))
    for a, b in zip(txs[:-1], txs[1:]):
        if abs(abs(a[2] - axis[2]) - abs(b[2] - axis[2])) < 1e-4 * abs(axis[2]):
            rec["tie"] = 1         # two X-points at (nearly) the same psi: their order (and which is primary) is undetermined
    psirange = max(abs(p[2]) for p in pts) if pts else 1.0
    if psirange == 0.0:
        psirange = float(np.max(np.abs(psi2)))
    qpsi = 1e-7 * psirange
    wall = [(float(p[0]), float(p[1]) + zoff) for p in E.default_wall(inset=c.get("wall_inset", 0.2))]
    poly = np.array(wall)
    # psi_bdry is the psi of the first X-point the code can see: the nearest in psi among those that pass the monotonicity test
    vis = [p for p in txs if (lambda m: m[0] <= 0.001 and m[1] <= 1e-4)(mono_metric(psi, axis, p))] if tos else txs
    psi_bdry = vis[0][2] if vis else (txs[0][2] if txs else None)
    tx_recs = []
    for p in txs:
        if c.get("notok"):
            # (find_critical only) - with an axis in the domain the visibility rule applies as in the full cases
            m1 = 1
            if tos:
                drop, far = mono_metric(psi, axis, p)
                if 0.0003 < drop < 0.003 or 0.5e-4 < far < 2e-4:
                    rec["skip"] = "monotonicity test at its threshold"
                m1 = 1 if (drop <= 0.001 and far <= 1e-4) else 0
            tx_recs.append({"open": 1, "R": int(round(p[0] / 1e-6)), "Z": int(round(p[1] / 1e-6)), "psi": int(round(p[2] / qpsi)), "mono": m1, "inwall": 1, "insol": 1,
                            "below": 1, "psinorm": 1.0})
            continue
        drop, far = mono_metric(psi, axis, p)
        if 0.0003 < drop < 0.003 or 0.5e-4 < far < 2e-4:
            rec["skip"] = "monotonicity test at its threshold"
        mono = 1 if (drop <= 0.001 and far <= 1e-4) else 0
        dw = float(O.poly_distance(poly, p[0], p[1]))
        if dw < 5e-3:
            rec["skip"] = "X-point on the wall"
        pn = (p[2] - axis[2]) / (psi_bdry - axis[2])
        if abs(pn - c["psinorm_sol"]) < 2e-3:
            rec["skip"] = "X-point at psinorm_sol"
        op = legs_open(psi, grad, p, poly, axis) if bool(O.poly_inside(poly, p[0], p[1])) else True
        if op is None:
            rec["skip"] = "separatrix branches at the X-point not resolved"
            op = True
        tx_recs.append({"open": int(op), "R": int(round(p[0] / 1e-6)), "Z": int(round(p[1] / 1e-6)), "psi": int(round(p[2] / qpsi)), "mono": mono,
                        "inwall": int(bool(O.poly_inside(poly, p[0], p[1]))), "insol": int(pn < c["psinorm_sol"]), "below": int(p[1] < axis[1]),
                        "psinorm": round(float(pn), 5)})
    rec["truth_x"] = tx_recs
    rec["truth_o"] = [{"R": int(round(p[0] / 1e-6)), "Z": int(round(p[1] / 1e-6)), "psi": int(round(p[2] / qpsi))} for p in tos]
    rec["postol"] = int(round(max(hR, hZ) / 20 / 1e-6)) + 2
    rec["psitol"] = 200000 if max(nR, nZ) < 60 else 20000          # 2e-2 / 2e-3 of the psi range on the coarsest grids (spline of a Gaussian)
    # (b) find_critical
    atol, maxits = 1e-12, 100
    with contextlib.redirect_stdout(io.StringIO()):
        fo, fx = critical.find_critical(R2, Z2, psi2, atol, maxits)
    spl = interpolate.RectBivariateSpline(r1, z1, psi2)

    def frec(p):
        bp2 = (float(spl(p[0], p[1], dx=1, grid=False)) ** 2 + float(spl(p[0], p[1], dy=1, grid=False)) ** 2) / p[0] ** 2
        return {"R": int(round(p[0] / 1e-6)), "Z": int(round(p[1] / 1e-6)), "psi": int(np.clip(round(p[2] / qpsi), -2e9, 2e9)), "bp2ok": int(bp2 < atol * 1.01),
                "edge": int(any(np.hypot(p[0] - e[0], p[1] - e[1]) < 2 * max(hR, hZ) for e in edgepts) or where(p) != "in")}

    rec["found_o"] = [frec(p) for p in fo]
    rec["found_x"] = [frec(p) for p in fx]
    if c.get("notok"):
        rec["tok"] = {"outcome": "refused", "exc": "not run", "regions": [], "xkept": [], "primary_lower": 0, "legs": []}
        return rec
    # (c) TokamakEquilibrium
    opts = {}
    opts.update(E.size_options("LSN", [2, 2], [2, 4, 2], 1))
    opts.update(E.size_options("CDN" if c.get("nx_inter_sep", 0) == 0 else "LDN", [2, 2] if c.get("nx_inter_sep", 0) == 0 else [2, 1, 2], [2] * 6, 1))
    opts.update(E.size_options("USN", [2, 2], [2, 4, 2], 1))
    opts.update(psinorm_core=0.9, psinorm_sol=c["psinorm_sol"], psinorm_sol_inner=c["psinorm_sol"], psinorm_pf=0.95, nx_inter_sep=c.get("nx_inter_sep", 0))
    psi1d = np.linspace(axis[2], psi_bdry if psi_bdry is not None else axis[2] * 0.9, 33)
    tok = {"outcome": "refused", "exc": "", "regions": [], "xkept": [], "primary_lower": 0, "legs": []}
    try:
        with contextlib.redirect_stdout(io.StringIO()):
            eq = tokamak.TokamakEquilibrium(r1, z1, psi2, psi1d, [], wall=wall, settings=dict(opts), nonorthogonal_settings=dict(opts), make_regions=True)
        tok["outcome"] = "ok"
        tok["regions"] = list(eq.regions.keys())
        tok["xkept"] = [{"R": int(round(p.R / 1e-6)), "Z": int(round(p.Z / 1e-6))} for p in eq.x_points]
        tok["primary_lower"] = int(eq.x_points[0].Z < eq.o_point.Z)
        for ud in ("lower", "upper"):
            ni, no = "inner_%s_divertor" % ud, "outer_%s_divertor" % ud
            if ni in eq.regions and no in eq.regions:
                ri, ro = eq.regions[ni], eq.regions[no]
                si = ri[0] if ri.kind.startswith("wall") else ri[-1]
                so = ro[0] if ro.kind.startswith("wall") else ro[-1]
                xi = ri[-1] if ri.kind.startswith("wall") else ri[0]      # the leg's end at its X-point
                tok["legs"].append({"which": ud, "inner": int(round(si.R / 1e-6)), "outer": int(round(so.R / 1e-6)), "below": int(xi.Z < eq.o_point.Z)})
    except Exception as e:  # noqa
        tok["exc"] = "%s: %s" % (type(e).__name__, str(e)[:200])
    rec["tok"] = tok
    return rec


def main():
    warnings.simplefilter("ignore")
    with open(sys.argv[1]) as fh:
        cases = json.load(fh)
    out = []
    for c in cases:
        try:
            r = run(c)
        except Exception as e:  # noqa
            import traceback

            r = {"id": c["id"], "skip": "", "driver_error": "%s: %s" % (type(e).__name__, e), "tb": traceback.format_exc()[-1500:]}
        r["case"] = c
        out.append(r)
    with open(sys.argv[2], "w") as fh:
        json.dump(out, fh)


if __name__ == "__main__":
    main()
