"""Driver for Geqdsk.tla: real _geqdsk.write / read and tokamak.read_geqdsk on generated data sets.

usage: geqdsk_run.py <datasets.json> <out.json>
A value is [neg, [10 digits], eneg, e].  Output per data set: the written text (character codes per line),
the dictionaries read back from the text and from re-laid-out variants of it, and read_geqdsk's mapping.
"""
import io
import json
import re
import sys
import warnings

import numpy as np

from hypnotoad.geqdsk import _geqdsk
from hypnotoad.cases import tokamak

SCAL = ["rdim", "zdim", "rcentr", "rleft", "zmid", "rmagx", "zmagx", "simagx", "sibdry", "bcentr", "cpasma"]


def fl(v):
    neg, d, eneg, e = v
    s = "%s%d.%sE%s%02d" % ("-" if neg else "", d[0], "".join(map(str, d[1:])), "-" if eneg else "+", e)
    return float(s)


def dec(x):
    """float -> [neg, digits, eneg, e] with ten significant digits (a decimal rendering, independent of the code under test)"""
    x = float(x)
    if x == 0.0 or x != x:
        return [0, [0] * 10, 0, 0]
    s = "%.9E" % abs(x)
    m, e = s.split("E")
    ds = [int(c) for c in m.replace(".", "")]
    ei = int(e)
    return [1 if x < 0 else 0, ds, 1 if ei < 0 else 0, abs(ei)]


def build(d):
    data = {"nx": d["nx"], "ny": d["ny"]}
    for n in SCAL:
        data[n] = fl(d["sc"][n])
    for n in ("fpol", "pres", "qpsi"):
        data[n] = np.array([fl(v) for v in d[n]])
    if d["hasff"]:
        data["ffprime"] = np.array([fl(v) for v in d["ffprime"]])
    if d["haspp"]:
        data["pprime"] = np.array([fl(v) for v in d["pprime"]])
    data["psi"] = np.array([[fl(v) for v in row] for row in d["psi"]]).reshape(d["nx"], d["ny"])
    if d["bdry"]:
        data["rbdry"] = [fl(p[0]) for p in d["bdry"]]
        data["zbdry"] = [fl(p[1]) for p in d["bdry"]]
    if d["lim"]:
        data["rlim"] = [fl(p[0]) for p in d["lim"]]
        data["zlim"] = [fl(p[1]) for p in d["lim"]]
    return data


def project(r):
    out = {"nx": int(r["nx"]), "ny": int(r["ny"]), "sc": {n: dec(r[n]) for n in SCAL}}
    for n in ("fpol", "pres", "ffprime", "pprime", "qpsi"):
        out[n] = [dec(v) for v in r[n]]
    out["psi"] = [[dec(v) for v in row] for row in np.asarray(r["psi"])]
    out["bdry"] = [[dec(a), dec(b)] for a, b in zip(r.get("rbdry", []), r.get("zbdry", []))]
    out["lim"] = [[dec(a), dec(b)] for a, b in zip(r.get("rlim", []), r.get("zlim", []))]
    return out


FIELD = re.compile(r"([ -])(\d)\.(\d{9})E([+-])(\d\d)")


def relayout(text, layout):
    head, body = text.split("\n", 1)
    if layout == "f2s":
        return text
    if layout == "lowere":
        return head + "\n" + body.replace("E", "e")
    if layout == "plus":
        return head + "\n" + FIELD.sub(lambda m: ("+" if m.group(1) == " " else "-") + m.group(0)[1:], body)
    if layout == "blank2":
        return head + "\n" + FIELD.sub(lambda m: "  " + m.group(0), body)
    if layout == "leadzero":
        def lz(m):
            ex = int(m.group(4) + m.group(5))
            zero = m.group(2) == "0" and set(m.group(3)) == {"0"}
            e1 = ex + (0 if zero else 1)
            if abs(e1) > 99:
                return m.group(0)
            return "%s0.%s%sE%s%02d" % (m.group(1), m.group(2), m.group(3), "-" if e1 < 0 else "+", abs(e1))
        return head + "\n" + FIELD.sub(lz, body)
    if layout == "oneperline":
        return head + "\n" + FIELD.sub(lambda m: m.group(0) + "\n", body)
    raise ValueError(layout)


def micro(x):
    return int(round(float(x) * 1e6))


def mapping(text, d):
    """what read_geqdsk hands to TokamakEquilibrium.__init__"""
    cap = {}

    def rec(self, R1D, Z1D, psi2D, psi1D, fpol1D, **kw):
        cap.update(R=np.array(R1D), Z=np.array(Z1D), psi=np.array(psi2D), psi1D=np.array(psi1D), fpol=np.array(fpol1D), kw=kw)

    orig = tokamak.TokamakEquilibrium.__init__
    tokamak.TokamakEquilibrium.__init__ = rec
    try:
        tokamak.read_geqdsk(io.StringIO(text))
    finally:
        tokamak.TokamakEquilibrium.__init__ = orig
    if not cap:
        return {"ok": 0}
    u = {n: micro(fl(d["sc"][n])) for n in ("rleft", "rdim", "zmid", "zdim", "simagx", "sibdry")}
    want_psi = np.array([[fl(v) for v in row] for row in d["psi"]]).reshape(d["nx"], d["ny"])

    def uniform(a):
        return 1 if len(a) < 3 or np.allclose(np.diff(a), (a[-1] - a[0]) / (len(a) - 1), rtol=0, atol=1e-9 * max(1.0, abs(a[-1] - a[0]))) else 0

    wall = cap["kw"].get("wall") or []
    wl = [[dec(a), dec(b)] for a, b in wall]
    return {"ok": 1, "u": u, "nR": len(cap["R"]), "nZ": len(cap["Z"]), "npsi": len(cap["psi1D"]),
            "R0": micro(cap["R"][0]), "R1": micro(cap["R"][-1]), "Z0": micro(cap["Z"][0]), "Z1": micro(cap["Z"][-1]),
            "p0": micro(cap["psi1D"][0]), "p1": micro(cap["psi1D"][-1]),
            "uniform": min(uniform(cap["R"]), uniform(cap["Z"]), uniform(cap["psi1D"])),
            "psi_same": 1 if cap["psi"].shape == want_psi.shape and np.array_equal(np.array([[dec(v) for v in row] for row in cap["psi"]], dtype=object),
                                                                                     np.array([[dec(v) for v in row] for row in want_psi], dtype=object)) else 0,
            "wall_same": 1 if wl == [[dec(fl(p[0])), dec(fl(p[1]))] for p in d["lim"]] else 0, "nwall": len(wl)}


def main():
    warnings.simplefilter("ignore")
    import contextlib
    with open(sys.argv[1]) as fh:
        sets = json.load(fh)
    out = []
    for s in sets:
        d = s["d"]
        rec = {"id": s["id"], "d": d}
        buf = io.StringIO()
        with contextlib.redirect_stdout(io.StringIO()):
            _geqdsk.write(build(d), buf, label=s.get("label"), shot=s.get("shot"), time=s.get("time"))
        text = buf.getvalue()
        lines = text.split("\n")
        if lines and lines[-1] == "":
            lines = lines[:-1]
        rec["lines"] = [[ord(c) for c in ln] for ln in lines]
        reads = []
        for lay in s.get("layouts", ["f2s"]):
            try:
                with contextlib.redirect_stdout(io.StringIO()):
                    r = _geqdsk.read(io.StringIO(relayout(text, lay)))
                reads.append({"layout": lay, "ok": 1, "data": project(r)})
            except Exception as e:  # noqa
                reads.append({"layout": lay, "ok": 0, "data": project(build(d) | {"ffprime": np.zeros(d["nx"]), "pprime": np.zeros(d["nx"])}), "exc": "%s: %s" % (type(e).__name__, str(e)[:80])})
        rec["reads"] = reads
        try:
            with contextlib.redirect_stdout(io.StringIO()):
                rec["map"] = mapping(text, d) if s.get("map") else {"ok": 0}
        except Exception as e:  # noqa
            rec["map"] = {"ok": 0, "exc": str(e)[:100]}
        for k, v in (("u", {"rleft": 0, "rdim": 0, "zmid": 0, "zdim": 0, "simagx": 0, "sibdry": 0}), ("nR", 0), ("nZ", 0), ("npsi", 0), ("R0", 0), ("R1", 0),
                     ("Z0", 0), ("Z1", 0), ("p0", 0), ("p1", 0), ("uniform", 0), ("psi_same", 0), ("wall_same", 0), ("nwall", 0)):
            rec["map"].setdefault(k, v)
        out.append(rec)
    with open(sys.argv[2], "w") as fh:
        json.dump(out, fh)


if __name__ == "__main__":
    main()
