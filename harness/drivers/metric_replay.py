"""S->C for Metric.tla: every lattice point TLC enumerated is loaded into a stub
MeshRegion and the REAL MeshRegion.calcMetric is called; the 13 outputs are returned
as floats for comparison with TLC's exact rationals.

usage: metric_replay.py <points.json> <out.json>
points: list of {id, R, Bpa, Bt, hy, c, s, sigma} as floats; grouped here by (sigma, orthogonal).
"""
import json
import sys
import warnings

import numpy as np

from hypnotoad.core.mesh import MeshRegion
from hypnotoad.core.multilocationarray import MultiLocationArray

OUT = ["g11", "g22", "g33", "g12", "g13", "g23", "J", "g_11", "g_22", "g_33", "g_12", "g_13", "g_23"]


def mla(n, vals):
    a = MultiLocationArray(n, 1)
    v = np.asarray(vals, dtype=float)
    a.centre = v[:, None] * np.ones((n, 1))
    a.ylow = v[:, None] * np.ones((n, 2))
    vx = np.concatenate([v, v[-1:]])
    a.xlow = vx[:, None] * np.ones((n + 1, 1))
    a.corners = vx[:, None] * np.ones((n + 1, 2))
    return a


class FakeEqRegion:
    def __init__(self, n):
        self.xPointsAtStart = [None] * (n + 2)
        self.xPointsAtEnd = [None] * (n + 2)


def run_group(points, sigma, orthogonal):
    n = len(points)
    r = object.__new__(MeshRegion)
    r.user_options = MeshRegion.user_options_factory.create({"orthogonal": orthogonal})
    r.nx, r.ny = n, 1
    r.name = "stub"
    r.radialIndex = 0
    r.equilibriumRegion = FakeEqRegion(n)
    r.bpsign = float(sigma)
    g = lambda k: [p[k] for p in points]  # noqa: E731
    R, Bpa, Bt, hy = map(np.array, (g("R"), g("Bpa"), g("Bt"), g("hy")))
    r.Rxy = mla(n, R)
    r.Bpxy = mla(n, sigma * Bpa)
    r.Btxy = mla(n, Bt)
    r.hy = mla(n, hy)
    r.dphidy = r.hy * r.Btxy / (r.Bpxy * r.Rxy)      # as geometry2 defines it
    c, s = np.array(g("c")), np.array(g("s"))
    if not orthogonal:
        r.cosBeta = mla(n, c)
        r.sinBeta = mla(n, s)
        r.tanBeta = mla(n, s / c)
    r.DDX = lambda expr: MultiLocationArray(n, 1).zero()
    r.calc_curvature = lambda: None
    warnings.simplefilter("ignore")
    res = {"ok": True}
    try:
        r.calcMetric()
    except Exception as e:  # the run-time Jacobian guard may refuse
        return [{"id": p["id"], "orthogonal": orthogonal, "error": "%s: %s" % (type(e).__name__, str(e)[:200])} for p in points]
    out = []
    for i, p in enumerate(points):
        rec = {"id": p["id"], "orthogonal": orthogonal}
        for k in OUT:
            a = getattr(r, k)
            rec[k] = {"centre": float(a.centre[i, 0]), "ylow": float(a.ylow[i, 0]), "xlow": float(a.xlow[i, 0])}
        out.append(rec)
    return out


def main():
    with open(sys.argv[1]) as fh:
        pts = json.load(fh)
    out = []
    for sigma in (-1, 1):
        grp = [p for p in pts if p["sigma"] == sigma]
        if grp:
            out += run_group(grp, sigma, False)
        go = [p for p in grp if p["s"] == 0.0]
        if go:
            out += run_group(go, sigma, True)
    with open(sys.argv[2], "w") as fh:
        json.dump(out, fh)


if __name__ == "__main__":
    main()
