"""S->C driver for ParallelMap.tla: replays TLC behaviours through the real
ParallelMap.__init__/__call__/worker_run/__del__ with a fake `multiprocessing`
whose every queue operation is a yield point granted by a scheduler that follows
the behaviour.  After each step the projected implementation state is compared
with the specification state, and the set of operations the implementation
offers is compared with the set of actions the specification enables.

usage: pmap_sched.py <behaviours.json> <out.json>
"""
import json
import sys
import threading

import hypnotoad.utils.parallel_map as pmod

WAIT = 5.0


class Kill(BaseException):
    pass


class TaskError(Exception):
    def __init__(self, c, i):
        super().__init__("task %d of call %d failed" % (i, c))
        self.c = c
        self.i = i

    def __reduce__(self):
        return (TaskError, (self.c, self.i))


class Eq:
    psi = "psi"
    f_R = "f_R"
    f_Z = "f_Z"


class Sched:
    def __init__(self):
        self.cv = threading.Condition()
        self.pending = {}  # tid -> [op, queue, payload, granted(bool), result]
        self.finished = {}  # tid -> ("ret", value) | ("exc", exception)
        self.kill = False
        self.holding = {}  # worker tid -> (c, i) task taken
        self.nput = 0
        self.nget = 0
        self.serial_fail = None
        self.cur = threading.local()

    # called from controlled threads
    def yield_op(self, op, q, payload=None):
        tid = getattr(self.cur, "tid", None)
        if tid is None:
            # constructor / destructor context (driver thread): perform immediately
            return q._do(op, payload)
        with self.cv:
            ent = [op, q, payload, False, None]
            self.pending[tid] = ent
            self.cv.notify_all()
            while not ent[3]:
                if self.kill:
                    raise Kill()
                self.cv.wait(0.2)
            if ent[3] == "timeout":
                # the environment lets a timed wait on an empty queue time out (any timed get may, whenever the queue is empty)
                del self.pending[tid]
                self.cv.notify_all()
                import queue as _queue

                raise _queue.Empty()
            # perform the operation atomically under the scheduler lock
            r = q._do(op, payload) if q is not None else None
            if op == "tget":
                self.holding[tid] = r
            ent[4] = r
            del self.pending[tid]
            self.cv.notify_all()
            return r

    def thread_main(self, tid, fn, args):
        self.cur.tid = tid
        try:
            v = fn(*args)
            out = ("ret", v)
        except Kill:
            out = ("killed", None)
        except BaseException as e:  # noqa
            out = ("exc", e)
        with self.cv:
            self.finished[tid] = out
            self.pending.pop(tid, None)
            self.cv.notify_all()

    # called from the driver
    def settle(self, tid):
        """wait until tid is pending at a yield point or has finished"""
        with self.cv:
            ok = self.cv.wait_for(lambda: tid in self.pending or tid in self.finished, WAIT)
            return ok

    def fire_timeout(self, tid):
        """let the timed get `tid' is blocked in time out; returns after the thread is pending again or has finished"""
        with self.cv:
            ent = self.pending[tid]
            ent[3] = "timeout"
            self.cv.notify_all()
            ok = self.cv.wait_for(lambda: self.pending.get(tid) is not ent, WAIT)
            if not ok:
                return False
        return self.settle(tid)

    def grant(self, tid):
        with self.cv:
            ent = self.pending[tid]
            ent[3] = True
            self.cv.notify_all()
            ok = self.cv.wait_for(lambda: self.pending.get(tid) is not ent, WAIT)
            if not ok:
                return False
        return self.settle(tid)


class FakeQueue:
    def __init__(self, sched, name):
        self.s = sched
        self.name = name
        self.items = []
        self.timed = False

    def _do(self, op, payload):
        if op in ("tput", "rput"):
            self.items.append(payload)
            return None
        if op in ("tget", "rget"):
            return self.items.pop(0)
        if op in ("tempty", "rempty"):
            return not self.items
        raise AssertionError(op)

    def put(self, x, *a, **k):
        return self.s.yield_op(self.name + "put", self, x)

    def get(self, *a, **k):
        block = a[0] if len(a) > 0 else k.get("block", True)
        timeout = a[1] if len(a) > 1 else k.get("timeout", None)
        self.timed = (not block) or (timeout is not None)
        return self.s.yield_op(self.name + "get", self)

    def empty(self):
        return self.s.yield_op(self.name + "empty", self)


class FakeProcess:
    def __init__(self, sched, target, args):
        self.s = sched
        self.target = target
        self.args = args
        self.tid = None
        self.thread = None

    def start(self):
        self.tid = self.s.next_worker
        self.s.next_worker += 1
        self.thread = threading.Thread(target=self.s.thread_main, args=(self.tid, self.target, self.args), daemon=True)
        self.thread.start()

    def terminate(self):
        self.s.terminated.add(self.tid)

    def join(self, timeout=None):
        pass

    def is_alive(self):
        return self.thread is not None and self.thread.is_alive()


class FakeMP:
    def __init__(self, sched):
        self.s = sched
        self.nq = 0

    def Queue(self, *a, **k):
        self.nq += 1
        q = FakeQueue(self.s, "t" if self.nq == 1 else "r")
        if self.nq == 1:
            self.s.taskQ = q
        else:
            self.s.resQ = q
        return q

    def Process(self, target=None, args=(), kwargs=None, **k):
        return FakeProcess(self.s, target, args)


def find_exc(o, depth=0):
    if isinstance(o, TaskError):
        return o
    if depth > 4:
        return None
    if isinstance(o, BaseException):
        for a in (getattr(o, "__cause__", None), getattr(o, "__context__", None)) + tuple(getattr(o, "args", ())):
            r = find_exc(a, depth + 1) if a is not None else None
            if r is not None:
                return r
    if isinstance(o, (tuple, list)):
        for x in o:
            r = find_exc(x, depth + 1)
            if r is not None:
                return r
    if isinstance(o, dict):
        for x in o.values():
            r = find_exc(x, depth + 1)
            if r is not None:
                return r
    if hasattr(o, "__dict__") and not isinstance(o, type):
        for x in vars(o).values():
            r = find_exc(x, depth + 1)
            if r is not None:
                return r
    if isinstance(o, (bytes, str)) and depth < 3:
        # a pickled/dilled exception or a formatted message
        try:
            import dill

            if isinstance(o, bytes):
                return find_exc(dill.loads(o), depth + 1)
        except Exception:
            pass
    return None


def make_task(sched, fail):
    def task(c, i, *, equilibrium, psi, f_R, f_Z):
        assert psi == "psi" and f_R == "f_R" and f_Z == "f_Z"
        if getattr(sched.cur, "tid", None) == "P" and sched.serial:
            sched.yield_op("serial", None, (c, i))
        if (i + 1) in fail[c - 1]:
            raise TaskError(c, i + 1)
        return ("val", c, i + 1)

    return task


def proj_msg_task(m):
    i, fn, args, kwargs = m
    return [args[0], i + 1]


def proj_msg_res(m):
    i, r = m
    if isinstance(r, tuple) and len(r) == 3 and r[0] == "val":
        return [r[1], i + 1, "ok" if r[2] == i + 1 else "wrongval"]
    e = find_exc(r)
    if e is not None:
        return [e.c, i + 1, "exc" if e.i == i + 1 else "wrongexc"]
    return [0, i + 1, "unknown:%r" % (r,)]


def run_behaviour(beh):
    cfg = beh["cfg"]
    nw, nts, fail = cfg["nw"], cfg["nts"], cfg["fail"]
    s = Sched()
    s.next_worker = 1
    s.terminated = set()
    s.serial = nw == 0
    s.taskQ = s.resQ = None
    pmod.multiprocessing = FakeMP(s)
    threading.excepthook = lambda a: None
    if nw == 1:
        # np == 1 is the serial fall-back in the code: the spec's nw = 0
        return {"skip": "nw=1 is serial in the code"}
    pm = pmod.ParallelMap(max(nw, 1), equilibrium=Eq())
    workers = list(range(1, nw + 1))
    for k in workers:
        if not s.settle(k):
            return {"ok": False, "step": -1, "why": "worker %d never reached task_queue.get()" % k}
    task = make_task(s, fail)
    call = 0
    outcome = {}
    ptid = None
    nput = nget = 0
    shut = False

    def project():
        st = {}
        st["taskQ"] = [proj_msg_task(m) for m in s.taskQ.items] if s.taskQ else []
        st["resQ"] = [proj_msg_res(m) for m in s.resQ.items] if s.resQ else []
        wst = {}
        for k in workers:
            if k in s.finished or k in s.terminated:
                wst[str(k)] = ["dead", 0, 0]
            elif k in s.pending:
                op = s.pending[k][0]
                if op == "tget":
                    wst[str(k)] = ["idle", 0, 0]
                elif op == "rput":
                    t = s.holding.get(k)
                    wst[str(k)] = ["run"] + (proj_msg_task(t) if t else [0, 0])
                else:
                    wst[str(k)] = ["?" + op, 0, 0]
            else:
                wst[str(k)] = ["running", 0, 0]
        st["w"] = wst
        if shut:
            st["pc"] = "shut"
        elif ptid is None:
            st["pc"] = "idle"
        elif ptid in s.finished:
            kind, v = s.finished[ptid]
            if kind == "ret":
                st["pc"] = "ret"
                st["res"] = [list(x) if isinstance(x, tuple) else repr(x) for x in v]
            else:
                e = find_exc(v)
                if e is not None:
                    st["pc"] = "raise"
                    st["raisedIdx"] = e.i
                    st["raisedCall"] = e.c
                elif isinstance(v, ValueError):
                    st["pc"] = "valerr"
                else:
                    st["pc"] = "otherexc:%r" % (v,)
        elif ptid in s.pending:
            op = s.pending[ptid][0]
            st["pc"] = {"tput": "put", "rget": "get", "tempty": "checkT", "rempty": "checkR", "serial": "serial"}.get(op, "?" + op)
        else:
            st["pc"] = "running"
        st["call"] = call
        st["nput"] = nput
        st["nget"] = nget
        return st

    def offered():
        off = set()
        for tid, ent in s.pending.items():
            op, q = ent[0], ent[1]
            if op in ("tget", "rget") and not q.items:
                continue
            off.add("%s:%s" % (tid, op))
        return sorted(off)

    ACT_OP = {
        "ParentPut": "tput", "ParentGet": "rget", "ParentCheckTask": "tempty", "ParentCheckRes": "rempty",
        "WorkerTake": "tget", "WorkerDone": "rput", "WorkerRaise": "rput", "SerialStep": "serial",
    }

    result = {"ok": True}
    ntimeouts = [0]
    try:
        for n, step in enumerate(beh["steps"]):
            act, k = step["action"], step.get("k", 0)
            if act == "CallStart":
                call += 1
                nput = nget = 0
                ptid = "P"
                s.finished.pop("P", None)
                args_list = [(call, i) for i in range(nts[call - 1])]
                th = threading.Thread(target=s.thread_main, args=("P", pm, (task, args_list)), daemon=True)
                th.start()
                if not s.settle("P"):
                    return {"ok": False, "step": n, "why": "parent neither blocked nor finished after CallStart"}
            elif act in ("ParentReturn", "ParentRaise"):
                kind, v = s.finished.get("P", (None, None))
                if kind is None:
                    return {"ok": False, "step": n, "action": act, "why": "call has not ended in the implementation", "impl": project()}
                outcome[call] = kind
                ptid = None
            elif act == "Shutdown":
                pm.__del__()
                pm.workers = None
                shut = True
            elif act == "Terminated":
                pass
            else:
                tid = "P" if act.startswith("Parent") or act == "SerialStep" else k
                op = ACT_OP[act]
                if tid not in s.pending or s.pending[tid][0] != op:
                    return {"ok": False, "step": n, "action": act, "k": k,
                            "why": "implementation does not offer %s by %s" % (op, tid), "impl": project(), "offered": offered()}
                if op in ("tget", "rget") and not s.pending[tid][1].items:
                    return {"ok": False, "step": n, "action": act, "why": "queue empty in implementation", "impl": project()}
                if not s.grant(tid):
                    return {"ok": False, "step": n, "action": act, "k": k, "why": "thread did not reach next yield point", "impl": project()}
                if act == "ParentPut":
                    nput += 1
                if act == "ParentGet":
                    nget += 1
            # compare
            got = project()
            exp = step["state"]
            diffs = {}
            for key in ("taskQ", "resQ", "w", "pc", "call"):
                if got[key] != exp[key]:
                    diffs[key] = {"impl": got[key], "spec": exp[key]}
            if got["pc"] in ("put", "get", "checkT", "checkR"):
                for key in ("nput", "nget"):
                    if key == "nget" and got["pc"] in ("put", "serial"):
                        continue
                    if got[key] != exp[key]:
                        diffs[key] = {"impl": got[key], "spec": exp[key]}
            if exp["pc"] == "ret" and got["pc"] == "ret":
                want = [["val", call, i + 1] for i in range(nts[call - 1])]
                if got["res"] != want:
                    diffs["res"] = {"impl": got["res"], "spec": want}
            if exp["pc"] == "raise" and got["pc"] == "raise":
                if got["raisedIdx"] != exp["raisedIdx"] or got["raisedCall"] != call:
                    diffs["raisedIdx"] = {"impl": [got["raisedCall"], got["raisedIdx"]], "spec": [call, exp["raisedIdx"]]}
            if not diffs and "enabled" in step:
                off = offered()
                if off != step["enabled"]:
                    diffs["enabled"] = {"impl": off, "spec": step["enabled"]}
            if diffs:
                return {"ok": False, "step": n, "action": act, "k": k, "why": "state mismatch", "diffs": diffs}
            # a polling implementation (get with a timeout / non-blocking get) must be indistinguishable from a blocking one: whenever the
            # parent waits in a timed get on an empty result queue the environment lets the wait time out (twice), and the projected
            # state must still be the specification's (stuttering)
            for _ in range(2):
                if "P" in s.pending and s.pending["P"][0] == "rget" and s.resQ is not None and s.resQ.timed and not s.resQ.items:
                    ntimeouts[0] += 1
                    if not s.fire_timeout("P"):
                        return {"ok": False, "step": n, "action": "Timeout", "why": "parent did not come back from a timed-out get", "impl": project()}
                    got2 = project()
                    d2 = {key: {"impl": got2[key], "spec": exp[key]} for key in ("taskQ", "resQ", "w", "pc", "call") if got2[key] != exp[key]}
                    if d2:
                        return {"ok": False, "step": n, "action": "Timeout", "k": 0, "why": "state mismatch after a timed-out get (polling is not stutter-invisible)", "diffs": d2}
        result["timeouts_fired"] = ntimeouts[0]
        return result
    finally:
        with s.cv:
            s.kill = True
            s.cv.notify_all()


def main():
    with open(sys.argv[1]) as fh:
        behs = json.load(fh)
    out = []
    for b in behs:
        r = run_behaviour(b)
        r["id"] = b.get("id")
        out.append(r)
    with open(sys.argv[2], "w") as fh:
        json.dump(out, fh)


if __name__ == "__main__":
    main()
