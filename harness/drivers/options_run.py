"""C->S driver for Options.tla: realises each perturbation class on the options of the real factories and
records whether the entry point accepted or rejected.

usage: options_run.py <chunk index> <n chunks> <out.json>
"""
import io
import json
import os
import sys
import tempfile
import warnings

import numpy as np

from harness import equilibria as E

warnings.simplefilter("ignore")
from hypnotoad.cases import tokamak  # noqa: E402
import hypnotoad.core.mesh as meshmod  # noqa: E402
from hypnotoad.core.mesh import BoutMesh  # noqa: E402


class Reached(Exception):
    pass


BASE = E.size_options("LSN", [2, 2], [3, 4, 3], 1)
BASE.update(psinorm_core=0.9, psinorm_sol=1.1, psinorm_pf=0.95)

EQF = tokamak.TokamakEquilibrium.user_options_factory.defaults
NOF = tokamak.TokamakEquilibrium.nonorthogonal_options_factory.defaults
MEF = BoutMesh.user_options_factory.defaults


def owners(opt):
    return (1 if (opt in EQF or opt in NOF) else 0, 1 if opt in MEF else 0)


def meta(opt):
    for f in (EQF, NOF, MEF):
        if opt in f:
            return f[opt]
    return None


def wrong_type_value(m):
    vt = m.value_type
    types = vt if isinstance(vt, (list, tuple)) else [vt]
    if vt is None:
        return None
    for cand in ("a string", 1.5, [1, 2], {"a": 1}, True):
        if not any(isinstance(cand, t) for t in types if t is not None):
            # bool is an int: avoid it where ints are allowed
            return cand
    return None


def bad_value(m):
    if m.allowed is not None:
        return "zzz_not_allowed" if all(isinstance(a, str) for a in m.allowed) else None
    checks = []
    for c in (m.check_all, m.check_any):
        if c is None:
            continue
        checks += list(c) if isinstance(c, (list, tuple)) else [c]
    names = {getattr(c, "__name__", "") for c in checks}
    vt = m.value_type
    types = vt if isinstance(vt, (list, tuple)) else [vt]
    if "is_positive" in names or "is_non_negative" in names:
        return -1 if int in types else -1.0
    return None


def try_eq(opts):
    try:
        E.make_tokamak("lsn", opts, make_regions=False)
        return "accept"
    except (TypeError, ValueError, KeyError):
        return "reject"


_eq = None


def try_mesh(opts):
    global _eq
    if _eq is None:
        _eq, _ = E.make_tokamak("lsn", BASE)
    orig = meshmod.MeshRegion.__init__
    origr = meshmod.EquilibriumRegion.getRegridded if hasattr(meshmod, "EquilibriumRegion") else None

    def stop(*a, **k):
        raise Reached()

    from hypnotoad.core.equilibrium import EquilibriumRegion
    origg = EquilibriumRegion.getRegridded
    EquilibriumRegion.getRegridded = stop
    meshmod.MeshRegion.__init__ = stop
    try:
        with E.quiet():
            BoutMesh(_eq, opts)
        return "accept"
    except Reached:
        return "accept"
    except (TypeError, ValueError, KeyError):
        return "reject"
    finally:
        meshmod.MeshRegion.__init__ = orig
        EquilibriumRegion.getRegridded = origg


_gfile = None


def try_script(opts):
    """hypnotoad-geqdsk with an options file; stops as soon as grid construction would start"""
    global _gfile
    import yaml
    from hypnotoad.scripts import hypnotoad_geqdsk
    from hypnotoad.geqdsk import _geqdsk

    d = tempfile.mkdtemp(prefix="optscript.", dir=os.environ.get("VERIF_SCRATCH"))
    if _gfile is None:
        r1d, z1d, psi2d, psi1d = E.tokamak_arrays("lsn", 65, 65)
        psin = np.linspace(0, 1, 65)
        data = {"nx": 65, "ny": 65, "rdim": 1.0, "zdim": 1.4, "rcentr": 1.5, "bcentr": 1.0, "rleft": 1.0, "zmid": 0.0, "rmagx": 1.5, "zmagx": 0.0,
                "simagx": float(psi2d.max()), "sibdry": 0.7358, "cpasma": 1e6, "fpol": 1 - 0.1 * psin, "pres": 1e3 * (1 - psin), "qpsi": 1 + psin, "psi": psi2d,
                "rlim": [p[0] for p in E.default_wall()], "zlim": [p[1] for p in E.default_wall()]}
        _gfile = os.path.join(tempfile.gettempdir() if not os.environ.get("VERIF_SCRATCH") else os.environ["VERIF_SCRATCH"], "opt_%d.geqdsk" % os.getpid())
        with open(_gfile, "w") as fh:
            _geqdsk.write(data, fh)
    yf = os.path.join(d, "o.yaml")
    with open(yf, "w") as fh:
        yaml.safe_dump(opts, fh)
    argv = sys.argv
    sys.argv = ["hypnotoad-geqdsk", _gfile, yf]
    orig = meshmod.MeshRegion.__init__

    def stop(*a, **k):
        raise Reached()

    from hypnotoad.core.equilibrium import EquilibriumRegion
    origg = EquilibriumRegion.getRegridded
    EquilibriumRegion.getRegridded = stop
    meshmod.MeshRegion.__init__ = stop
    try:
        with E.quiet():
            hypnotoad_geqdsk.main()
        return "accept"
    except Reached:
        return "accept"
    except (TypeError, ValueError, KeyError):
        return "reject"
    except AttributeError as e:
        # read_geqdsk returns (object, exception) instead of raising when the equilibrium cannot be built
        return "reject" if "tuple" in str(e) else "error:%s" % e
    finally:
        sys.argv = argv
        meshmod.MeshRegion.__init__ = orig
        EquilibriumRegion.getRegridded = origg
        for f in os.listdir(d):
            os.remove(os.path.join(d, f))
        os.rmdir(d)


def main():
    k, n, outp = int(sys.argv[1]), int(sys.argv[2]), sys.argv[3]
    allopts = sorted(set(EQF) | set(NOF) | set(MEF))
    cases = []
    for opt in allopts:
        m = meta(opt)
        for cls, val in (("wrongtype", wrong_type_value(m)), ("badvalue", bad_value(m))):
            if val is None:
                continue
            for entry in ("eq", "mesh"):
                cases.append((entry, cls, opt, val))
    shared = sorted((set(EQF) | set(NOF)) & set(MEF))
    for opt in shared:
        m = meta(opt)
        v = BASE.get(opt, m.value)
        if isinstance(v, bool):
            cases.append(("mesh", "mismatch", opt, not v))
        elif isinstance(v, int):
            cases.append(("mesh", "mismatch", opt, v + 1))
        elif isinstance(v, float):
            cases.append(("mesh", "mismatch", opt, v * 1.5 + 0.125))
    for entry in ("eq", "mesh", "script"):
        cases.append((entry, "unknown", "no_such_option", 1))
        cases.append((entry, "unknown", "target_poloidal_spacing_length", 1.0))
        cases.append((entry, "valid", "nx_core", 2))
    for opt, cls, val in (("nx_core", "wrongtype", "two"), ("curvature_type", "badvalue", "zzz"), ("y_boundary_guards", "badvalue", -1), ("number_of_processors", "badvalue", 0),
                          ("finecontour_Nfine", "wrongtype", 1.5)):
        cases.append(("script", cls, opt, val))
    out = []
    for i, (entry, cls, opt, val) in enumerate(cases):
        if i % n != k:
            continue
        o = dict(BASE)
        o[opt] = val
        own = owners(opt)
        res = {"eq": try_eq, "mesh": try_mesh, "script": try_script}[entry](o)
        out.append({"id": i + 1, "entry": entry, "class": cls, "option": opt, "value": repr(val), "own_eq": own[0], "own_mesh": own[1], "outcome": res})
    with open(outp, "w") as fh:
        json.dump(out, fh)


if __name__ == "__main__":
    main()
