"""C->S driver for Spacing.tla (segments): the real makeRegions of every tokamak topology with variants of the radial
options; records the psi lists of every region and the requests made to getSmoothMonotonicGridFunc.
usage: segments_run.py <cases.json> <out.json>"""
import json
import sys
import warnings

import numpy as np

from harness import equilibria as E
from hypnotoad.core.equilibrium import Equilibrium

Q = 1e-6


def q(v):
    return int(round(float(v) / Q))


def main():
    warnings.simplefilter("ignore")
    with open(sys.argv[1]) as fh:
        cases = json.load(fh)
    out = []
    orig = Equilibrium.getSmoothMonotonicGridFunc
    for c in cases:
        calls = []

        def rec(self, n, lower, upper, *, grad_lower=None, grad_upper=None, _calls=calls):
            _calls.append((n, lower, upper, grad_lower, grad_upper))
            return orig(self, n, lower, upper, grad_lower=grad_lower, grad_upper=grad_upper)

        Equilibrium.getSmoothMonotonicGridFunc = rec
        r = {"id": c["id"], "kind": "segments", "topo": c["topo"], "ok": 0}
        try:
            opts = E.size_options(c["topo"], c["nx"], c["ny"], 1)
            opts.update(c["options"])
            eq, _ = E.make_tokamak(c.get("geometry") or E.TOPO_GEOM[c["topo"]], opts, psi_sign=c.get("psi_sign", 1.0))
            r["ok"] = 1
            uo = eq.user_options
            axis, bdry = eq.psi_axis, eq.psi_bdry
            r["axis"], r["bdry"] = q(axis), q(bdry)
            r["dir"] = 1 if bdry > axis else -1
            r["seps"] = [q(s) for s in eq.psi_sep]
            r["double_null"] = 1 if len(eq.x_points) == 2 else 0
            lim = {}
            for key, psiopt, normopt in (("core", "psi_core", "psinorm_core"), ("sol", "psi_sol", "psinorm_sol"), ("sol_inner", "psi_sol_inner", "psinorm_sol_inner"),
                                         ("pf_lower", "psi_pf_lower", "psinorm_pf_lower"), ("pf_upper", "psi_pf_upper", "psinorm_pf_upper")):
                given = getattr(uo, psiopt) is not None
                lim[key] = {"given": 1 if given else 0, "value": q(getattr(uo, psiopt)) if given else 0, "milli": int(round(getattr(uo, normopt) * 1000))}
            r["limits"] = lim
            regs = []
            for name, reg in eq.regions.items():
                pv = [list(map(float, s)) for s in reg.psi_vals]
                # a private-flux segment that is split in two for index bookkeeping (disconnected double null) has an interior boundary that is no separatrix
                split = [1 if (name.endswith("divertor") and len(pv) == 3 and s == 0 and not any(abs(pv[1][0] - x) < 1e-9 for x in eq.psi_sep)) else 0 for s in range(len(pv) - 1)]
                regs.append({"name": name, "psi": [[q(v) for v in s] for s in pv], # mismatch of the shared boundary in units of 1e-9 of the segment's psi range
                             "shared_dev": [int(min(round(abs(pv[s][-1] - pv[s + 1][0]) / (1e-9 * abs(pv[s][-1] - pv[s][0]))), 10 ** 9)) for s in range(len(pv) - 1)] or [0],
                             "split": split or [0]})
            r["regions"] = regs
            # gradients requested at separatrix ends (every call that passes a gradient)
            g = [x for cl in calls for x in (cl[3], cl[4]) if x is not None]
            r["grads"] = [int(round(x / abs(g[0]) * 1e9)) for x in g] if g else [0]
            r["ncalls"] = len(calls)
        except Exception as e:  # noqa
            r["exc"] = "%s: %s" % (type(e).__name__, str(e)[:200])
            r.update(axis=0, bdry=0, dir=1, seps=[0], double_null=0, limits={k: {"given": 0, "value": 0, "milli": 0} for k in ("core", "sol", "sol_inner", "pf_lower", "pf_upper")},
                     regions=[], grads=[0], ncalls=0)
        out.append(r)
    Equilibrium.getSmoothMonotonicGridFunc = orig
    with open(sys.argv[2], "w") as fh:
        json.dump(out, fh)


if __name__ == "__main__":
    main()
