"""Runs one shipped example / reference-settings file the way its README says, in a scratch directory.

usage: shipped_run.py <kind> <outdir>
kinds: example:<lsn|usn|cdn|ldn|udn|udn2>   examples/tokamak/tokamak_example.py <geometry> --no-plot
       geqdsk:<cdn|ldn>                      hypnotoad-geqdsk <file written from the analytic family> <repo>/geqdsk_<x>.yaml
       torpex:<coils|coils-nonorth>          hypnotoad-torpex examples/torpex-xpoint/torpex-<x>.yaml --noplot
Writes <outdir>/status.json: outcome in {file, exception}, tail of the output, list of variables of the grid file.
"""
import json
import os
import shutil
import subprocess
import sys
import time

REPO = os.environ.get("VERIF_REPO", "/repo")


def main():
    kind, outdir = sys.argv[1], os.path.abspath(sys.argv[2])
    os.makedirs(outdir, exist_ok=True)
    work = os.path.join(outdir, "work")
    shutil.rmtree(work, ignore_errors=True)
    os.makedirs(work)
    fam, which = kind.split(":")
    env = dict(os.environ)
    env["MPLBACKEND"] = "Agg"
    t0 = time.time()
    grid = None
    if fam == "example":
        for f in os.listdir(os.path.join(REPO, "examples/tokamak")):
            if f.endswith((".yaml", ".py")):
                shutil.copy(os.path.join(REPO, "examples/tokamak", f), work)
        cmd = [sys.executable, "-B", "tokamak_example.py", which, "--no-plot"]
        grid = os.path.join(work, "bout.grd.nc")
    elif fam == "geqdsk":
        sys.path.insert(0, os.path.dirname(os.path.dirname(os.path.dirname(os.path.abspath(__file__)))))
        import numpy as np
        from harness import equilibria as E
        from hypnotoad.geqdsk import _geqdsk

        geom = {"cdn": "cdn", "ldn": "ldn"}[which]
        r1d, z1d, psi2d, psi1d = E.tokamak_arrays(geom, 65, 65)
        # the reference settings (spacing lengths of 1 m) are meant for a full-size device: scale the analytic machine by 2.5
        S = 2.5
        r1d, z1d = r1d * S, z1d * S
        nx, ny = psi2d.shape
        f = E.psi_function(geom)
        axis = float(f(1.5, 0.0))
        # the profile grid of a geqdsk file runs from the axis to the boundary value
        from hypnotoad.utils import critical
        R2, Z2 = np.meshgrid(r1d, z1d, indexing="ij")
        op, xp = critical.find_critical(R2, Z2, psi2d, 1e-6, 1000)
        simagx, sibdry = op[0][2], xp[0][2]
        psin = np.linspace(0, 1, nx)
        wall = [(r * S, z * S) for r, z in E.default_wall()]
        data = {"nx": nx, "ny": ny, "rdim": 1.0 * S, "zdim": 1.4 * S, "rcentr": 1.5 * S, "bcentr": 1.0, "rleft": 1.0 * S, "zmid": 0.0,
                "rmagx": op[0][0], "zmagx": op[0][1], "simagx": simagx, "sibdry": sibdry, "cpasma": 1.0e6,
                "fpol": 1.0 - 0.1 * psin ** 2, "pres": 1000.0 * (1.0 - psin) ** 2, "qpsi": 1.0 + 2.0 * psin ** 2, "psi": psi2d,
                "rlim": [p[0] for p in wall], "zlim": [p[1] for p in wall]}
        gf = os.path.join(work, "analytic_%s.geqdsk" % which)
        with open(gf, "w") as fh:
            _geqdsk.write(data, fh)
        cmd = [sys.executable, "-B", "-c", "from hypnotoad.scripts.hypnotoad_geqdsk import main; main()", gf, os.path.join(REPO, "geqdsk_%s.yaml" % which)]
        grid = os.path.join(work, "bout.grd.nc")
    elif fam == "torpex":
        cmd = [sys.executable, "-B", "-c", "from hypnotoad.scripts.hypnotoad_torpex import main; main()",
               os.path.join(REPO, "examples/torpex-xpoint/torpex-%s.yaml" % which), "--noplot"]
        grid = os.path.join(work, "torpex.grd.nc")
    else:
        raise ValueError(kind)
    p = subprocess.run(cmd, cwd=work, env=env, capture_output=True, text=True)
    status = {"kind": kind, "rc": p.returncode, "wall_s": round(time.time() - t0, 1), "tail": (p.stdout[-1500:] + "\n" + p.stderr[-2500:])}
    ok = p.returncode == 0 and os.path.exists(grid)
    if ok:
        try:
            from netCDF4 import Dataset
            with Dataset(grid) as ds:
                status["variables"] = sorted(ds.variables.keys())
                status["nx"] = int(ds.variables["nx"][...])
        except Exception as e:
            ok = False
            status["tail"] += "\nreading grid failed: %s" % e
    status["outcome"] = "file" if ok else "exception"
    shutil.rmtree(work, ignore_errors=True)
    with open(os.path.join(outdir, "status.json"), "w") as fh:
        json.dump(status, fh)


if __name__ == "__main__":
    main()
