"""Generates one complete grid with the real code and records, besides the grid
file, the in-memory tables the projections need.

usage: gridrun.py <config.json> <outdir>
Writes <outdir>/status.json always; grid.nc, extra.json, regions.npz on success.
"""
import json
import os
import sys
import time
import traceback
import warnings

import numpy as np

from harness import equilibria as E


def fpol_func(kind):
    if kind is None:
        return None
    if kind == "const":
        return lambda psi: 1.0 + 0.0 * psi
    if kind == "quad":
        return lambda psi: 1.0 - 0.1 * psi**2
    if kind == "negquad":
        return lambda psi: -(1.0 - 0.1 * psi**2)
    if kind == "huge":              # finite, but B^2 overflows
        return lambda psi: 1.0e200 * (1.0 - 0.1 * np.asarray(psi) ** 2)
    if kind in ("nan", "inf"):      # one non-finite entry in an otherwise ordinary profile array (C12 envelope)
        bad = np.nan if kind == "nan" else np.inf
        return lambda psi: np.where(np.arange(np.size(psi)) == (10 if kind == "nan" else np.size(psi) - 1), bad, 1.0 - 0.1 * np.asarray(psi) ** 2)
    raise ValueError(kind)


def pressure_func(kind):
    if kind is None:
        return None
    if kind == "quad":
        return lambda psi: 1000.0 * (0.2 + psi**2)
    if kind == "nan":
        return lambda psi: np.where(np.arange(np.size(psi)) == 10, np.nan, 1000.0 * (0.2 + np.asarray(psi) ** 2))
    raise ValueError(kind)


def build_equilibrium(cfg):
    """-> (equilibrium, full option dict, input arrays or None)"""
    fam = cfg.get("family", "tokamak")
    opts = {}
    if cfg.get("topo") and cfg.get("nx"):
        opts.update(E.size_options(cfg["topo"], cfg["nx"], cfg["ny"], cfg.get("G", 0)))
    opts.update(cfg.get("options", {}))
    if fam == "circular":
        eq, full = E.make_circular(opts)
        return eq, full, None
    if fam == "tokamak":
        wall = E.default_wall(slanted=("many" if cfg.get("wall") == "many" else cfg.get("wall") == "slanted"), mirror=cfg.get("mirror", False))
        if cfg.get("wall") == "limiter":
            wall = E.limiter_wall()
        if cfg.get("wall") == "baffle":
            wall = E.baffle_wall()
        if cfg.get("wall_clockwise"):
            wall = wall[::-1]
        k = int(cfg.get("wall_start", 0))      # the polygon may start at any of its vertices ...
        wall = list(wall[k:]) + list(wall[:k])
        if cfg.get("wall_closed"):                 # ... and may or may not repeat the first point at the end
            wall = list(wall) + [wall[0]]
        if cfg.get("gfile"):
            eq, arrays = E.make_tokamak_gfile(cfg["geometry"], opts, fpol=fpol_func(cfg.get("fpol")), pressure=pressure_func(cfg.get("pressure")),
                                              wall=wall, mirror=cfg.get("mirror", False), psi_sign=cfg.get("psi_sign", 1.0),
                                              nR=cfg.get("nR", 65), nZ=cfg.get("nZ", 65), psi_scale=cfg.get("psi_scale", 1.0))
            return eq, opts, arrays
        eq, arrays = E.make_tokamak(cfg["geometry"], opts, fpol=fpol_func(cfg.get("fpol")), pressure=pressure_func(cfg.get("pressure")),
                                    wall=wall, mirror=cfg.get("mirror", False), psi_sign=cfg.get("psi_sign", 1.0),
                                    nR=cfg.get("nR", 65), nZ=cfg.get("nZ", 65), psi1d_rmax=cfg.get("psi1d_rmax"), psi_scale=cfg.get("psi_scale", 1.0))
        return eq, opts, arrays
    if fam == "torpex":
        # the isolated X-point of TORPEX: the shipped coil set (examples/torpex-xpoint), sizes and options from the configuration
        from hypnotoad.cases import torpex

        with E.quiet():
            eqo, mo = torpex.parseInput(os.path.join(os.environ.get("VERIF_REPO", "/repo"), "examples/torpex-xpoint/%s" % cfg.get("yaml", "torpex-coils.yaml")))
            for k in list(mo):
                if k.startswith(("nx_", "ny_")) or k == "y_boundary_guards":
                    del mo[k]
            mo.update(opts)
            eq = torpex.TORPEXMagneticField(eqo, mo)
            mo.update(eq.user_options)
            eq.makeRegions()
        return eq, mo, None
    raise ValueError("unknown family %r" % fam)


def mesh_tables(eq, mesh):
    names = list(eq.regions.keys())
    pos = {n: i + 1 for i, n in enumerate(names)}
    rec = {"order": names,
           "nseg": [eq.regions[n].nSegments for n in names],
           "kinds": [eq.regions[n].kind for n in names],
           "regnx": [list(map(int, eq.regions[n].nx)) for n in names],
           "regny": [int(eq.regions[n].ny_noguards) for n in names]}

    def cidx(v):
        return 0 if v is None else pos[v[0]]

    def cseg(v, s):
        return 1 if v is None or v[1] == s else 0

    rec["conn"] = [[cidx(eq.regions[n].connections[s]["upper"]) for s in range(eq.regions[n].nSegments)] for n in names]
    rec["connlow"] = [[cidx(eq.regions[n].connections[s]["lower"]) for s in range(eq.regions[n].nSegments)] for n in names]
    rec["segsame"] = [[min(cseg(eq.regions[n].connections[s]["upper"], s), cseg(eq.regions[n].connections[s]["lower"], s))
                       for s in range(eq.regions[n].nSegments)] for n in names]
    rec["ids"] = [[mesh.region_lookup[(n, s)] for s in range(eq.regions[n].nSegments)] for n in names]
    nreg = len(mesh.regions)
    rec["meshconn"] = [[-1 if mesh.connections[i][k] is None else mesh.connections[i][k] for k in ("inner", "outer", "lower", "upper")] for i in range(nreg)]
    rec["rects"] = []
    for i in range(nreg):
        sx, sy = mesh.region_indices[i]
        rec["rects"].append([int(sx.start), int(sx.stop), int(sy.start), int(sy.stop)])
    rec["xgroups"] = [[r.myID for r in g] for g in mesh.x_groups]
    rec["ygroups"] = [[r.myID for r in g] for g in mesh.y_groups]
    rec["meshnx"], rec["meshny"], rec["meshny_noguards"] = int(mesh.nx), int(mesh.ny), int(mesh.ny_noguards)
    return rec


def jsonable(o):
    if isinstance(o, dict):
        return {str(k): jsonable(v) for k, v in o.items()}
    if isinstance(o, (list, tuple)):
        return [jsonable(v) for v in o]
    if isinstance(o, (np.integer,)):
        return int(o)
    if isinstance(o, (np.floating,)):
        return float(o)
    if isinstance(o, np.ndarray):
        return o.tolist()
    if isinstance(o, (str, int, float, bool)) or o is None:
        return o
    return repr(o)


def main():
    with open(sys.argv[1]) as fh:
        cfg = json.load(fh)
    outdir = sys.argv[2]
    os.makedirs(outdir, exist_ok=True)
    status = {"name": cfg.get("name"), "outcome": "exception", "stage": "equilibrium"}
    t0 = time.time()
    warnings.simplefilter("ignore")
    try:
        from hypnotoad.core.mesh import BoutMesh

        eq, opts, arrays = build_equilibrium(cfg)
        status["stage"] = "mesh"
        with E.quiet():
            mesh = BoutMesh(eq, opts)
            status["stage"] = "geometry"
            mesh.geometry()
            status["stage"] = "write"
            fn = os.path.join(outdir, "grid.nc")
            if os.path.exists(fn):
                os.remove(fn)
            mesh.writeGridfile(fn)
        status["stage"] = "record"
        extra = {"tables": mesh_tables(eq, mesh), "options": jsonable(dict(opts))}
        extra["G"] = int(mesh.user_options.y_boundary_guards)
        extra["orthogonal"] = bool(mesh.user_options.orthogonal)
        extra["psi_sep"] = [float(p) for p in getattr(eq, "psi_sep", [])]
        extra["x_points"] = [[float(p.R), float(p.Z)] for p in getattr(eq, "x_points", [])]
        if hasattr(eq, "o_point"):
            extra["o_point"] = [float(eq.o_point.R), float(eq.o_point.Z)]
        for k in ("psi_axis", "psi_bdry", "psi_core", "psi_sol", "psi_sol_inner", "psi_pf_lower", "psi_pf_upper", "double_null_type"):
            if hasattr(eq, k):
                v = getattr(eq, k)
                extra[k] = v if isinstance(v, str) or v is None else float(v)
        if hasattr(eq, "closed_wallarray"):
            extra["wall"] = eq.closed_wallarray.tolist()
        extra["equser"] = jsonable(dict(eq.user_options))
        extra["eqnonorth"] = jsonable(dict(eq.nonorthogonal_options))
        extra["meshuser"] = jsonable(dict(mesh.user_options))
        regs = []
        arrs = {}
        for i, r in mesh.regions.items():
            er = r.equilibriumRegion
            regs.append({"id": int(i), "name": r.name, "eqname": er.name, "radialIndex": int(r.radialIndex), "nx": int(r.nx), "ny": int(r.ny),
                         "ny_noguards": int(r.ny_noguards), "kind": er.kind, "psi_vals": [float(v) for v in r.psi_vals],
                         "bpsign": float(r.bpsign), "sep_index": int(er.separatrix_radial_index),
                         "xpt_start": [p is not None for p in er.xPointsAtStart], "xpt_end": [p is not None for p in er.xPointsAtEnd],
                         "yGroupIndex": int(r.yGroupIndex),
                         "startInd": [int(c.startInd) for c in r.contours], "endInd": [int(c.endInd) for c in r.contours],
                         "contour_len": [len(c) for c in r.contours]})
            for nm in ("Rxy", "Zxy", "hy", "zShift", "poloidal_distance", "psixy", "Bpxy", "dphidy"):
                a = getattr(r, nm, None)
                if a is None:
                    continue
                for loc in ("centre", "xlow", "ylow", "corners"):
                    if getattr(a, "_%s_array" % loc, None) is not None:
                        arrs["r%d_%s_%s" % (i, nm, loc)] = np.array(getattr(a, loc))
            if not mesh.user_options.orthogonal:
                for nm in ("cosBeta", "tanBeta"):
                    a = getattr(r, nm, None)
                    if a is not None:
                        for loc in ("centre", "ylow", "xlow"):
                            if getattr(a, "_%s_array" % loc, None) is not None:
                                arrs["r%d_%s_%s" % (i, nm, loc)] = np.array(getattr(a, loc))
        extra["regions"] = regs
        np.savez(os.path.join(outdir, "regions.npz"), **arrs)
        with open(os.path.join(outdir, "extra.json"), "w") as fh:
            json.dump(extra, fh)
        status["outcome"] = "file"
        mesh.parallel_map = None
        for r in mesh.regions.values():
            r.parallel_map = None
        del mesh
    except BaseException as e:  # noqa
        status["exception"] = type(e).__name__
        status["message"] = str(e)[:500]
        status["traceback"] = traceback.format_exc()[-2500:]
    status["wall_s"] = round(time.time() - t0, 2)
    with open(os.path.join(outdir, "status.json"), "w") as fh:
        json.dump(status, fh)
    import gc

    gc.collect()


if __name__ == "__main__":
    main()
