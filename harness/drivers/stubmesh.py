"""C->S batch driver for Topology.tla: runs the REAL makeRegions(), Mesh.__init__,
Mesh.makeRegions grouping code, BoutMesh.__init__ and BoutMesh.writeGridfile for a
(topology, sizes, guards) configuration with the numerics of MeshRegion.__init__ and
EquilibriumRegion.getRegridded stubbed out, and records what the index code produced.

usage: stubmesh.py <configs.json> <out.json>
"""
import json
import os
import sys
import tempfile
import traceback

import numpy as np

from harness import equilibria as E

import hypnotoad.core.mesh as meshmod
from hypnotoad.core.mesh import BoutMesh, MeshRegion
from hypnotoad.core.multilocationarray import MultiLocationArray
from hypnotoad.core.equilibrium import EquilibriumRegion


def stub_init(self, meshParent, myID, equilibriumRegion, connections, radialIndex, settings, parallel_map):
    self.user_options = self.user_options_factory.create(settings)
    self.name = equilibriumRegion.name + "(" + str(radialIndex) + ")"
    self.meshParent = meshParent
    self.myID = myID
    self.equilibriumRegion = equilibriumRegion
    self.nx = equilibriumRegion.nx[radialIndex]
    self.ny = equilibriumRegion.ny(radialIndex)
    self.ny_noguards = equilibriumRegion.ny_noguards
    self.connections = connections
    self.radialIndex = radialIndex
    self.yGroupIndex = None


MeshRegion.__init__ = stub_init
EquilibriumRegion.getRegridded = lambda self, radialIndex, **kw: self

_eq_cache = {}


def build_eq(topo, opts):
    if topo in ("CORE", "LIM"):
        eq, full = E.make_circular(opts)
        return eq, full
    if topo == "XPT":
        # the isolated X-point of TORPEX: the shipped coil set, sizes from the configuration
        from hypnotoad.cases import torpex

        eqo, mo = torpex.parseInput(os.path.join(os.environ.get("VERIF_REPO", "/repo"), "examples/torpex-xpoint/torpex-coils.yaml"))
        for k in list(mo):
            if k.startswith(("nx_", "ny_")) or k == "y_boundary_guards":
                del mo[k]
        mo.update(opts)
        with E.quiet():
            eq = torpex.TORPEXMagneticField(eqo, mo)
            mo.update(eq.user_options)
            eq.makeRegions()
        return eq, mo
    geom = E.TOPO_GEOM[topo]
    o = dict(opts)
    o.setdefault("psinorm_core", 0.9)
    o.setdefault("psinorm_sol", 1.1)
    o.setdefault("psinorm_pf", 0.95)
    if topo.startswith(("LDN", "UDN")):
        o.setdefault("psinorm_sol_inner", 1.1)
    eq, _ = E.make_tokamak(geom, o)
    return eq, o


def observe(c):
    topo, nx, ny, G = c["topo"], c["nx"], c["ny"], c["G"]
    opts = E.size_options(topo, nx, ny, G)
    eq, full = build_eq(topo, opts)
    rec = {"id": c["id"], "topo": topo, "nx": nx, "ny": ny, "G": G}
    names = list(eq.regions.keys())
    rec["order"] = names
    rec["nseg"] = [eq.regions[n].nSegments for n in names]
    rec["kinds"] = [eq.regions[n].kind for n in names]
    rec["regnx"] = [list(eq.regions[n].nx) for n in names]
    rec["regny"] = [eq.regions[n].ny_noguards for n in names]
    pos = {n: i + 1 for i, n in enumerate(names)}

    def cidx(v):
        return 0 if v is None else pos[v[0]]

    def cseg(v, s):
        return 1 if v is None or v[1] == s else 0

    rec["conn"] = [[cidx(eq.regions[n].connections[s]["upper"]) for s in range(eq.regions[n].nSegments)] for n in names]
    rec["connlow"] = [[cidx(eq.regions[n].connections[s]["lower"]) for s in range(eq.regions[n].nSegments)] for n in names]
    rec["segsame"] = [[min(cseg(eq.regions[n].connections[s]["upper"], s), cseg(eq.regions[n].connections[s]["lower"], s))
                       for s in range(eq.regions[n].nSegments)] for n in names]
    with E.quiet():
        mesh = BoutMesh(eq, full)
    # numbering and mesh-level connections
    rec["ids"] = [[mesh.region_lookup[(n, s)] for s in range(eq.regions[n].nSegments)] for n in names]

    def mid(v):
        return -1 if v is None else v

    nreg = len(mesh.regions)
    rec["meshconn"] = [[mid(mesh.connections[i][k]) for k in ("inner", "outer", "lower", "upper")] for i in range(nreg)]
    rec["rects"] = []
    for i in range(nreg):
        sx, sy = mesh.region_indices[i]
        rec["rects"].append([int(sx.start), int(sx.stop), int(sy.start), int(sy.stop)])
    rec["xgroups"] = [[r.myID for r in g] for g in mesh.x_groups]
    rec["ygroups"] = [[r.myID for r in g] for g in mesh.y_groups]
    rec["meshnx"], rec["meshny"], rec["meshny_noguards"] = int(mesh.nx), int(mesh.ny), int(mesh.ny_noguards)
    # placeholders for the arrays writeGridfile reads; the index code is the real one
    for name in ("Rxy", "Zxy", "hy", "zShift"):
        setattr(mesh, name, MultiLocationArray(mesh.nx, mesh.ny).zero())
    mesh.dy = MultiLocationArray(mesh.nx, mesh.ny).zero()
    mesh.dy.centre[...] = mesh.dy_scalar
    mesh.ShiftAngle = MultiLocationArray(mesh.nx, 1)
    mesh.ShiftAngle.centre[...] = 1.0
    mesh.ShiftAngle.xlow[...] = 1.0
    for name in ("Rxy", "Zxy", "hy", "zShift", "dy"):
        getattr(mesh, name).attributes["bout_type"] = "Field2D"
    mesh.ShiftAngle.attributes["bout_type"] = "ArrayX"
    mesh.penalty_mask = np.zeros((mesh.nx, mesh.ny))
    d = tempfile.mkdtemp(prefix="stub.", dir=os.environ.get("VERIF_SCRATCH", None))
    fn = os.path.join(d, "g.nc")
    try:
        with E.quiet():
            mesh.writeGridfile(fn)
        from netCDF4 import Dataset

        with Dataset(fn) as ds:
            ints = {}
            for k in ("nx", "ny", "ixseps1", "ixseps2", "jyseps1_1", "jyseps2_1", "ny_inner", "jyseps1_2", "jyseps2_2", "y_boundary_guards"):
                ints[k] = int(ds.variables[k][...])
            rec["ints"] = ints
            dy = mesh.dy_scalar
            th = np.array(ds.variables["theta"][...])
            yc = np.array(ds.variables["y-coord"][...])
            thl = np.array(ds.variables["theta_ylow"][...])
            rec["fileshape"] = list(th.shape)
            rec["theta2"] = [int(round(v)) for v in (2 * th[0, :] / dy)]
            rec["ycoord2"] = [int(round(v)) for v in (2 * yc[0, :] / dy)]
            rec["thetalow2"] = [int(round(v)) for v in (2 * thl[0, :] / dy)]
            # residual of the rounding and x-independence, in 1e-6 of dy
            dev = max(np.max(np.abs(2 * th / dy - np.round(2 * th / dy))), np.max(np.abs(th - th[0:1, :])) / dy,
                      np.max(np.abs(2 * yc / dy - np.round(2 * yc / dy))))
            rec["thetadev"] = int(min(dev * 1e6, 10**9))
            rec["dy_core"] = int(round(2 * np.pi / dy))
    finally:
        try:
            os.remove(fn)
            os.rmdir(d)
        except OSError:
            pass
    if c.get("stencil"):
        rec["sten"] = stencil(mesh)
    mesh.parallel_map = None
    return rec


LOC_C = {"centre": 0, "xlow": 300, "ylow": 700, "corners": 1100}


def stencil(mesh):
    """REAL MeshRegion.DDX / DDY on an integer test field Val(id, loc, i, j) = 1009 id + 53 i^2 + 17 j^2 + 5 i j + c(loc), with dx = 2 and
    dy = 4 everywhere; returns result * dx (resp. * dy), which is an exact integer: the numerator StencilDefs.tla specifies"""
    for i, r in mesh.regions.items():
        tf = MultiLocationArray(r.nx, r.ny)
        dx = MultiLocationArray(r.nx, r.ny)
        dy = MultiLocationArray(r.nx, r.ny)
        for loc in LOC_C:
            a = getattr(tf, loc)
            ii, jj = np.meshgrid(np.arange(a.shape[0]), np.arange(a.shape[1]), indexing="ij")
            a[...] = 1009 * i + 53 * ii * ii + 17 * jj * jj + 5 * ii * jj + LOC_C[loc]
            getattr(dx, loc)[...] = 2.0
            getattr(dy, loc)[...] = 4.0
        r.tf, r.dx, r.dy = tf, dx, dy
    out = []
    for i in sorted(mesh.regions):
        r = mesh.regions[i]
        with warnings_off():
            ddx, ddy = r.DDX("#tf"), r.DDY("#tf")
        out.append({"id": i, "ddx": {loc: np.rint(getattr(ddx, loc) * 2.0).astype(int).tolist() for loc in LOC_C},
                    "ddy": {loc: np.rint(getattr(ddy, loc) * 4.0).astype(int).tolist() for loc in LOC_C},
                    "exact": int(all(np.all(np.abs(getattr(d, loc) * m - np.rint(getattr(d, loc) * m)) < 1e-9) for d, m in ((ddx, 2.0), (ddy, 4.0)) for loc in LOC_C))})
    return out


def warnings_off():
    import warnings

    cm = warnings.catch_warnings()
    return cm


def main():
    with open(sys.argv[1]) as fh:
        configs = json.load(fh)
    out = []
    for c in configs:
        try:
            out.append(observe(c))
        except Exception as e:
            out.append({"id": c["id"], "topo": c["topo"], "nx": c["nx"], "ny": c["ny"], "G": c["G"],
                        "error": "%s: %s" % (type(e).__name__, e), "tb": traceback.format_exc()[-1500:]})
    with open(sys.argv[2], "w") as fh:
        json.dump(out, fh)


if __name__ == "__main__":
    main()
