"""S->C driver for Contour.tla: runs the REAL MeshRegion.addPointAtWallToContours (with the real _find_intersection,
temporaryExtend, insert / replace, FineContour machinery and Equilibrium.wallIntersection) on a contour lying on a straight
flux surface of psi(R, Z) = R, crossed by a rectangular wall, for initial configurations enumerated by TLC.

usage: contour_wall.py <configs.json> <out.json>
config: {"id", "pts": [...], "sI", "eI", "lw", "uw", "wlo", "whi", "tlo", "thi", "radius"}   positions in units of U metres
        (tlo / thi > 0: the wall at that end is a plate of that thickness, the surface re-enters the vessel behind it)
out:    {"id", "raised": 0|1, "exc", "pts": [...] (quantised at 1/100 unit), "sI", "eI"}"""
import json
import sys
import warnings

import numpy as np

from hypnotoad.core.equilibrium import Equilibrium, PsiContour, Point2D
from hypnotoad.core.mesh import MeshRegion
from hypnotoad.utils.parallel_map import ParallelMap

R0 = 1.0
U = 1e-3


def psi(R, Z):
    return R + 0.0 * Z


def f_R(R, Z):
    return 1.0 + 0.0 * R


def f_Z(R, Z):
    return 0.0 * R


class EqStub(Equilibrium):
    """only what _find_intersection uses: the closed wall polygon (Equilibrium.wallIntersection is the real method) and psi"""

    def __init__(self, zlo, zhi, tlo=0.0, thi=0.0):
        # a rectangle; where the wall is a plate of thickness t (a baffle) the vessel continues behind it: the rectangle extends far beyond and a
        # notch of thickness t enters from the inboard side across the flux surface R = R0
        far = 50.0
        w = [(R0 - 0.5, -far if tlo > 0 else zlo), (R0 + 0.5, -far if tlo > 0 else zlo), (R0 + 0.5, far if thi > 0 else zhi), (R0 - 0.5, far if thi > 0 else zhi)]
        if thi > 0:
            w += [(R0 - 0.5, zhi + thi), (R0 + 0.25, zhi + thi), (R0 + 0.25, zhi), (R0 - 0.5, zhi)]
        if tlo > 0:
            w += [(R0 - 0.5, zlo), (R0 + 0.25, zlo), (R0 + 0.25, zlo - tlo), (R0 - 0.5, zlo - tlo)]
        self.wall = [Point2D(*p) for p in w]
        self.closed_wallarray = np.array(w + [w[0]])
        self.psi = psi
        self.f_R = f_R
        self.f_Z = f_Z


class _ER:
    pass


def run(cfg):
    lw, uw = bool(cfg["lw"]), bool(cfg["uw"])
    eq = EqStub(cfg["wlo"] * U if lw else -50.0, cfg["whi"] * U if uw else 50.0, cfg.get("tlo", 0) * U if lw else 0.0, cfg.get("thi", 0) * U if uw else 0.0)
    c = PsiContour(points=[Point2D(R0, p * U) for p in cfg["pts"]], psival=R0, settings={}, Rrange=(0.1, 3.0), Zrange=(-60.0, 60.0))
    c.startInd, c.endInd = cfg["sI"], cfg["eI"]
    c.extend_lower, c.extend_upper = cfg.get("extlo", 0), cfg.get("exthi", 0)
    mr = object.__new__(MeshRegion)
    mr.user_options = MeshRegion.user_options_factory.create({"wall_point_exclude_radius": cfg["radius"] * U})
    mr.connections = {"lower": None if lw else 1, "upper": None if uw else 1, "inner": None, "outer": None}
    mr.parallel_map = ParallelMap(1, equilibrium=eq)
    mr.contours = [c]
    er = _ER()
    er.psi = psi
    mr.equilibriumRegion = er
    mr.addPointAtWallToContours()
    c = mr.contours[0]
    return {"pts": [int(round(p.Z / U * 100)) for p in c], "dR": int(round(max(abs(p.R - R0) for p in c) / 1e-9)), "sI": int(c.startInd), "eI": int(c.endInd)}


def main():
    warnings.simplefilter("ignore")
    with open(sys.argv[1]) as fh:
        cfgs = json.load(fh)
    out = []
    import io
    import contextlib

    for cfg in cfgs:
        rec = {"id": cfg["id"], "raised": 0, "exc": "", "pts": [], "sI": 0, "eI": 0, "dR": 0}
        try:
            with contextlib.redirect_stdout(io.StringIO()):
                rec.update(run(cfg))
        except Exception as e:  # noqa
            rec["raised"] = 1
            rec["exc"] = "%s: %s" % (type(e).__name__, str(e)[:150])
        out.append(rec)
    with open(sys.argv[2], "w") as fh:
        json.dump(out, fh)


if __name__ == "__main__":
    main()
