"""C->S driver for Lattice.tla: calls the real geometric predicates on lattice inputs.

usage: lattice_run.py <cases.json> <out.json>
cases: list of {id, kind, ...}; output: the same records with the recorded result.
"""
import json
import math
import sys
import warnings

import numpy as np

from hypnotoad.core.equilibrium import Equilibrium, Point2D, find_intersections, closest_approach
from hypnotoad.utils import polygons

M = 1000000


def limbs(x):
    hi = math.floor(x * M)
    lo = int(round((x * M - hi) * M))
    return [int(hi), lo]


def pts(arr):
    return [limbs(float(r)) + limbs(float(z)) for r, z in arr]


def main():
    warnings.simplefilter("ignore")
    with open(sys.argv[1]) as fh:
        cases = json.load(fh)
    eq = object.__new__(Equilibrium)
    out = []
    for c in cases:
        k = c["kind"]
        try:
            if k == "find":
                arr = np.array(c["poly"], dtype=float)
                r = find_intersections(arr, Point2D(*map(float, c["s"])), Point2D(*map(float, c["e"])))
                c["rk"], c["pts"] = ("none", []) if r is None else ("points", pts(r))
            elif k == "wall":
                arr = np.array(c["poly"], dtype=float)
                eq.closed_wallarray = arr
                eq.closed_wall = [Point2D(*p) for p in arr]
                r = eq.wallIntersection(Point2D(*map(float, c["s"])), Point2D(*map(float, c["e"])))
                c["rk"], c["pts"] = ("none", []) if r is None else ("points", pts([(r.R, r.Z)]))
            elif k == "area":
                poly = [tuple(map(float, p)) for p in c["poly"]]
                c["area2"] = int(round(2 * polygons.area(poly)))
                c["clockwise"] = 1 if polygons.clockwise(poly) else 0
            elif k == "intersect":
                a, b = c["poly"], c["polyb"]
                r = polygons.intersect([float(p[0]) for p in a], [float(p[1]) for p in a], [float(p[0]) for p in b], [float(p[1]) for p in b])
                c["flag"] = 1 if r else 0
            elif k == "closest":
                d = closest_approach(list(map(float, c["p"])), list(map(float, c["s"])), list(map(float, c["e"])))
                c["d2q"] = int(round(float(d) ** 2 * M))
        except Exception as e:  # noqa
            c["rk"], c["pts"] = "exception", []
            c["exc"] = "%s: %s" % (type(e).__name__, str(e)[:100])
            if k == "area":
                c["area2"], c["clockwise"] = 999999, 0
            if k == "closest":
                c["d2q"] = -1
        for f, dflt in (("s", [0, 0]), ("e", [0, 0]), ("p", [0, 0]), ("poly", [[0, 0]]), ("polyb", [[0, 0]]), ("rk", "none"), ("pts", []), ("flag", 0), ("area2", 0), ("clockwise", 0), ("d2q", 0)):
            c.setdefault(f, dflt)
        out.append(c)
    with open(sys.argv[2], "w") as fh:
        json.dump(out, fh)


if __name__ == "__main__":
    main()
