"""C->S driver for Spacing.tla: the real getSmoothMonotonicGridFunc + make1dGrid on a lattice of cases.
usage: spacing_run.py <cases.json> <out.json>"""
import json
import sys
import warnings

import numpy as np

from hypnotoad.core.equilibrium import Equilibrium


def sweep(eq, c, n, lower, upper, D):
    """largest movement of any face between neighbouring end-gradient ratios, per unit of ln(ratio), over ratio = 1/4 .. 4 in steps of 1 %;
    form: which end gradients are given (lower, upper, both equal, both with the lower one fixed at half the uniform spacing)"""
    rec = dict(c)
    rec.update(ok=0, maxslope=0, at=0.0)
    step = 1.01
    r = 0.25
    prev = None
    worst, at = 0.0, 0.0
    try:
        while r <= 4.0:
            g0 = r * D / n
            kw = {"lower": dict(grad_lower=g0), "upper": dict(grad_upper=g0), "both": dict(grad_lower=g0, grad_upper=g0),
                  "bothfixed": dict(grad_lower=0.5 * D / n, grad_upper=g0)}[c["form"]]
            f = eq.getSmoothMonotonicGridFunc(n, lower, upper, **kw)
            vals = np.array([float(f(0.5 * k)) for k in range(2 * n + 1)])
            if prev is not None:
                sl = float(np.max(np.abs(vals - prev))) / (abs(D) * np.log(step))
                if sl > worst:
                    worst, at = sl, r
            prev = vals
            r *= step
        rec["ok"] = 1
        rec["maxslope"] = int(min(worst * 1000, 2e9))
        rec["at"] = round(at, 5)
    except Exception as e:  # noqa
        rec["exc"] = "%s: %s" % (type(e).__name__, str(e)[:120])
    return rec


def main():
    warnings.simplefilter("ignore")
    with open(sys.argv[1]) as fh:
        cases = json.load(fh)
    eq = object.__new__(Equilibrium)
    out = []
    for c in cases:
        n, dr = c["n"], c["dir"]
        lower = c.get("lower", 0.37)
        D = dr * c.get("span", 0.85)
        upper = lower + D

        def g(r):
            return None if r[1] == 0 else (r[0] / r[1]) * D / n

        if c.get("kind") == "sweep":
            out.append(sweep(eq, c, n, lower, upper, D))
            continue
        gl, gu = g(c["rl"]), g(c["ru"])
        rec = dict(c)
        rec.update(kind="func", ok=0, vals=[0], steps=[0], ends_exact=0, switch_jump=0, nested_dev=0,
                   grad={"lo": {"req": 0, "got": 0, "want": 0, "curv": 0}, "hi": {"req": 0, "got": 0, "want": 0, "curv": 0}})
        try:
            f = eq.getSmoothMonotonicGridFunc(n, lower, upper, grad_lower=gl, grad_upper=gu)
            vals = eq.make1dGrid(n, f)
            rec["ok"] = 1
            rec["vals"] = [int(round((v - lower) / abs(D) * 1e9)) for v in vals]
            # increments with their sign kept (a positive step smaller than the quantum of `vals' must not read as zero)
            st = np.diff(np.asarray(vals, float)) / abs(D) * 1e9
            rec["steps"] = [int(np.sign(x) * max(1, min(abs(round(x)), 2e9))) if x != 0 and np.isfinite(x) else 0 for x in st]
            tol = 4 * np.finfo(float).eps * max(abs(lower), abs(upper), abs(D))
            rec["ends_exact"] = 1 if abs(vals[0] - lower) <= tol and abs(vals[-1] - upper) <= tol else 0
            h = 2e-6 * n
            if gl is not None:
                got = (f(h) - f(0.0)) / h
                hc = 10 * h      # second-order one-sided second difference
                curv = (2 * f(0.0) - 5 * f(hc) + 4 * f(2 * hc) - f(3 * hc)) / hc ** 2
                rec["grad"]["lo"] = {"req": 1, "got": int(round(got / abs(gl) * 1e6)), "want": int(round(gl / abs(gl) * 1e6)), "curv": int(round(curv / (abs(D) / n ** 2) * 1e6))}
            if gu is not None:
                got = (f(float(n)) - f(n - h)) / h
                hc = 10 * h
                curv = (2 * f(float(n)) - 5 * f(n - hc) + 4 * f(n - 2 * hc) - f(n - 3 * hc)) / hc ** 2
                rec["grad"]["hi"] = {"req": 1, "got": int(round(got / abs(gu) * 1e6)), "want": int(round(gu / abs(gu) * 1e6)), "curv": int(round(curv / (abs(D) / n ** 2) * 1e6))}
            # nesting: n -> 2n with the same gradients per unit x (halved per index)
            f2 = eq.getSmoothMonotonicGridFunc(2 * n, lower, upper, grad_lower=None if gl is None else gl / 2, grad_upper=None if gu is None else gu / 2)
            rec["nested_dev"] = int(round(max(abs(f2(2.0 * i) - f(float(i))) for i in range(n + 1)) / abs(D) * 1e9))
            # continuity across the switch between the two analytic forms (the switch sits at ratio 1 + 1e-8)
            def at_switch(r):
                return r[1] != 0 and r[0] == r[1]
            mean_one = c["rl"][1] != 0 and c["ru"][1] != 0 and (c["rl"][0] * c["ru"][1] + c["ru"][0] * c["rl"][1]) == 2 * c["rl"][1] * c["ru"][1]
            if (at_switch(c["rl"]) and gu is None) or (at_switch(c["ru"]) and gl is None) or mean_one:
                res = []
                for eps in (0.5e-8, 1.5e-8):
                    fl = None if gl is None else gl * (1 + eps)
                    fu = None if gu is None else gu * (1 + eps)
                    fe = eq.getSmoothMonotonicGridFunc(n, lower, upper, grad_lower=fl, grad_upper=fu)
                    res.append([fe(x) for x in np.linspace(0, n, 4 * n + 1)])
                rec["switch_jump"] = int(round(float(np.max(np.abs(np.array(res[0]) - np.array(res[1])))) / abs(D) * 1e9))
        except Exception as e:  # noqa
            rec["exc"] = "%s: %s" % (type(e).__name__, str(e)[:120])
        out.append(rec)
    with open(sys.argv[2], "w") as fh:
        json.dump(out, fh)


if __name__ == "__main__":
    main()
