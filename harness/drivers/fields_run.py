"""C18 driver: observations of the REAL Equilibrium field functions (magneticFunctionsFromGrid, Bzeta .. dBdZ, DCT_2D, and through
TokamakEquilibrium) for Trace_Fields.tla.

usage: fields_run.py <cases.json> <out.json>
kinds of case
  exact : a polynomial psi with a given integer 2-jet at one point (plus cubic terms that vanish to second order there) and a
          quadratic fpol; the spline interpolant reproduces it, so every exposed function has an exact rational value
          which TLC computes from FieldOps.tla; the point is passed as scalar / array / MultiLocationArray
  nodes : max |psi(R_i, Z_j) - data_ij| over all input nodes
  fd    : at sample points, every exposed derivative against a central difference of the function it differentiates, div B,
          and every derived function against the evaluator (harness/fields_eval.py, itself compared with TLC) applied to the
          observed base derivatives
  agree : both methods against each other and against the analytic function, at two resolutions
  shape : the dispatch on the kinds of the two arguments
"""
import json
import os
import sys
import traceback
import warnings
from fractions import Fraction

import numpy as np

sys.path.insert(0, os.path.dirname(os.path.dirname(os.path.dirname(os.path.abspath(__file__)))))
from harness import equilibria, fields_eval  # noqa: E402

from hypnotoad.core.equilibrium import Equilibrium  # noqa: E402
from hypnotoad.core.multilocationarray import MultiLocationArray  # noqa: E402

CLIP = 2000000000
ALL = fields_eval.NAMES + fields_eval.FNAMES + ["dBdR", "dBdZ"]


def q(x, s):
    x = float(x)
    if not np.isfinite(x):
        return CLIP
    return int(max(-CLIP, min(CLIP, round(x * s))))


class Stub(Equilibrium):
    def __init__(self):  # no options, no regions: only the field functions are used
        pass


def stub(method, R, Z, psi, fpol, fpolprime):
    e = Stub()
    e.magneticFunctionsFromGrid(R, Z, psi, method)
    e.fpol = fpol
    e.fpolprime = fpolprime
    return e


# ---------------------------------------------------------------------------------------------------------------- exact
def exact_setup(c):
    pt = c["pt"]
    R0, Z0 = float(pt["R"]), float(c.get("Z0", 0.0))
    nR, nZ = c["nR"], c["nZ"]
    # the point is not a node
    R = np.linspace(R0 - 0.61, R0 + 0.83, nR)
    Z = np.linspace(Z0 - 0.93, Z0 + 0.71, nZ)
    c3 = c.get("cubic", [0.0, 0.0, 0.0, 0.0])

    def poly(Rg, Zg):
        x, y = Rg - R0, Zg - Z0
        return (pt["p"] + pt["pR"] * x + pt["pZ"] * y + 0.5 * pt["pRR"] * x * x + pt["pRZ"] * x * y + 0.5 * pt["pZZ"] * y * y
                + c3[0] * x**3 + c3[1] * x * x * y + c3[2] * x * y * y + c3[3] * y**3)

    f2 = c.get("fquad", 0.0)

    def fpol(p):
        return pt["F"] + pt["Fp"] * (p - pt["p"]) + f2 * (p - pt["p"]) ** 2

    def fpolprime(p):
        return pt["Fp"] + 2.0 * f2 * (p - pt["p"])

    return R0, Z0, R, Z, poly(R[:, None], Z[None, :]), fpol, fpolprime


def args_of(kind, R0, Z0, sel):
    """arguments of the given kind containing the point, and the function extracting the value at the point from the result"""
    if kind == "scalar":
        return (R0, Z0), lambda r: r
    if kind == "array":
        Ra = np.array([R0 + 0.11, R0, R0 - 0.07])
        Za = np.array([Z0 - 0.05, Z0, Z0 + 0.13])
        return (Ra, Za), lambda r: r[1]
    if kind == "array2d":
        Ra = np.array([[R0 + 0.11, R0 - 0.2, R0 - 0.07], [R0 + 0.3, R0, R0 - 0.17]])
        Za = np.array([[Z0 - 0.05, Z0 + 0.2, Z0 + 0.13], [Z0 - 0.15, Z0, Z0 + 0.23]])
        return (Ra, Za), lambda r: r[1, 1]
    if kind.startswith("mla"):
        # "mla" sets all four locations, "mla:centre+corners" only those named (the others stay unset)
        want = kind.split(":")[1].split("+") if ":" in kind else ["centre", "xlow", "ylow", "corners"]
        a, b = MultiLocationArray(2, 3), MultiLocationArray(2, 3)
        rng = np.random.RandomState(7)
        for loc, shape in (("centre", (2, 3)), ("xlow", (3, 3)), ("ylow", (2, 4)), ("corners", (3, 4))):
            if loc not in want:
                rng.uniform(-0.2, 0.2, shape); rng.uniform(-0.2, 0.2, shape)
                continue
            ra = R0 + rng.uniform(-0.2, 0.2, shape)
            za = Z0 + rng.uniform(-0.2, 0.2, shape)
            ra[1, 2], za[1, 2] = R0, Z0
            setattr(a, loc, ra)
            setattr(b, loc, za)
        loc = want[sel % len(want)]
        return (a, b), lambda r: getattr(r, loc)[1, 2]
    raise ValueError(kind)


def run_exact(c):
    R0, Z0, R, Z, psi, fpol, fpolprime = exact_setup(c)
    e = stub("spline", R, Z, psi, fpol, fpolprime)
    S = c["S"]
    args, pick = args_of(c["argkind"], R0, Z0, c["id"])
    obs, raised = {}, ""
    for n in ALL + ["B2"]:
        try:
            with np.errstate(all="ignore"):
                obs[n] = float(pick(getattr(e, n)(*args)))
        except Exception as ex:  # noqa
            raised = "%s:%s" % (n, type(ex).__name__)
            obs[n] = float("nan")
    B = np.sqrt(obs["B2"]) if obs["B2"] >= 0 else float("nan")
    pt = c["pt"]
    ev = fields_eval.fields(*[Fraction(pt[k]) for k in ("R", "p", "pR", "pZ", "pRR", "pRZ", "pZZ", "F", "Fp")])
    rec = {"id": c["id"], "kind": "exact", "method": "spline", "argkind": c["argkind"], "pt": pt, "S": S, "raised": raised,
           "obs": {n: q(obs[n], S) for n in ALL},
           "twoBdBdR": q(2.0 * B * obs["dBdR"], S), "twoBdBdZ": q(2.0 * B * obs["dBdZ"], S),
           "ev": {n: [int(ev[n].numerator), int(ev[n].denominator)] if n in ev else [0, 0] for n in fields_eval.NAMES + fields_eval.FNAMES + fields_eval.CURLNAMES}}
    return rec


# ---------------------------------------------------------------------------------------------------------------- smooth data
def domain(c):
    nR, nZ = c["nR"], c["nZ"]
    return np.linspace(1.0, 2.0, nR), np.linspace(-0.7, 0.7, nZ)


def analytic(family):
    if family == "poly3":
        return lambda R, Z: 0.3 + (R - 1.4) ** 2 - 1.3 * (Z + 0.1) ** 2 + 0.4 * (R - 1.4) * (Z + 0.1) + 0.2 * (R - 1.5) ** 3 - 0.1 * (Z - 0.2) ** 3 + 0.0 * R
    if family == "cosmode":
        # a single low cosine mode of the DCT's own basis on the 1 x 1.4 box is not assumed: a generic smooth non-symmetric function
        return lambda R, Z: np.cos(2.1 * (R - 1.0)) * np.cos(1.7 * (Z + 0.7)) + 0.3 * np.sin(1.3 * R + 0.4 * Z)
    return equilibria.psi_function(family)


def fpol_pair(kind):
    if kind == "none":
        return (lambda p: 0.0 * p), (lambda p: 0.0 * p)
    if kind == "const":
        return (lambda p: 2.3 + 0.0 * p), (lambda p: 0.0 * p)
    return (lambda p: 2.3 + 0.7 * p - 0.4 * p * p), (lambda p: 0.7 - 0.8 * p)


def build(c):
    """the equilibrium object of a case: a stub with the real field functions, or a real TokamakEquilibrium"""
    R, Z = domain(c)
    f0 = analytic(c["family"])
    amp = float(c.get("amp", 1.0))           # the amplitude of psi is arbitrary (weak poloidal fields, flux in other units)
    f = (lambda Rg, Zg: amp * f0(Rg, Zg)) if amp != 1.0 else f0
    psi = f(R[:, None], Z[None, :])
    if c.get("eq", "stub") == "stub":
        fp, fpp = fpol_pair(c.get("fpol", "quad"))
        return stub(c["method"], R, Z, psi, fp, fpp), R, Z, psi, f
    opts = {"psi_interpolation_method": c["method"], "nx_core": 2, "nx_sol": 2, "ny_inner_divertor": 2, "ny_outer_divertor": 2, "ny_sol": 4,
            "ny_inner_sol": 2, "ny_outer_sol": 2, "nx_inter_sep": 1, "nx_pf": 2}
    fp = None if c.get("fpol", "quad") == "none" else (lambda p: 2.3 + 0.7 * p - 0.4 * p * p)
    eq, arrays = equilibria.make_tokamak(c["family"], opts, fpol=fp, nR=c["nR"], nZ=c["nZ"], make_regions=False, psi_sign=c.get("psi_sign", 1.0))
    # the fpol profile is given on psi1d only and continued by its end values (spline ext=3): kinks at both ends of that range
    eq._verif_kinks = [float(arrays["psi1d"][0]), float(arrays["psi1d"][-1])]
    return eq, arrays["r1d"], arrays["z1d"], arrays["psi2d"], (lambda Rg, Zg: c.get("psi_sign", 1.0) * f(Rg, Zg))


def run_nodes(c):
    e, R, Z, psi, f = build(c)
    RR, ZZ = np.meshgrid(R, Z, indexing="ij")
    rng = float(np.max(psi) - np.min(psi))
    dev = float(np.max(np.abs(np.asarray(e.psi(RR, ZZ)) - psi))) / rng
    # ... and one node at a time, as scalars (a corner, an edge, an interior node)
    devs = 0.0
    for i, j in ((0, 0), (len(R) - 1, 0), (0, len(Z) - 1), (len(R) - 1, len(Z) - 1), (len(R) // 3, len(Z) // 2), (1, len(Z) - 2)):
        devs = max(devs, abs(float(np.asarray(e.psi(float(R[i]), float(Z[j])))) - psi[i, j]) / rng)
    return {"id": c["id"], "kind": "nodes", "method": c["method"], "family": c["family"], "eq": c.get("eq", "stub"), "nR": c["nR"], "nZ": c["nZ"],
            "dev": q(dev, 1e12), "dev_scalar": q(devs, 1e12)}


def sample_points(c, R, Z, n):
    rs = np.random.RandomState(1000 + c["id"])

    def frac():
        # most points in the interior, a third within three per cent of an edge (the outermost half cell of the data included;
        # 5e-4 of the domain is kept free for the finite-difference stencil) - seeded change C18_dct_edge_clip
        u = rs.uniform(0.06, 0.94, n)
        e = rs.uniform(0.0005, 0.03, n)
        side = rs.rand(n) < 0.5
        pick = rs.rand(n) < 0.33
        return np.where(pick, np.where(side, e, 1.0 - e), u)

    Rp = R[0] + (R[-1] - R[0]) * frac()
    Zp = Z[0] + (Z[-1] - Z[0]) * frac()
    return Rp, Zp


def run_fd(c):
    e, R, Z, psi, f = build(c)
    Rp, Zp = sample_points(c, R, Z, c["npts"])
    h = 1.0e-5

    def F(n, Rq, Zq):
        with np.errstate(all="ignore"):
            return np.asarray(getattr(e, n)(Rq, Zq), dtype=float)

    def dR(fn):
        return (fn(Rp + h, Zp) - fn(Rp - h, Zp)) / (2 * h)

    def dZ(fn):
        return (fn(Rp, Zp + h) - fn(Rp, Zp - h)) / (2 * h)

    v = {n: F(n, Rp, Zp) for n in ALL}
    psiR = lambda a, b: -a * F("Bp_Z", a, b)          # noqa: E731   d(psi)/dR as exposed through Bp_Z
    psiZ = lambda a, b: a * F("Bp_R", a, b)           # noqa: E731
    g2 = psiR(Rp, Zp) ** 2 + psiZ(Rp, Zp) ** 2
    B = lambda a, b: np.sqrt(F("B2", a, b))           # noqa: E731
    # (exposed value, central difference, the function that was differenced)
    rel = {
        "psiR_is_ddR_psi": (psiR(Rp, Zp), dR(lambda a, b: F("psi", a, b)), v["psi"]),
        "psiZ_is_ddZ_psi": (psiZ(Rp, Zp), dZ(lambda a, b: F("psi", a, b)), v["psi"]),
        "d2psidR2": (v["d2psidR2"], dR(psiR), psiR(Rp, Zp)),
        "d2psidZ2": (v["d2psidZ2"], dZ(psiZ), psiZ(Rp, Zp)),
        "d2psidRdZ_a": (v["d2psidRdZ"], dZ(psiR), psiR(Rp, Zp)),
        "d2psidRdZ_b": (v["d2psidRdZ"], dR(psiZ), psiZ(Rp, Zp)),
        "dBRdR": (v["dBRdR"], dR(lambda a, b: F("Bp_R", a, b)), v["Bp_R"]),
        "dBRdZ": (v["dBRdZ"], dZ(lambda a, b: F("Bp_R", a, b)), v["Bp_R"]),
        "dBZdR": (v["dBZdR"], dR(lambda a, b: F("Bp_Z", a, b)), v["Bp_Z"]),
        "dBZdZ": (v["dBZdZ"], dZ(lambda a, b: F("Bp_Z", a, b)), v["Bp_Z"]),
        "dBzetadR": (v["dBzetadR"], dR(lambda a, b: F("Bzeta", a, b)), v["Bzeta"]),
        "dBzetadZ": (v["dBzetadZ"], dZ(lambda a, b: F("Bzeta", a, b)), v["Bzeta"]),
        "dB2dR": (v["dB2dR"], dR(lambda a, b: F("B2", a, b)), v["B2"]),
        "dB2dZ": (v["dB2dZ"], dZ(lambda a, b: F("B2", a, b)), v["B2"]),
        "dBdR": (v["dBdR"], dR(B), np.sqrt(v["B2"])),
        "dBdZ": (v["dBdZ"], dZ(B), np.sqrt(v["B2"])),
        "f_R": (v["f_R"] * g2, psiR(Rp, Zp), None),
        "f_Z": (v["f_Z"] * g2, psiZ(Rp, Zp), None),
    }
    # div B from the exposed derivatives, relative to the size of its terms
    divb = v["dBRdR"] + v["Bp_R"] / Rp + v["dBZdZ"]
    rel["divB"] = (divb, np.zeros_like(divb), None)
    scale_div = np.max(np.abs(v["dBRdR"])) + np.max(np.abs(v["dBZdZ"])) + 1e-300
    # points where a relation is meaningful: a central difference across the kink of fpol at the boundary flux / a 0/0 are excluded
    keep = np.ones(len(Rp), dtype=bool)
    if c.get("eq", "stub") == "tokamak":
        pv = v["psi"]
        for pb in [getattr(e, "psi_bdry", None)] + list(getattr(e, "_verif_kinks", [])):
            if pb is not None:
                keep &= np.abs(pv - pb) > 20 * h * np.sqrt(g2) + 1e-7 * (np.max(psi) - np.min(psi))
    out = {}
    for k, (a, b, fn_) in rel.items():
        m = keep & np.isfinite(a) & np.isfinite(b)
        if k in ("dBdR", "dBdZ"):
            m &= v["B2"] > 1e-12 * np.max(v["B2"])
        if k in ("f_R", "f_Z"):
            m &= g2 > 1e-10 * np.max(g2)
        sc = scale_div if k == "divB" else max(np.max(np.abs(a[m]), initial=0.0), np.max(np.abs(b[m]), initial=0.0), 1e-300)
        if fn_ is not None:
            # a central difference of a function of size |f| carries a rounding error of about eps |f| / h: the residual is measured against
            # a scale that is at least 1e6 eps |f| / h (10 times that error at the 1e-5 allowed), so that a derivative far smaller than the
            # function it belongs to (d(Bzeta)/dZ for a weak poloidal field) is not judged on rounding noise
            fm = np.abs(np.asarray(fn_, dtype=float)[m])
            sc = max(sc, 1.0e6 * 2.2e-16 * float(np.max(fm, initial=0.0)) / h)
        out[k] = {"res": q(np.max(np.abs(a[m] - b[m]), initial=0.0) / sc, 1e9), "n": int(np.sum(m)),
                  "nonfinite": int(np.sum(keep & ~(np.isfinite(a) & np.isfinite(b)) & (v["B2"] > 1e-12 * np.max(v["B2"]) if k in ("dBdR", "dBdZ") else True)
                                          & (g2 > 1e-10 * np.max(g2) if k in ("f_R", "f_Z") else True)))}
    # the derived functions against the evaluator applied to the observed base quantities
    with np.errstate(all="ignore"):
        Fv = np.asarray(e.fpol(v["psi"]), dtype=float) + 0.0 * Rp
        Fpv = np.asarray(e.fpolprime(v["psi"]), dtype=float) + 0.0 * Rp
        ev = fields_eval.fields(Rp, v["psi"], psiR(Rp, Zp), psiZ(Rp, Zp), v["d2psidR2"], v["d2psidRdZ"], v["d2psidZ2"], Fv, Fpv)
    alg = {}
    for n in fields_eval.NAMES:
        a, b = v[n], np.asarray(ev[n], dtype=float) + 0.0 * Rp
        m = keep & np.isfinite(a) & np.isfinite(b)
        sc = max(np.max(np.abs(b[m]), initial=0.0), 1e-300)
        alg[n] = {"res": q(np.max(np.abs(a[m] - b[m]), initial=0.0) / sc, 1e12), "n": int(np.sum(m))}
    for n, comp in (("dBdR", "dB2dR"), ("dBdZ", "dB2dZ")):
        m = keep & (v["B2"] > 1e-12 * np.max(v["B2"]))
        a, b = 2.0 * np.sqrt(v["B2"]) * v[n], np.asarray(ev[comp], dtype=float) + 0.0 * Rp
        sc = max(np.max(np.abs(b[m]), initial=0.0), 1e-300)
        alg[n] = {"res": q(np.max(np.abs(a[m] - b[m]), initial=0.0) / sc, 1e12), "n": int(np.sum(m))}
    return {"id": c["id"], "kind": "fd", "method": c["method"], "family": c["family"], "eq": c.get("eq", "stub"), "fpol": c.get("fpol", "quad"), "amp": c.get("amp", 1.0),
            "nR": c["nR"], "nZ": c["nZ"], "rel": out, "alg": alg, "npts": int(np.sum(keep))}


def run_agree(c):
    """errors of both interpolants against the analytic function at interior points, at the given resolution and at twice the resolution"""
    res = []
    for mult in (1, 2):
        c2 = dict(c, nR=(c["nR"] - 1) * mult + 1, nZ=(c["nZ"] - 1) * mult + 1, eq="stub")
        R, Z = domain(c2)
        f = analytic(c["family"])
        psi = f(R[:, None], Z[None, :])
        rng = float(np.max(psi) - np.min(psi))
        rs = np.random.RandomState(77 + c["id"])
        Rp = R[0] + (R[-1] - R[0]) * rs.uniform(0.2, 0.8, 200)
        Zp = Z[0] + (Z[-1] - Z[0]) * rs.uniform(0.2, 0.8, 200)
        es = stub("spline", R, Z, psi, *fpol_pair("quad"))
        ed = stub("dct", R, Z, psi, *fpol_pair("quad"))
        ps, pd, pa = np.asarray(es.psi(Rp, Zp)), np.asarray(ed.psi(Rp, Zp)), f(Rp, Zp)
        h = 1e-6
        ga = np.hypot((f(Rp + h, Zp) - f(Rp - h, Zp)) / (2 * h), (f(Rp, Zp + h) - f(Rp, Zp - h)) / (2 * h))
        gs = np.hypot(-Rp * np.asarray(es.Bp_Z(Rp, Zp)), Rp * np.asarray(es.Bp_R(Rp, Zp)))
        gd = np.hypot(-Rp * np.asarray(ed.Bp_Z(Rp, Zp)), Rp * np.asarray(ed.Bp_R(Rp, Zp)))
        gsc = float(np.max(ga))
        res.append({"err_spline": q(np.max(np.abs(ps - pa)) / rng, 1e9), "err_dct": q(np.max(np.abs(pd - pa)) / rng, 1e9),
                    "diff": q(np.max(np.abs(ps - pd)) / rng, 1e9),
                    "gerr_spline": q(np.max(np.abs(gs - ga)) / gsc, 1e9), "gerr_dct": q(np.max(np.abs(gd - ga)) / gsc, 1e9), "nR": c2["nR"], "nZ": c2["nZ"]})
    return {"id": c["id"], "kind": "agree", "family": c["family"], "nR": c["nR"], "nZ": c["nZ"], "coarse": res[0], "fine": res[1]}


def kind_of(r):
    if isinstance(r, MultiLocationArray):
        return "mla"
    a = np.asarray(r)
    return "scalar" if a.ndim == 0 else "array"


def run_shape(c):
    if c.get("eq") == "tokamak":     # the real TokamakEquilibrium: its fpol / fpolprime / pressure wrappers take part in the dispatch
        e, R, Z, _, _ = build(dict(c, family="lsn", fpol="quad"))
    else:
        R, Z = domain(c)
        f = analytic("lsn")
        e = stub(c["method"], R, Z, f(R[:, None], Z[None, :]), *fpol_pair("quad"))
    R0, Z0 = 1.43, 0.11

    def arg(kind, which):
        (a, b), _ = args_of(kind, R0, Z0, 0)
        return a if which == 0 else b

    a1, a2 = arg(c["a1"], 0), arg(c["a2"], 1)
    fn = getattr(e, c["fn"])
    rec = {"id": c["id"], "kind": "shape", "method": c["method"], "fn": c["fn"], "a1": c["a1"], "a2": c["a2"], "exc": "", "dev": 0, "shape_ok": 1}
    try:
        with np.errstate(all="ignore"):
            r = fn(a1, a2)
    except Exception as ex:  # noqa
        rec["result"] = "error"
        rec["exc"] = type(ex).__name__
        return rec
    rec["result"] = kind_of(r)
    # every element equals the scalar evaluation at its own pair of coordinates, and the shape is that of the arguments
    if c["a1"] == c["a2"]:
        dev = 0.0
        if rec["result"] == "mla":
            setlocs = c["a1"].split(":")[1].split("+") if ":" in c["a1"] else ["centre", "xlow", "ylow", "corners"]
            for loc in setlocs:      # (a location the arguments do not have is not compared)
                ra, za, rr = getattr(a1, loc), getattr(a2, loc), getattr(r, loc)
                if rr.shape != ra.shape:
                    rec["shape_ok"] = 0
                    continue
                for idx in np.ndindex(ra.shape):
                    s = float(np.asarray(fn(float(ra[idx]), float(za[idx]))))
                    dev = max(dev, abs(float(rr[idx]) - s) / (abs(s) + 1e-3))
        else:
            ra, za, rr = np.asarray(a1, dtype=float), np.asarray(a2, dtype=float), np.asarray(r, dtype=float)
            if rr.shape != ra.shape:
                rec["shape_ok"] = 0
            else:
                for idx in np.ndindex(ra.shape):
                    s = float(np.asarray(fn(float(ra[idx]), float(za[idx]))))
                    dev = max(dev, abs(float(rr[idx]) - s) / (abs(s) + 1e-3))
        rec["dev"] = q(dev, 1e12)
    return rec


RUN = {"exact": run_exact, "nodes": run_nodes, "fd": run_fd, "agree": run_agree, "shape": run_shape}


def main():
    warnings.simplefilter("ignore")
    with open(sys.argv[1]) as fh:
        cases = json.load(fh)
    out = []
    for c in cases:
        try:
            out.append(RUN[c["kind"]](c))
        except BaseException as ex:  # noqa
            out.append({"id": c["id"], "kind": c["kind"], "driver_error": "%s: %s" % (type(ex).__name__, ex), "tb": traceback.format_exc()[-1500:]})
    with open(sys.argv[2], "w") as fh:
        json.dump(out, fh)


if __name__ == "__main__":
    main()
