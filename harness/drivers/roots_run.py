"""C->S driver for Roots.tla: calls the real Equilibrium.findRoots_1d on piecewise-linear functions.

usage: roots_run.py <cases.json> <out.json>
case: {id, NFine, n, maxI, sg: [signs at the NFine+1 lattice points], mag: [magnitudes]}
output record: the case plus events [{ev: Scan, level}..., {ev: Return, outcome, roots}] with roots located on the
doubled lattice (2j+1 = inside fine interval j, 2j = at node j).
"""
import json
import sys
import warnings

import numpy as np

from hypnotoad.core.equilibrium import Equilibrium, SolutionError


def main():
    with open(sys.argv[1]) as fh:
        cases = json.load(fh)
    eq = object.__new__(Equilibrium)
    out = []
    for c in cases:
        N = c["NFine"]
        nodes = np.arange(N + 1, dtype=float)
        vals = np.array([s * m for s, m in zip(c["sg"], c["mag"])], dtype=float)
        events = []

        def f(x, events=events, nodes=nodes, vals=vals):
            if np.ndim(x) > 0:
                events.append({"ev": "Scan", "level": int(len(x) - 1)})
            return np.interp(x, nodes, vals)

        roots = []
        with warnings.catch_warnings():
            warnings.simplefilter("ignore")
            try:
                r = eq.findRoots_1d(f, c["n"], 0.0, float(N), maxintervals=c["maxI"])
                outcome = "ok"
                for x in r:
                    x = float(x)
                    k = int(round(x))
                    if abs(x - k) < 1e-6 and 0 <= k <= N and c["sg"][k] == 0:
                        roots.append(2 * k)
                    else:
                        roots.append(2 * int(np.floor(x)) + 1)
                # residuals: every returned value is a root of f (brentq stops at 2e-8 in x; the slope is at most 2 max|f| per unit)
                c["resid_ok"] = 1 if all(abs(float(np.interp(x, nodes, vals))) < 1e-6 * float(np.max(np.abs(vals))) for x in r) else 0
            except SolutionError:
                outcome = "no_roots"
            except NotImplementedError:
                outcome = "not_implemented"
            except TypeError:
                outcome = "type_error"
            except Exception as e:  # noqa
                outcome = "exception_" + type(e).__name__
        events.append({"ev": "Return", "outcome": outcome, "roots": roots})
        c["events"] = events
        out.append(c)
    with open(sys.argv[2], "w") as fh:
        json.dump(out, fh)


if __name__ == "__main__":
    main()
