"""C14 round trip: hypnotoad-geqdsk -> hypnotoad-recreate-inputs -> hypnotoad-geqdsk.
usage: roundtrip_run.py <outdir> [cli|regrid]
mode regrid: the first file is written through the Python API by a non-orthogonal mesh that was regridded (redistributePoints, what the GUI's
"Regrid" does) before geometry(): the inputs embedded in THAT file must regenerate the grid in it (to the point-refinement tolerance, since a
regridded mesh and one built from scratch agree only to that)."""
import json
import os
import shutil
import subprocess
import sys

import numpy as np

REPO = os.environ.get("VERIF_REPO", "/repo")


def run(cmd, cwd):
    env = dict(os.environ)
    env["MPLBACKEND"] = "Agg"
    p = subprocess.run(cmd, cwd=cwd, env=env, capture_output=True, text=True)
    return p.returncode, (p.stdout[-800:] + p.stderr[-1500:])


def main():
    outdir = os.path.abspath(sys.argv[1])
    mode = sys.argv[2] if len(sys.argv) > 2 else "cli"
    os.makedirs(outdir, exist_ok=True)
    sys.path.insert(0, os.path.dirname(os.path.dirname(os.path.dirname(os.path.abspath(__file__)))))
    from harness.drivers import shipped_run  # noqa: F401  (reuse of the analytic geqdsk writer below)
    from harness import equilibria as E
    from hypnotoad.geqdsk import _geqdsk
    from hypnotoad.utils import critical
    import yaml

    w1, w2 = os.path.join(outdir, "w1"), os.path.join(outdir, "w2")
    for w in (w1, w2):
        shutil.rmtree(w, ignore_errors=True)
        os.makedirs(w)
    r1d, z1d, psi2d, psi1d = E.tokamak_arrays("lsn", 65, 65)
    R2, Z2 = np.meshgrid(r1d, z1d, indexing="ij")
    op, xp = critical.find_critical(R2, Z2, psi2d, 1e-6, 1000)
    psin = np.linspace(0, 1, 65)
    wall = E.default_wall()
    data = {"nx": 65, "ny": 65, "rdim": 1.0, "zdim": 1.4, "rcentr": 1.5, "bcentr": 1.0, "rleft": 1.0, "zmid": 0.0, "rmagx": op[0][0], "zmagx": op[0][1],
            "simagx": op[0][2], "sibdry": xp[0][2], "cpasma": 1e6, "fpol": 1 - 0.1 * psin ** 2, "pres": 1e3 * (1 - psin) ** 2, "qpsi": 1 + 2 * psin ** 2, "psi": psi2d,
            "rlim": [p[0] for p in wall], "zlim": [p[1] for p in wall]}
    gf = os.path.join(w1, "analytic.geqdsk")
    with open(gf, "w") as fh:
        _geqdsk.write(data, fh)
    opts = {"nx_core": 2, "nx_sol": 2, "ny_inner_divertor": 3, "ny_sol": 4, "ny_outer_divertor": 3, "y_boundary_guards": 1, "psinorm_core": 0.9, "psinorm_sol": 1.1,
            "psinorm_pf": 0.95, "finecontour_Nfine": 50, "target_all_poloidal_spacing_length": 0.3, "xpoint_poloidal_spacing_length": 0.05,
            "psi_spacing_separatrix_multiplier": 0.5, "reverse_Bt": True, "grid_file": "first.grd.nc",
            # an option explicitly set to None whose default is NOT None (it would fall back to target_all_poloidal_spacing_length): the embedded
            # option set has to carry the None (seeded change C14_yaml_drops_none)
            "target_inner_lower_poloidal_spacing_length": None}
    with open(os.path.join(w1, "in.yaml"), "w") as fh:
        yaml.safe_dump(opts, fh)
    st = {"mode": mode}
    script = "from hypnotoad.scripts.hypnotoad_geqdsk import main; main()"
    if mode == "regrid":
        opts.update({"orthogonal": False, "finecontour_Nfine": 100, "ny_inner_divertor": 2, "ny_outer_divertor": 3, "ny_sol": 4})
        opts.pop("target_inner_lower_poloidal_spacing_length")      # (with a target spacing of None regridding is history dependent: known finding of C15)
        regrid = {"nonorthogonal_xpoint_poloidal_spacing_length": 0.02, "nonorthogonal_target_all_poloidal_spacing_length": 0.4}
        api = ("import sys, yaml, warnings; warnings.simplefilter('ignore')\n"
               "from hypnotoad.cases import tokamak\nfrom hypnotoad.core.mesh import BoutMesh\n"
               "o = yaml.safe_load(open('in.yaml')); o.pop('grid_file')\n"
               "eq = tokamak.read_geqdsk(open(%r), settings=dict(o), nonorthogonal_settings=dict(o))\n"
               "m = BoutMesh(eq, dict(o))\nm.redistributePoints(%r)\nm.geometry()\nm.writeGridfile('first.grd.nc')\n" % (gf, regrid))
        with open(os.path.join(w1, "in.yaml"), "w") as fh:
            yaml.safe_dump(opts, fh)
        rc, tail = run([sys.executable, "-B", "-c", api], w1)
    else:
        rc, tail = run([sys.executable, "-B", "-c", script, gf, "in.yaml"], w1)
    st["first_run"] = 1 if rc == 0 and os.path.exists(os.path.join(w1, "first.grd.nc")) else 0
    st["first_tail"] = tail if not st["first_run"] else ""
    st.update(recreate=0, geqdsk_bytes_equal=0, yaml_safe_loads=0, yaml_complete=0, yaml_missing=[], second_run=0, arrays_identical=0, max_abs_diff_q=10 ** 9, second_tail="")
    if st["first_run"]:
        rc, tail = run([sys.executable, "-B", "-c", "from hypnotoad.scripts.hypnotoad_recreate_inputs import main; main()", os.path.join(w1, "first.grd.nc"),
                        "-g", "re.geqdsk", "-y", "re.yaml"], w2)
        st["recreate"] = 1 if rc == 0 else 0
        if rc == 0:
            with open(gf, "rb") as a, open(os.path.join(w2, "re.geqdsk"), "rb") as b:
                st["geqdsk_bytes_equal"] = 1 if a.read() == b.read() else 0
            try:
                y = yaml.safe_load(open(os.path.join(w2, "re.yaml")))
                st["yaml_safe_loads"] = 1 if isinstance(y, dict) else 0
                # "the complete evaluated option set": every option of the three option tables that apply to a tokamak grid is there
                from hypnotoad.cases import tokamak
                from hypnotoad.core.mesh import BoutMesh
                allopts = set(tokamak.TokamakEquilibrium.user_options_factory.defaults) | set(tokamak.TokamakEquilibrium.nonorthogonal_options_factory.defaults) \
                    | set(BoutMesh.user_options_factory.defaults)
                missing = sorted(allopts - set(y)) if isinstance(y, dict) else sorted(allopts)
                st["yaml_complete"] = 0 if missing else 1
                st["yaml_missing"] = missing[:12]
            except Exception as e:  # noqa
                st["second_tail"] = "yaml.safe_load: %s" % str(e)[:300]
            rc, tail = run([sys.executable, "-B", "-c", script, "re.geqdsk", "re.yaml"], w2)
            g2 = os.path.join(w2, "bout.grd.nc")
            st["second_run"] = 1 if rc == 0 and os.path.exists(g2) else 0
            if not st["second_run"]:
                st["second_tail"] += tail
            else:
                from netCDF4 import Dataset
                worst = 0.0
                ident = 1
                with Dataset(os.path.join(w1, "first.grd.nc")) as a, Dataset(g2) as b:
                    for n in a.variables:
                        va = a.variables[n]
                        if getattr(va.dtype, "kind", "S") in "fiu":
                            if n not in b.variables:
                                ident = 0
                                continue
                            x, y = np.array(va[...], float), np.array(b.variables[n][...], float)
                            if x.shape != y.shape or not np.array_equal(np.isnan(x), np.isnan(y)):
                                ident = 0
                                continue
                            if not np.array_equal(x[~np.isnan(x)], y[~np.isnan(y)]):
                                ident = 0
                                m = max(1e-300, float(np.nanmax(np.abs(x)))) if x.size else 1.0
                                worst = max(worst, float(np.nanmax(np.abs(x - y))) / m)
                st["arrays_identical"] = ident
                st["max_abs_diff_q"] = int(min(worst / 1e-12, 10 ** 9))
    shutil.rmtree(w1, ignore_errors=True)
    shutil.rmtree(w2, ignore_errors=True)
    with open(os.path.join(outdir, "status.json"), "w") as fh:
        json.dump(st, fh)


if __name__ == "__main__":
    main()
