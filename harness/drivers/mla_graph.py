"""S->C / C->S driver for MLA.tla: for every state (a, b, r) of the dumped graph build real MultiLocationArray objects, apply every
operation of the specification and return the real successor states.
usage: mla_graph.py <nodes.json> <out.json>;  node: {"id", "a": {loc: int}, "b": {...}, "r": {...}}   (-1 = location not there)"""
import json
import sys

import numpy as np

from hypnotoad.core.multilocationarray import MultiLocationArray

LOCS = ("centre", "xlow", "ylow", "corners")


def mk(d):
    m = MultiLocationArray(2, 3)
    for l in LOCS:
        if d[l] != -1:
            setattr(m, l, float(d[l]))
    return m


def proj(m):
    out = {}
    for l in LOCS:
        arr = getattr(m, "_%s_array" % l)
        if arr is None:
            out[l] = -1
        else:
            v = np.unique(arr)
            out[l] = int(v[0]) if len(v) == 1 and float(v[0]).is_integer() else -999
    return out


def main():
    with open(sys.argv[1]) as fh:
        nodes = json.load(fh)
    out = []
    for nd in nodes:
        succ = {}

        def rec(name, a, b, r):
            succ[name] = {"a": proj(a), "b": proj(b), "r": r if isinstance(r, dict) else proj(r)}

        for l in LOCS:
            a, b = mk(nd["a"]), mk(nd["b"])
            getattr(a, l)                     # a read
            rec("read:" + l, a, b, nd["r"])
            a, b = mk(nd["a"]), mk(nd["b"])
            setattr(b, l, 3.0)
            rec("write:" + l, a, b, nd["r"])
        a, b = mk(nd["a"]), mk(nd["b"])
        rec("add", a, b, a + b)
        a, b = mk(nd["a"]), mk(nd["b"])
        rec("scale", a, b, 2.0 * a)
        a, b = mk(nd["a"]), mk(nd["b"])
        c = a.copy()
        rec("copy", a, b, c)
        a, b = mk(nd["a"]), mk(nd["b"])
        b.zero()
        rec("zero", a, b, nd["r"])
        out.append({"id": nd["id"], "succ": succ})
    with open(sys.argv[2], "w") as fh:
        json.dump(out, fh)


if __name__ == "__main__":
    main()
