"""C->S driver for PolSpacing.tla.
usage: polspacing_run.py <out.json> <tier>
(a) getSpacings of every region of every tokamak topology with each option set to a distinct sentinel;
(b) the poloidal spacing-function constructors on a lattice of (L, N, N_norm, end parameters, end kinds)."""
import itertools
import json
import sys
import warnings

import numpy as np

from harness import equilibria as E

WHATS = ["sqrt_b", "sqrt_a", "monotonic_d", "nonorthogonal_orthogonal_d", "nonorthogonal_range", "nonorthogonal_range_inner", "nonorthogonal_range_outer"]
NS = {"LSN": ([2, 2], [3, 4, 3]), "USN": ([2, 2], [3, 4, 3]), "CDN": ([2, 2], [3] * 6), "LDN": ([2, 1, 2], [3] * 6), "UDN": ([2, 1, 2], [3] * 6)}


def sentinels():
    o = {}
    k = 100
    for leg in ("inner_lower", "inner_upper", "outer_upper", "outer_lower"):
        for pre, suf in (("target_", "_poloidal_spacing_length"), ("nonorthogonal_target_", "_poloidal_spacing_length"), ("nonorthogonal_target_", "_poloidal_spacing_range"),
                         ("nonorthogonal_target_", "_poloidal_spacing_range_inner"), ("nonorthogonal_target_", "_poloidal_spacing_range_outer")):
            k += 1
            o[pre + leg + suf] = k / 1000.0
    for name in ("xpoint_poloidal_spacing_length", "nonorthogonal_xpoint_poloidal_spacing_length", "nonorthogonal_xpoint_poloidal_spacing_range",
                 "nonorthogonal_xpoint_poloidal_spacing_range_inner", "nonorthogonal_xpoint_poloidal_spacing_range_outer"):
        k += 1
        o[name] = k / 1000.0
    return o


def main():
    warnings.simplefilter("ignore")
    outp, tier = sys.argv[1], sys.argv[2]
    out = []
    sent = sentinels()
    reg0 = regleg = None
    for topo, (nx, ny) in NS.items():
        opts = E.size_options(topo, nx, ny, 1)
        opts.update(psinorm_core=0.9, psinorm_sol=1.1, psinorm_pf=0.95)
        if topo in ("CDN", "LDN", "UDN"):
            opts["psinorm_sol_inner"] = 1.08
        opts.update(sent)
        eq, _ = E.make_tokamak(E.TOPO_GEOM[topo], opts)
        for name, reg in eq.regions.items():
            reg0 = reg0 or reg
            if topo == "LSN" and name == "outer_lower_divertor":
                regleg = reg
            sp = reg.getSpacings()
            vals = {}
            for w in WHATS:
                vals[w] = {}
                for e in ("lower", "upper"):
                    v = sp[(w.replace("sqrt_b", "sqrt_b").replace("sqrt_a", "sqrt_a")) + "_" + e] if not w.startswith("nonorthogonal_range_") else sp["nonorthogonal_range_" + e + "_" + w.split("_")[-1]]
                    vals[w][e] = -1 if v is None else int(round(v * 1000))
            out.append({"id": len(out) + 1, "kind": "params", "topo": topo, "region": name, "values": vals, "options": {k: int(round(v * 1000)) for k, v in sent.items()},
                        "raised": 0, "s": [0], "endg": {"lo": {"req": 0, "got": 0, "tol": 0}, "hi": {"req": 0, "got": 0, "tol": 0}}, "ext_ok": 1, "smooth": {"lo": {"req": 0, "got": 0}, "hi": {"req": 0, "got": 0}}})
    # (b) function lattice.  N = 2*ny (contour points of a region), guard cells G at wall ends; the function is used on the
    # indices -2G*[lower is wall] .. N + 2G*[upper is wall], which is also what the code's run-time guard _checkMonotonic scans
    import copy
    Ls = (0.3, 1.7) if tier == "quick" else (0.1, 0.3, 1.0, 1.7, 6.0)
    Ns = (4, 8) if tier == "quick" else (2, 4, 8, 20, 64)
    pv = (0.05, 0.4, 1.5) if tier == "quick" else (0.02, 0.05, 0.4, 1.5)      # (1.5 with N_norm = 4 N reaches the concave branch of the monotonic function)
    h = 1e-7
    hm = 1e-5
    G = 2
    for L, N, nnf, kinds, pl, pu in itertools.product(Ls, Ns, (1, 4), ("wall.X", "X.wall", "X.X", "wall.wall"), pv, pv):
        N_norm = N * nnf
        for method in ("sqrt", "sqrt_free", "monotonic", "linear", "perp"):
            # "sqrt_free": the wall end has no requested spacing (the default of an orthogonal grid: target_*_poloidal_spacing_length = None), only the
            # X-point end is constrained (seeded change C10_sqrt_guard_extrap_gradient is in the guard-cell extrapolation of that branch)
            if method == "sqrt_free" and (kinds not in ("wall.X", "X.wall") or pl != pu):
                continue
            if method == "perp" and (L != Ls[0] or nnf != 1):
                continue      # (the contour, and with it the length and N_norm, are those of a real leg: one pass over N, kinds and the spacings)
            rec = {"id": len(out) + 1, "kind": "func", "method": method, "L": L, "N": N, "N_norm": N_norm, "kinds": kinds, "pl": pl, "pu": pu, "topo": "LSN", "region": "core",
                   "values": {w: {"lower": 0, "upper": 0} for w in WHATS}, "options": {"xpoint_poloidal_spacing_length": 0},
                   "raised": 0, "s": [0], "endg": {"lo": {"req": 0, "got": 0, "tol": 0}, "hi": {"req": 0, "got": 0, "tol": 0}}, "ext_ok": 1,
                   "smooth": {"lo": {"req": 0, "got": 0}, "hi": {"req": 0, "got": 0}}}
            lo_wall, hi_wall = kinds.split(".")[0] == "wall", kinds.split(".")[1] == "wall"
            elo, ehi = (2 * G if lo_wall else 0), (2 * G if hi_wall else 0)
            try:
                if method == "sqrt":
                    kw = dict(b_lower=pl if lo_wall else 0.0, a_lower=None if lo_wall else pl, b_upper=pu if hi_wall else 0.0, a_upper=None if hi_wall else pu)
                    f = reg0.getSqrtPoloidalDistanceFunc(L, N, N_norm, **kw)
                elif method == "sqrt_free":
                    kw = dict(b_lower=None, a_lower=None, b_upper=0.0, a_upper=pu) if lo_wall else dict(b_lower=0.0, a_lower=pl, b_upper=None, a_upper=None)
                    f = reg0.getSqrtPoloidalDistanceFunc(L, N, N_norm, **kw)
                elif method == "monotonic":
                    f = reg0.getMonotonicPoloidalDistanceFunc(L, N, N_norm, d_lower=pl, d_upper=pu)
                elif method == "perp":
                    # getSfuncFixedPerpSpacing: the spacing measured perpendicular to a surface vector; an end that is an X-point asks for
                    # spacing * sin(angle between separatrix and surface at THAT end), a wall end for the spacing itself.  The two ends
                    # get different angles (seeded change C10_one_sine_per_region); the contour is a real leg, the vector its target's
                    rp = copy.copy(regleg)
                    rp.wallSurfaceAtStart = [1.0, 0.0] if lo_wall else None
                    rp.wallSurfaceAtEnd = [1.0, 0.0] if hi_wall else None
                    rp.sin_angle_at_start, rp.sin_angle_at_end = 0.62, 0.87
                    _, Lp = regleg.interpSSperp([1.0, 0.0], psi=regleg.psi)
                    _, f = rp.getSfuncFixedPerpSpacing(N + 1, regleg, [1.0, 0.0], True, spacing_lower=pl, spacing_upper=pu)
                    L_used, N_norm_used = float(Lp), float(rp.user_options.N_norm_prefactor * rp.ny_total)
                else:
                    if (pl, pu) != (pv[0], pv[0]):
                        continue
                    f = reg0.getLinearPoloidalDistanceFunc(L, N)
                if method == "perp":
                    L, N_norm = L_used, N_norm_used
                    rec["L"], rec["N_norm"] = L, N_norm
                # the code's own run-time guard, on the indices the function is used for
                rr = copy.copy(reg0)
                rr.ny_noguards, rr.extend_lower, rr.extend_upper = N // 2, elo, ehi
                rr._checkMonotonic([(f, method)], total_distance=L)
                idx = np.arange(-elo, N + ehi + 1, dtype=float)
                sall = np.array([float(f(float(i))) for i in idx])
                s = sall[elo:elo + N + 1]
                rec["s"] = [int(np.clip(np.nan_to_num(round(v / L * 1e9), nan=-1e9), -1e9, 2e9)) for v in s]      # 32-bit range of TLC
                rec["ext_ok"] = 1 if np.all(sall[1:] > sall[:-1]) else 0
                iN_end = N / N_norm
                # the extension beyond a wall end (it places the boundary guard cells) continues the function with the same slope: one-sided
                # differences inside and outside the end, step 1e-7 of the normalised index
                if method in ("sqrt", "sqrt_free", "monotonic"):
                    for e, wall, i0 in (("lo", lo_wall, 0.0), ("hi", hi_wall, float(N))):
                        if wall:
                            hh = 1e-7 * N_norm      # (at 1e-5 the curvature of the function itself shows at the 0.4 % level)
                            din = abs(float(f(i0 + (hh if e == "lo" else -hh))) - float(f(i0)))
                            dout = abs(float(f(i0 - (hh if e == "lo" else -hh))) - float(f(i0)))
                            rec["smooth"][e] = {"req": 1, "got": int(np.clip(np.nan_to_num(dout / din * 1e6, nan=-1e9), -1e9, 1e9))}
                if method == "sqrt_free":
                    a_lo, b_lo = (0.0, 0.0) if lo_wall else (pl, 0.0)
                    a_hi, b_hi = (0.0, 0.0) if hi_wall else (pu, 0.0)
                    got_lo = 1.0 if lo_wall else float(f(h * N_norm)) / (2 * a_lo * np.sqrt(h))
                    got_hi = 1.0 if hi_wall else (L - float(f((iN_end - h) * N_norm))) / (2 * a_hi * np.sqrt(h))
                    tol = 3000
                elif method == "sqrt":
                    a_lo, b_lo = (0.0, pl) if lo_wall else (pl, 0.0)
                    a_hi, b_hi = (0.0, pu) if hi_wall else (pu, 0.0)
                    got_lo = float(f(h * N_norm)) / (2 * a_lo * np.sqrt(h) + b_lo * h)
                    got_hi = (L - float(f((iN_end - h) * N_norm))) / (2 * a_hi * np.sqrt(h) + b_hi * h)
                    tol = 3000
                elif method == "perp":
                    want_lo = pl * (1.0 if lo_wall else 0.62)
                    want_hi = pu * (1.0 if hi_wall else 0.87)
                    got_lo = (4.0 * float(f(hm * N_norm)) - float(f(2 * hm * N_norm))) / (2 * hm) / want_lo
                    got_hi = (4.0 * (L - float(f((iN_end - hm) * N_norm))) - (L - float(f((iN_end - 2 * hm) * N_norm)))) / (2 * hm) / want_hi
                    tol = 1000
                elif method == "monotonic":
                    # second-order one-sided differences (the cubic / logarithmic forms can have a large second derivative)
                    got_lo = (4.0 * float(f(hm * N_norm)) - float(f(2 * hm * N_norm))) / (2 * hm) / pl
                    got_hi = (4.0 * (L - float(f((iN_end - hm) * N_norm))) - (L - float(f((iN_end - 2 * hm) * N_norm)))) / (2 * hm) / pu
                    tol = 1000
                else:
                    got_lo = got_hi = 1.0
                    tol = 1000
                cl = lambda g: int(np.clip(np.nan_to_num(g * 1e6, nan=-1e9), -1e9, 1e9))  # noqa: E731
                rec["endg"] = {"lo": {"req": 1, "got": cl(got_lo), "tol": tol}, "hi": {"req": 1, "got": cl(got_hi), "tol": tol}}
            except ValueError as e:
                rec["raised"] = 1
                rec["exc"] = str(e)[:80]
            out.append(rec)
    with open(outp, "w") as fh:
        json.dump(out, fh)


if __name__ == "__main__":
    main()
