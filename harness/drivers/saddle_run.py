"""C->S driver for Saddle.tla: calls the real Equilibrium.findSaddlePoint on quadratic flux functions.

usage: saddle_run.py <cases.json> <out.json>
case: {id, form: [A, B, C, Kd, Sg], ctr: [U0, V0], S, a, R0, Z0, theta, amp}
  psi = amp Sg (A x^2 + C x y - Kd B y^2), x = u - U0, y = v - V0 in box coordinates (u along e2, v along e1 = p1->p2),
  the box has side a, corner p1 = (R0, Z0) and e1 at angle theta (degrees) from the Z axis.
output: the case plus outcome, count (passes of the alternating search), res (answer in box coordinates, thousandths of a
lattice unit), gradok, tol.
"""
import contextlib
import io
import json
import math
import re
import signal
import sys
import warnings

import numpy as np

from hypnotoad.core.equilibrium import Equilibrium, Point2D, SolutionError


class Hang(BaseException):
    pass


def _alarm(signum, frame):
    raise Hang()


def main():
    signal.signal(signal.SIGALRM, _alarm)
    with open(sys.argv[1]) as fh:
        cases = json.load(fh)
    out = []
    hangs = 0
    for c in cases:
        A, B, C, Kd, Sg = c["form"]
        U0, V0 = c["ctr"]
        S, a = c["S"], c["a"]
        th = math.radians(c["theta"])
        e1 = (math.sin(th), math.cos(th))  # (R, Z) components; theta = 0: straight up
        e2 = (e1[1], -e1[0])
        R0, Z0 = c["R0"], c["Z0"]
        amp = c.get("amp", 1.0)
        eps = c.get("cubic", 0)
        c["cubicq"] = int(round(1000 * eps))

        def uv(R, Z):
            dR, dZ = R - R0, Z - Z0
            return (dR * e2[0] + dZ * e2[1]) * S / a, (dR * e1[0] + dZ * e1[1]) * S / a

        def psi(R, Z):
            u, v = uv(R, Z)
            x, y = u - U0, v - V0
            q = A * x * x + C * x * y - Kd * B * y * y
            if eps:      # a cubic perturbation that leaves the critical point and its Hessian where they are
                q = q + eps * (x ** 3 - y ** 3 + x * x * y) / S
            return amp * Sg * q

        eq = object.__new__(Equilibrium)
        eq.psi = psi
        p1 = Point2D(R0, Z0)
        p2 = Point2D(R0 + a * e1[0], Z0 + a * e1[1])
        atol = a * c["atol_num"] / (c["atol_den"] * S)
        buf = io.StringIO()
        c["count"], c["res"], c["gradok"] = 0, [0, 0], 0
        if hangs >= 6:     # every further call would cost its time limit as well: the six recorded ones are the finding
            c["outcome"], c["tol"], c["cubicq"] = "hang_skipped", 5, int(round(1000 * eps))
            out.append(c)
            continue
        with warnings.catch_warnings(), contextlib.redirect_stdout(buf):
            warnings.simplefilter("ignore")
            try:
                signal.setitimer(signal.ITIMER_REAL, 4.0)      # the alternating search has no bound on its passes
                r = eq.findSaddlePoint(p1, p2, atol=atol)
                c["outcome"] = "ok"
                u, v = uv(r.R, r.Z)
                c["res"] = [int(round(u * 1000)), int(round(v * 1000))]
                x, y = u - U0, v - V0
                g = math.hypot(2 * A * x + C * y + eps * (3 * x * x + 2 * x * y) / S, C * x - 2 * Kd * B * y + eps * (x * x - 3 * y * y) / S)
                # |grad psi| at the answer, against the gradient one atol away from the critical point
                c["gradok"] = 1 if g <= 2.0 * (2 * max(A, B) + abs(C)) * (c["atol_num"] / c["atol_den"]) else 0
            except Hang:
                c["outcome"] = "hang"
                hangs += 1
            except SolutionError:
                c["outcome"] = "solution_error"
            except ValueError:
                c["outcome"] = "value_error"
            except Exception as e:  # noqa
                c["outcome"] = "exception_" + type(e).__name__
            finally:
                signal.setitimer(signal.ITIMER_REAL, 0.0)
        m = re.search(r"findSaddlePoint took (\d+) iterations", buf.getvalue())
        if m:
            c["count"] = int(m.group(1))
        # the line searches stop at atol/2 in the line parameter: a/16 lattice units for the box side a; three of them contribute
        c["tol"] = max(5, int(math.ceil(3000 * 0.5 * (c["atol_num"] / c["atol_den"]) * a)))
        if eps:     # the specification's answer is the critical point itself: the code's may be up to atol (and the search tolerance) away
            c["tol"] += int(math.ceil(1500 * c["atol_num"] / c["atol_den"]))
        out.append(c)
    with open(sys.argv[2], "w") as fh:
        json.dump(out, fh)


if __name__ == "__main__":
    main()
