"""C->S driver for FollowPerp.tla: the REAL followPerpendicular on psi(R, Z) = R (f_R = 1, f_Z = 0), so that the psi label of
every returned point is its R coordinate.
usage: followperp_run.py <cases.json> <out.json>;  case: {"id", "pv": [ints], "p0": int, "variant": "exact"|"guard+"|"guard-"|"near+"|"near-"}"""
import contextlib
import io
import json
import sys
import warnings

import numpy as np

from hypnotoad.core.equilibrium import Point2D
from hypnotoad.core.mesh import followPerpendicular

S = 0.01


def f_R(R, Z):
    return 1.0 + 0.0 * R


def f_Z(R, Z):
    return 0.0 * R


def main():
    warnings.simplefilter("ignore")
    with open(sys.argv[1]) as fh:
        cases = json.load(fh)
    out = []
    for c in cases:
        psi0 = c["p0"] * S
        v = c["variant"]
        if v == "guard+":
            psi0 = psi0 * (1 + 2e-16)
        elif v == "guard-":
            psi0 = psi0 * (1 - 2e-16)
        elif v == "near+":      # p0 is odd: just above the even value below it
            psi0 = (c["p0"] - 1) * S + 1e-13
        elif v == "near-":
            psi0 = (c["p0"] + 1) * S - 1e-13
        rec = dict(c)
        try:
            with contextlib.redirect_stdout(io.StringIO()):
                pts = followPerpendicular(None, Point2D(psi0, 0.3), psi0, f_R=f_R, f_Z=f_Z, psivals=[x * S for x in c["pv"]])
            rec["out"] = [int(round(p.R / S)) for p in pts]
            err = max(abs(p.R / S - round(p.R / S)) * S for p in pts)
            rec["offcurve"] = int(min(max(max(abs(p.Z - 0.3) for p in pts), err) / 1e-9, 10**9))
            rec["exc"] = ""
        except Exception as e:  # noqa
            rec["out"] = [-999]
            rec["offcurve"] = 0
            rec["exc"] = "%s: %s" % (type(e).__name__, str(e)[:120])
        out.append(rec)
    with open(sys.argv[2], "w") as fh:
        json.dump(out, fh)


if __name__ == "__main__":
    main()
