"""S->C / C->S driver for Lifecycle.tla, regrid alphabet (C15): executes a history of
BuildMesh / CalculateRZ / Redistribute(s) / Geometry on real objects in one interpreter and dumps
positions and geometry at the end.

usage: lifecycle_regrid.py <job.json> <outdir>
job: {base: campaign-style config, settings: {name: dict}, build_with: name, history: [[action, arg], ...]}
"""
import json
import os
import sys
import time
import traceback
import warnings

import numpy as np

from harness import equilibria as E
from harness.drivers.gridrun import build_equilibrium

FIELDS = ["hy", "dphidy", "zShift", "poloidal_distance", "Bpxy", "Btxy", "psixy", "g11", "g22", "g33", "g12", "g13", "g23", "g_11", "g_22", "g_33", "g_12", "g_23", "J",
          "bxcvx", "bxcvy", "bxcvz", "ShiftTorsion"]


def dump(mesh, path):
    arrs = {}
    for i, r in mesh.regions.items():
        for nm in ["Rxy", "Zxy"] + FIELDS:
            a = getattr(r, nm, None)
            if a is None:
                continue
            for loc in ("centre", "xlow", "ylow", "corners"):
                if getattr(a, "_%s_array" % loc, None) is not None:
                    arrs["r%d_%s_%s" % (i, nm, loc)] = np.array(getattr(a, loc))
    np.savez(path, **arrs)


def main():
    warnings.simplefilter("ignore")
    with open(sys.argv[1]) as fh:
        job = json.load(fh)
    outdir = sys.argv[2]
    os.makedirs(outdir, exist_ok=True)
    from hypnotoad.core.mesh import BoutMesh

    cfg = json.loads(json.dumps(job["base"]))
    cfg["options"].update(job["settings"][job["build_with"]])
    t0 = time.time()
    events = []
    status = {"events": events}
    try:
        eq, opts, _ = build_equilibrium(cfg)
        with E.quiet():
            mesh = BoutMesh(eq, opts)
        events.append({"ev": "BuildMesh", "arg": job["build_with"], "out": "ok", "exc": ""})
        def other_options():
            # every holder of the settings that are NOT non-orthogonal ones: the mesh, the equilibrium, every equilibrium region and mesh region
            h = {"mesh": dict(mesh.user_options), "eq": dict(eq.user_options)}
            for nm, er in eq.regions.items():
                h["eqreg:" + nm] = dict(er.user_options)
            for i, r in mesh.regions.items():
                h["meshreg:%d" % i] = dict(r.user_options)
                h["meshreg_er:%d" % i] = dict(r.equilibriumRegion.user_options)
            return h

        before = other_options()
        for act, arg in job["history"]:
            try:
                with E.quiet():
                    if act == "CalculateRZ":
                        mesh.calculateRZ()
                    elif act == "Geometry":
                        mesh.geometry()
                    elif act == "Redistribute":
                        mesh.redistributePoints(dict(job["settings"][arg]))
                    else:
                        raise ValueError(act)
                events.append({"ev": act, "arg": arg or "", "out": "ok", "exc": ""})
            except BaseException as e:  # noqa  (func_timeout.FunctionTimedOut is a BaseException)
                events.append({"ev": act, "arg": arg or "", "out": "refused", "exc": "%s: %s" % (type(e).__name__, str(e)[:120])})
        after = other_options()
        status["user_options_unchanged"] = 1 if after == before else 0
        status["user_options_changed_in"] = sorted(k for k in before if after.get(k) != before[k])
        status["final_nonorth"] = {k: (v if isinstance(v, (int, float, str, bool)) or v is None else repr(v)) for k, v in dict(eq.nonorthogonal_options).items()}
        if events and events[-1]["ev"] == "Geometry" and events[-1]["out"] == "ok":
            dump(mesh, os.path.join(outdir, "final.npz"))
            status["dumped"] = 1
        else:
            status["dumped"] = 0
        mesh.parallel_map = None
    except BaseException as e:  # noqa
        status["fatal"] = "%s: %s" % (type(e).__name__, str(e)[:300])
        status["traceback"] = traceback.format_exc()[-2000:]
    status["wall_s"] = round(time.time() - t0, 1)
    with open(os.path.join(outdir, "status.json"), "w") as fh:
        json.dump(status, fh)


if __name__ == "__main__":
    main()
