"""S->C / C->S driver for ContourPrim.tla: the reachable graph TLC dumped is compared, state by state, with what the REAL
PsiContour does.  For every state (points, startInd, endInd) the real object is built, every operation of the specification is
applied to a fresh copy, and the real successors are returned; the caller compares them with the specification's edges.

usage: contour_graph.py <nodes.json> <out.json>
nodes: [{"id": .., "p": [...], "s": int, "e": int}]
out:   [{"id": .., "succ": {"insert:<i>": [p, s, e], "extlo": .., "extup": .., "reverse": ..}}]
Positions are in units of U metres along a straight flux surface R = R0 of psi(R, Z) = R."""
import json
import sys
import warnings

import numpy as np

from hypnotoad.core.equilibrium import PsiContour, Point2D

U = 1e-3
R0 = 1.0


def psi(R, Z):
    return R + 0.0 * Z


def mk(p, s, e):
    c = PsiContour(points=[Point2D(R0, v * U) for v in p], psival=R0, settings={}, Rrange=(0.1, 3.0), Zrange=(-60.0, 60.0))
    c.startInd, c.endInd = s, e
    return c


def proj(c):
    return [[int(round(pt.Z / U)) for pt in c], int(c.startInd), int(c.endInd)]


def insert_val(p, i, gap):
    d = 1 if p[1] > p[0] else -1
    n = len(p)
    if i < 0:
        i = max(0, i + n)
    i = min(i, n)
    if i <= 0:
        return p[0] - (gap // 4) * d
    if i >= n:
        return p[-1] + (gap // 4) * d
    return (p[i - 1] + p[i]) // 2


def main():
    warnings.simplefilter("ignore")
    with open(sys.argv[1]) as fh:
        nodes = json.load(fh)
    out = []
    for nd in nodes:
        p, s, e, gap = nd["p"], nd["s"], nd["e"], nd["gap"]
        succ = {}
        n = len(p)
        for i in range(-n - 1, n + 2):
            c = mk(p, s, e)
            try:
                c.insert(i, Point2D(R0, insert_val(p, i, gap) * U))
                succ["insert:%d" % i] = proj(c)
            except Exception as ex:  # noqa
                succ["insert:%d" % i] = ["raised", type(ex).__name__, 0]
        for name, kw in (("extlo", dict(extend_lower=1, ds_lower=gap * U)), ("extup", dict(extend_upper=1, ds_upper=gap * U))):
            c = mk(p, s, e)
            try:
                c.temporaryExtend(psi=psi, **kw)
                succ[name] = proj(c)
            except Exception as ex:  # noqa
                succ[name] = ["raised", type(ex).__name__, 0]
        if e >= 0:
            c = mk(p, s, e)
            try:
                c.reverse()
                succ["reverse"] = proj(c)
            except Exception as ex:  # noqa
                succ["reverse"] = ["raised", type(ex).__name__, 0]
        out.append({"id": nd["id"], "succ": succ})
    with open(sys.argv[2], "w") as fh:
        json.dump(out, fh)


if __name__ == "__main__":
    main()
