"""Core plumbing shared by every check: paths, tree hash, cache, subprocess
helpers, verdict collection, known-findings filter, evidence writing.

Exit codes: 0 held on everything explored (possibly with KNOWN-FINDING lines),
1 violation not listed in known_findings.json, 2 machinery failure.
"""
import fcntl
import hashlib
import json
import os
import re
import shutil
import signal
import subprocess
import sys
import time

VERIF = os.path.dirname(os.path.dirname(os.path.abspath(__file__)))
REPO = os.environ.get("VERIF_REPO", "/repo")
PY = "/venv/bin/python"
DEPS = os.path.join(VERIF, ".deps")
CACHE = os.path.join(VERIF, ".cache")
SPEC = os.path.join(VERIF, "spec")
GUARD = "HYPNOTOAD_VERIF"
NCPU = os.cpu_count() or 4

if DEPS not in sys.path:
    sys.path.append(DEPS)


class MachineryError(Exception):
    pass


# --------------------------------------------------------------------------
# tree hash / cache
# --------------------------------------------------------------------------
_treehash = None


def treehash():
    """SHA-256 over every source-like file under REPO (content and path)."""
    global _treehash
    if _treehash is not None:
        return _treehash
    h = hashlib.sha256()
    files = []
    for root, dirs, fs in os.walk(REPO):
        dirs[:] = sorted(
            d for d in dirs if d not in (".git", "__pycache__") and not d.endswith(".egg-info")
        )
        for f in sorted(fs):
            if f.endswith((".py", ".yaml", ".yml", ".cfg", ".toml")):
                files.append(os.path.join(root, f))
    for p in files:
        h.update(os.path.relpath(p, REPO).encode())
        with open(p, "rb") as fh:
            h.update(hashlib.sha256(fh.read()).digest())
    # the harness that produces cached artefacts is part of the key
    for root, dirs, fs in os.walk(os.path.join(VERIF, "harness")):
        dirs[:] = sorted(d for d in dirs if d != "__pycache__")
        for f in sorted(fs):
            if f.endswith(".py"):
                p = os.path.join(root, f)
                h.update(os.path.relpath(p, VERIF).encode())
                with open(p, "rb") as fh:
                    h.update(hashlib.sha256(fh.read()).digest())
    _treehash = h.hexdigest()[:20]
    return _treehash


def cachedir(*parts, create=True):
    d = os.path.join(CACHE, treehash(), *parts)
    if create:
        os.makedirs(d, exist_ok=True)
    return d


def prune_cache(keep=3):
    """Keep only the most recently used tree-hash directories."""
    if not os.path.isdir(CACHE):
        return
    cur = treehash()
    ents = []
    for e in os.listdir(CACHE):
        p = os.path.join(CACHE, e)
        if os.path.isdir(p) and re.fullmatch(r"[0-9a-f]{20}", e) and e != cur:
            ents.append((os.path.getmtime(p), p))
    ents.sort(reverse=True)
    for _, p in ents[keep - 1:]:
        shutil.rmtree(p, ignore_errors=True)


def scratch(name):
    d = os.path.join(CACHE, "tmp", "%s.%d" % (name, os.getpid()))
    shutil.rmtree(d, ignore_errors=True)
    os.makedirs(d)
    return d


class FileLock:
    def __init__(self, path):
        self.path = path

    def __enter__(self):
        os.makedirs(os.path.dirname(self.path), exist_ok=True)
        self.fh = open(self.path, "w")
        fcntl.flock(self.fh, fcntl.LOCK_EX)
        return self

    def __exit__(self, *a):
        fcntl.flock(self.fh, fcntl.LOCK_UN)
        self.fh.close()


# --------------------------------------------------------------------------
# subprocess helpers
# --------------------------------------------------------------------------
def repo_env(extra=None, hooks=True):
    env = dict(os.environ)
    env["PYTHONPATH"] = REPO + os.pathsep + VERIF + os.pathsep + DEPS
    env["PYTHONHASHSEED"] = "0"
    env["PYTHONDONTWRITEBYTECODE"] = "1"
    env["OMP_NUM_THREADS"] = "1"
    env["OPENBLAS_NUM_THREADS"] = "1"
    env["MKL_NUM_THREADS"] = "1"
    env["MPLBACKEND"] = "Agg"
    if hooks:
        env[GUARD] = "1"
    else:
        env.pop(GUARD, None)
    if extra:
        env.update(extra)
    return env


def run_group(cmd, timeout, env=None, cwd=None, stdout_path=None, input_bytes=None):
    """Run cmd in its own session; kill the whole process group on timeout.
    Returns (returncode or None on timeout, stdout text, stderr text)."""
    out_fh = open(stdout_path, "wb") if stdout_path else subprocess.PIPE
    p = subprocess.Popen(
        cmd,
        stdout=out_fh,
        stderr=subprocess.PIPE if not stdout_path else subprocess.STDOUT,
        stdin=subprocess.PIPE if input_bytes is not None else subprocess.DEVNULL,
        env=env,
        cwd=cwd,
        start_new_session=True,
    )
    try:
        out, err = p.communicate(input=input_bytes, timeout=timeout)
        rc = p.returncode
    except subprocess.TimeoutExpired:
        rc = None
        out, err = b"", b""
    finally:
        try:
            os.killpg(p.pid, signal.SIGKILL)
        except (ProcessLookupError, PermissionError):
            pass
        if rc is None:
            try:
                p.wait(timeout=5)
            except Exception:
                pass
    if stdout_path:
        out_fh.close()
        with open(stdout_path, "rb") as fh:
            out = fh.read()
        err = b""
    return rc, (out or b"").decode(errors="replace"), (err or b"").decode(errors="replace")


def parallel_jobs(jobs, nproc=None):
    """jobs: list of callables; run in threads (each is expected to spawn a subprocess)."""
    from concurrent.futures import ThreadPoolExecutor

    nproc = nproc or NCPU
    with ThreadPoolExecutor(max_workers=nproc) as ex:
        return list(ex.map(lambda j: j(), jobs))


# --------------------------------------------------------------------------
# verdicts
# --------------------------------------------------------------------------
class Verdict:
    """Collects violations/known findings and coverage counters for one property run."""

    def __init__(self, pid, tier, seed, level):
        self.pid = pid
        self.tier = tier
        self.seed = seed
        self.level = level
        self.t0 = time.time()
        self.violations = []  # (key, what, replay_payload)
        self.coverage = {
            "states": 0,
            "transitions": 0,
            "traces_validated_against_impl": 0,
            "evaluations": 0,
            "samples": [],
        }
        self.nontrivial = set()
        self.rule = ""
        self.assumptions = []
        self.notes = {}
        self.machinery = []
        self.exhaustive = None

    # -- counters
    def add_tlc(self, res):
        self.coverage["states"] += res.distinct
        self.coverage["transitions"] += res.generated
        self.notes.setdefault("tlc_runs", []).append(res.summary())

    def add_traces(self, n):
        self.coverage["traces_validated_against_impl"] += n

    def add_eval(self, n=1):
        self.coverage["evaluations"] += n

    def add_case(self, key):
        self.nontrivial.add(key if isinstance(key, str) else json.dumps(key, sort_keys=True))

    def sample(self, s, cap=6):
        if len(self.coverage["samples"]) < cap:
            self.coverage["samples"].append(s)

    def note(self, k, v):
        self.notes[k] = v

    # -- violations
    def violation(self, key, what, replay=None):
        """key: canonical finding key, e.g. 'C08 clause=IntsOrdered topo=LSN ...'"""
        self.violations.append((key, what, replay))

    def fail_machinery(self, msg):
        self.machinery.append(msg)

    # -- finish
    def finish(self):
        known = load_known()
        unlisted = []
        printed = set()
        for key, what, replay in self.violations:
            k = match_known(known, self.pid, key)
            if k is not None:
                line = "KNOWN-FINDING: property=%s %s" % (self.pid, k["what"])
                if line not in printed:
                    print(line)
                    printed.add(line)
            else:
                unlisted.append((key, what, replay))
        # evidence
        cov = dict(self.coverage)
        cov["distinct_nontrivial"] = len(self.nontrivial)
        cov["rule"] = self.rule
        if self.exhaustive is not None:
            cov["exhaustive"] = bool(self.exhaustive)
        cov["explanation"] = self.notes.get("explanation", self.rule)
        cov["known_findings_matched"] = sorted(
            {k for k, _, _ in self.violations if match_known(known, self.pid, k) is not None}
        )
        cov["unlisted_violations"] = [k for k, _, _ in unlisted][:50]
        for k, v in self.notes.items():
            if k not in cov:
                cov[k] = v
        if not cov["samples"]:
            cov["samples"] = ["(no sample recorded)"]
        ev = {
            "property_id": self.pid,
            "tier": self.tier,
            "seed": int(self.seed),
            "level": self.level,
            "coverage": cov,
            "assumptions": self.assumptions,
            "wall_s": round(time.time() - self.t0, 2),
            "violations": len(unlisted),
        }
        write_evidence(self.pid, ev)
        if self.machinery:
            for m in self.machinery:
                print("MACHINERY-FAILURE property=%s %s" % (self.pid, m))
            return 2
        if unlisted:
            rdir = os.path.join(CACHE, "replay")
            os.makedirs(rdir, exist_ok=True)
            seen = set()
            for n, (key, what, replay) in enumerate(unlisted):
                if key in seen:
                    continue
                seen.add(key)
                h = hashlib.sha256(key.encode()).hexdigest()[:12]
                path = os.path.join(rdir, "%s_%s.json" % (self.pid, h))
                with open(path, "w") as fh:
                    json.dump({"property": self.pid, "key": key, "what": what, "replay": replay}, fh, indent=1, default=str)
                print("VIOLATION property=%s replay=%s" % (self.pid, path))
                print("  key: %s" % key)
                print("  what: %s" % what)
                if len(seen) >= 25:
                    break
            return 1
        return 0


def load_known():
    p = os.path.join(VERIF, "known_findings.json")
    if not os.path.exists(p):
        return []
    with open(p) as fh:
        return json.load(fh).get("findings", [])


def match_known(known, pid, key):
    for k in known:
        if k.get("property") != pid:
            continue
        if k.get("status", "known") != "known":
            continue  # 'fixed' entries suppress nothing
        if "key" in k and k["key"] == key:
            return k
        if "key_regex" in k and re.fullmatch(k["key_regex"], key):
            return k
    return None


_schema = None


def write_evidence(pid, ev):
    global _schema
    path = os.path.join(VERIF, "evidence", "%s.json" % pid)
    os.makedirs(os.path.dirname(path), exist_ok=True)
    try:
        import jsonschema

        if _schema is None:
            sp = "/root/.vp/EVIDENCE.schema.json"
            if not os.path.exists(sp):
                sp = os.path.join(VERIF, "harness", "EVIDENCE.schema.json")
            with open(sp) as fh:
                _schema = json.load(fh)
        jsonschema.validate(ev, _schema)
    except ImportError:
        pass
    tmp = path + ".tmp.%d" % os.getpid()
    with open(tmp, "w") as fh:
        json.dump(ev, fh, indent=1, default=str)
    os.replace(tmp, path)
