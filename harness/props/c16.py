"""C16 - equivariance under reflection and field reversal of the equilibrium."""
import copy
import json
import os

from .. import campaign, gridprops, tlc
from ..core import PY, VERIF, MachineryError, Verdict, repo_env, run_group, parallel_jobs


def run(tier, seed):
    v = Verdict("C16", tier, seed, "model_checking")
    v.rule = ("MC: Topology.tla MirrorConn (the reflected machine's connection table is the reflected table, region i <-> MirrorRegion(i)). "
              "C->S: pairs of complete grids - LSN/USN and LDN/UDN mirror images with mirrored per-region sizes, the symmetric CDN against itself, "
              "psi -> -psi (orthogonal and non-orthogonal), reverse_current, reverse_Bt, psi_divide_twopi - compared cell by cell by Trace_Grid.tla with the "
              "mirror index map, the documented integers of the mirrored topology and the sign table of the specification. A case is one pair.")
    v.assumptions = ["positions compared at 5e-7 m, fields at 1e-5 of their maximum; guard cells beyond the targets are a separate clause"]
    res = tlc.run_tlc("MC_Topology", "MC_Topology_quick.cfg", timeout=3600, check=False)
    v.add_tlc(res)
    if not res.ok:
        v.fail_machinery("MC_Topology did not pass")
    pairs = campaign.C16_PAIRS
    names = sorted({n for a, b, k in pairs for n in (a, b)})
    grids = campaign.ensure(names)
    traces = []
    jobs = []
    for n, (a, b, kind) in enumerate(pairs):
        (da, sa), (db, sb) = grids[a], grids[b]
        if (sa["outcome"] == "file") != (sb["outcome"] == "file"):
            # the transformed input is refused where the original is gridded (or the reverse): not the transformed grid
            v.add_case("pair %s/%s/%s (one refused)" % (a, b, kind))
            v.violation("C16 engine=gridpair clause=PairBothGenerate loc=generation pair=%s/%s/%s" % (a, b, kind),
                        "one configuration of the pair %s/%s is gridded and the other is refused: %s / %s" % (a, b, sa.get("exception", sa["outcome"]), sb.get("exception", sb["outcome"])),
                        {"pair": [a, b, kind], "outcomes": [sa["outcome"], sb["outcome"]], "exceptions": [sa.get("exception"), sb.get("exception")]})
            continue
        if sa["outcome"] != "file" or sb["outcome"] != "file":
            v.note("refused_%s_%s" % (a, b), [sa.get("exception"), sb.get("exception")])
            continue
        outp = os.path.join(da, "gt_C16_%s_%s.json" % (b, kind))

        def job(da=da, db=db, kind=kind, outp=outp, a=a, b=b, n=n):
            rc, out, err = run_group([PY, "-B", os.path.join(VERIF, "harness/project.py"), da, "C16", "--pair", db, kind, outp], timeout=900, env=repo_env())
            if rc != 0 or not os.path.exists(outp):
                raise MachineryError("pair projection failed %s %s\n%s" % (a, b, (out + err)[-2000:]))
            with open(outp) as fh:
                t = json.load(fh)
            t["id"] = n + 1
            t["pair"] = "%s/%s/%s" % (a, b, kind)
            return t

        jobs.append(job)
    traces = parallel_jobs(jobs)
    failed, results = gridprops.validate(traces, "C16")
    for r in results:
        v.add_tlc(r)
    v.add_traces(len(traces))
    for t in traces:
        v.add_case("pair " + t["pair"])
        v.add_eval(t["NX"] * t["NY"] * (len(t.get("scnames", ())) + 6))
        for cl, loc in sorted(failed.get(t["id"], ())):
            if gridprops.clause_prop(cl) != "C16":
                continue
            v.violation("C16 engine=gridpair clause=%s loc=%s pair=%s" % (cl, loc, t["pair"]), "clause %s (%s) fails for the pair %s" % (cl, loc, t["pair"]),
                        {"pair": t["pair"], "clause": cl})
    v.note("pairs", {"validated": [t["pair"] for t in traces], "clauses_failed": sorted({c for s in failed.values() for c, _ in s if gridprops.clause_prop(c) == "C16"})})
    if len(traces) < 4:
        v.fail_machinery("coverage floor: only %d pairs generated" % len(traces))
    full = [t for t in traces if "B" in t]      # (a trace whose file lacks a variable carries `missing' instead)
    if full:
        v.sample({"engine": "C->S grid pair", "pair": full[0]["pair"], "intsA": full[0]["ints"], "intsB": full[0]["B"]["ints"]})
    clean = [t for t in traces if t["kind"] == "mirror" and not any(gridprops.clause_prop(c) == "C16" and c != "PairPositionsGuardCells" for c, _ in failed.get(t["id"], ()))]
    if clean:
        a = copy.deepcopy(clean[0]); a["id"] = 9001
        a["pos"]["B"]["Zc"] = [[-z for z in row] for row in a["pos"]["B"]["Zc"]]
        mf, _ = gridprops.validate([a], "C16mut")
        ok = any(c == "PairPositions" for c, _ in mf.get(9001, ()))
        v.note("binding_selftest", {"mutants": 1, "rejected_with_expected_clause": int(ok)})
        if not ok:
            v.fail_machinery("binding self-test failed %s" % mf)
    v.exhaustive = False
    return v
