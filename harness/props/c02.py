"""C02 - metric tensor and Jacobian are the field-aligned metric, self-consistent."""
import copy

from .. import gridprops, tlc
from ..core import Verdict


def run(tier, seed):
    v = Verdict("C02", tier, seed, "model_checking")
    v.rule = ("MC: Metric.tla - the closed forms are mutually inverse etc. on an exact rational lattice. S->C: every lattice point through the real "
              "calcMetric on a stub region, compared with TLC's rationals. C->S: every campaign grid: inverse, Jacobian, closed forms, "
              "g_23 = g_33 d(zShift)/dy, displacement scalar products, evaluated by Trace_Grid.tla at every index of centre/xlow/ylow. "
              "MLA.tla (which locations a MultiLocationArray expression has; reads create zero-filled locations): reachable graph compared state by state with the real class.")
    v.assumptions = ["closed-form right-hand sides for the grid traces are evaluated in floating point from the file's own R, Bp, Bt, hy, beta",
                     "discretisation relations (displacements, zShift differences) are accepted within a factor 3 (finite displacements on coarse grids) with exact sign"]
    from . import c02_metric, mla
    c02_metric.run(v, tier, seed)
    mla.run(v, "C02")          # the container every metric expression is evaluated through
    traces, failed = gridprops.run(v, "C02", tier)
    clean = [t for t in traces if not any(gridprops.clause_prop(c) == "C02" for c, _ in failed.get(t["id"], ()))]
    if clean:
        a = copy.deepcopy(clean[0]); a["id"] = 9001
        for p in a["pairs"]:
            if p["clause"] == "ClosedForm_g11" and p["loc"] == "centre":
                p["a"][1][1] = -p["a"][1][1]
        mf, _ = gridprops.validate([a], "C02mut")
        ok = ("ClosedForm_g11", "centre") in mf.get(9001, ())
        v.note("binding_selftest", {"mutants": 1, "rejected_with_expected_clause": int(ok)})
        if not ok:
            v.fail_machinery("binding self-test failed: %s" % mf)
    v.exhaustive = False
    return v
