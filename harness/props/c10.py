"""C10 - poloidal spacing: end-point exact, monotone, resolution-consistent."""
import copy
import json
import os
import re
import shutil

import numpy as np

from .. import campaign, gridprops, tlc
from ..core import PY, VERIF, NCPU, MachineryError, Verdict, repo_env, run_group, scratch, parallel_jobs
from . import c15

C10_CLAUSES = ("SpacingParam_", "ZeroAtZero", "LAtN", "StrictlyIncreasing", "EndGradientsAsRequested", "IncreasingOverGuardCells", "EndPointsFixed")


def judge(recs, d, tag):
    tf = os.path.join(d, tag + "_tr.json")
    with open(tf, "w") as fh:
        json.dump({"traces": recs}, fh)
    res = tlc.run_tlc("PolSpacing", "Trace_PolSpacing.cfg", workers=1, timeout=1800, env_extra={"TRACE_FILE": tf}, check=False, heap="4g")
    if not res.ok or res.distinct != 2 * len(recs):
        raise MachineryError("Trace_PolSpacing failed (violated=%s, %d states for %d traces)\n%s" % (res.violated, res.distinct, len(recs), res.out[-2000:]))
    failed = {}
    for m in re.finditer(r'<<\s*"CLAUSE-FAILED",\s*"(\w+)",\s*(\d+)\s*>>', res.out):
        failed.setdefault(int(m.group(2)), set()).add(m.group(1))
    return failed, res


def ends_records(tier, d, v):
    """region end points before / after redistribution, from the lifecycle driver's dumps"""
    base = campaign.CONFIGS["lsn_nonorth"]
    sets = c15.settings_for(base)
    R, C, G = c15.R, c15.C, c15.G
    hs = [[R("B"), G], [C, R("BP"), G], [R("P"), R("B"), G]]
    if tier == "thorough":
        hs += [[G, R("B"), G], [R("B"), R("A"), G], [C, R("Bx"), C, G], [R("BP"), R("P"), G]]
    jobs = {"fresh_A": {"base": base, "settings": sets, "build_with": "A", "history": [G]}}
    for n, h in enumerate(hs):
        jobs["h%02d" % n] = {"base": base, "settings": sets, "build_with": "A", "history": h}
    results = {n: (jd, st) for n, jd, st in c15.run_jobs(jobs, os.path.join(d, "ends"))}
    if not results["fresh_A"][1].get("dumped"):
        raise MachineryError("reference build failed: %s" % results["fresh_A"][1])
    A = np.load(os.path.join(results["fresh_A"][0], "final.npz"))
    q = 1e-9
    recs = []
    for n, (jd, st) in sorted(results.items()):
        if n == "fresh_A" or not st.get("dumped"):
            continue
        Bz = np.load(os.path.join(jd, "final.npz"))
        regs = []
        moved = 0.0
        for k in sorted(A.files):
            m = re.match(r"r(\d+)_Rxy_ylow$", k)
            if not m:
                continue
            i = int(m.group(1))
            kz = "r%d_Zxy_ylow" % i
            regs.append({"id": i, "A": {"R": np.rint(A[k] / q).astype(int).tolist(), "Z": np.rint(A[kz] / q).astype(int).tolist()},
                         "B": {"R": np.rint(Bz[k] / q).astype(int).tolist(), "Z": np.rint(Bz[kz] / q).astype(int).tolist()}})
            moved = max(moved, float(np.max(np.hypot(A[k] - Bz[k], A[kz] - Bz[kz]))))
        recs.append({"kind": "ends", "topo": base["topo"], "G": base["G"], "regions": regs, "tol": 100, "history": [[a[0], a[1] or ""] for a in jobs[n]["history"]], "raised": 0,
                     "interior_moved_m": moved})
    return recs


def run(tier, seed):
    v = Verdict("C10", tier, seed, "model_checking")
    v.rule = ("MC: PolSpacing.tla - in every topology the ends of a region at an X-point take the X-point option and no wall option, wall ends the option of "
              "their own leg, and the two regions joined at an X-point read the same option for every spacing parameter (JoinContinuity). "
              "C->S (functions): getSpacings of every region of LSN/USN/CDN/LDN/UDN with every option set to a distinct sentinel is compared with the "
              "specification's Param table; the sqrt / monotonic / linear constructors are called on a lattice of (L, N, N_norm, end kinds, end parameters), "
              "passed through the code's own _checkMonotonic, and Trace_PolSpacing judges s(0)=0, s(N)=L, strict increase on 0..N and on the guard-cell "
              "extension, and the end gradients by a one-sided difference in the normalised index; raising is an accepted outcome. "
              "C->S (grids): Trace_Grid clauses PoloidalOrderStrict (steps face->centre->face projected on the oracle's tangent are all positive, guard cells included), "
              "PoloidalDistanceStrict, and for pairs (ny, 2ny) NestedFaces: every y-face, corner and cell centre of the coarse grid is a y-face of the fine one "
              "(1e-7 m); EndPointsFixed: end points of every region contour before/after redistributePoints histories (1e-7 m). A case is one function, region, grid or pair.")
    v.assumptions = ["end gradients are measured with a step of 1e-7 in the normalised index (tolerance 1e-3 relative, 3e-3 for the sqrt form)",
                     "the tangent of a flux surface comes from the analytic psi of the harness equilibria"]
    r0 = tlc.run_tlc("PolSpacing", "MC_PolSpacing.cfg", timeout=900, check=False)
    v.add_tlc(r0)
    if not r0.ok and r0.violated is None:
        v.fail_machinery("TLC did not complete: %s" % r0.out[-1500:])
    elif not r0.ok:
        v.violation("C10 engine=mc violated=%s" % r0.violated, "PolSpacing.tla violates %s" % r0.violated, {"tlc_tail": r0.out[-2000:]})
    d = scratch("c10")
    outp = os.path.join(d, "ps.json")
    env = repo_env()
    env["MPLBACKEND"] = "Agg"
    rc, out, err = run_group([PY, "-B", os.path.join(VERIF, "harness/drivers/polspacing_run.py"), outp, tier], timeout=3000, env=env)
    if rc != 0 or not os.path.exists(outp):
        raise MachineryError("polspacing_run failed rc=%s\n%s" % (rc, (out + err)[-2000:]))
    with open(outp) as fh:
        recs = json.load(fh)
    recs += ends_records(tier, d, v)
    for k, r in enumerate(recs):
        r["id"] = k + 1
    failed, res = judge(recs, d, "ps")
    v.add_tlc(res)
    v.add_traces(len(recs))
    nraised = 0
    for r in recs:
        if r["kind"] == "params":
            desc = "getSpacings topo=%s region=%s" % (r["topo"], r["region"])
            v.add_eval(14)
        elif r["kind"] == "func":
            desc = "sfunc method=%s kinds=%s L=%s N=%s N_norm=%s lower=%s upper=%s" % (r["method"], r["kinds"], r["L"], r["N"], r["N_norm"], r["pl"], r["pu"])
            v.add_eval(len(r["s"]) + 8)
            nraised += r["raised"]
        else:
            desc = "region ends after history %s" % " ".join("%s(%s)" % (a[0][0], a[1] or "") for a in r["history"])
            v.add_eval(sum(2 * len(g["A"]["R"]) for g in r["regions"]))
        v.add_case(desc)
        for cl in sorted(failed.get(r["id"], ())):
            v.violation("C10 engine=func clause=%s %s" % (cl, desc), "clause %s fails for %s" % (cl, desc), {k: r[k] for k in r if k not in ("regions", "options", "values")})
    v.note("functions", {"params": sum(1 for r in recs if r["kind"] == "params"), "functions": sum(1 for r in recs if r["kind"] == "func"),
                         "refused_by_code": nraised, "end_histories": sum(1 for r in recs if r["kind"] == "ends"),
                         "interior_moved_m": [round(r["interior_moved_m"], 6) for r in recs if r["kind"] == "ends"]})
    if not any(r["kind"] == "ends" and r["interior_moved_m"] > 1e-5 for r in recs):
        v.fail_machinery("no redistribution history moved an interior point: the EndPointsFixed clause would be vacuous")
    fn = [r for r in recs if r["kind"] == "func" and not r["raised"]]
    if fn:
        v.sample({"engine": "C->S function", "case": {k: fn[0][k] for k in ("method", "kinds", "L", "N", "N_norm", "pl", "pu")}, "s_over_L_1e9": fn[0]["s"], "endg": fn[0]["endg"]})
    # binding self-tests: a plateau, a shifted end value and a swapped option must each be rejected with the expected clause
    muts = []
    if fn:
        a = copy.deepcopy(fn[0]); a["id"] = 1; a["s"][2] = a["s"][1]; muts.append((a, "StrictlyIncreasing"))
        b = copy.deepcopy(fn[0]); b["id"] = 2; b["s"][-1] -= 50; muts.append((b, "LAtN"))
        c = copy.deepcopy(fn[0]); c["id"] = 3; c["ext_ok"] = 0; muts.append((c, "IncreasingOverGuardCells"))
    pr = [r for r in recs if r["kind"] == "params" and r["values"]["sqrt_a"]["lower"] != r["values"]["sqrt_a"]["upper"]]
    if pr:
        e = copy.deepcopy(pr[0]); e["id"] = 4
        e["values"]["sqrt_a"]["lower"], e["values"]["sqrt_a"]["upper"] = e["values"]["sqrt_a"]["upper"], e["values"]["sqrt_a"]["lower"]
        muts.append((e, "SpacingParam_sqrt_a"))
    en = [r for r in recs if r["kind"] == "ends"]
    if en:
        f = copy.deepcopy(en[0]); f["id"] = 5
        f["regions"][0]["B"]["R"][0][-1] += 5000
        f["regions"][0]["B"]["R"][0][0] += 5000
        muts.append((f, "EndPointsFixed"))
    mf, _ = judge([m for m, _ in muts], d, "mut")
    okm = sum(1 for m, cl in muts if cl in mf.get(m["id"], ()))
    v.note("binding_selftest", {"mutants": len(muts), "rejected_with_expected_clause": okm})
    if okm != len(muts):
        v.fail_machinery("binding self-test failed: %s" % mf)
    # ---- grids
    names = campaign.campaign(tier) + sorted({n for p in campaign.C10_PAIRS for n in p})
    names = list(dict.fromkeys(names))
    traces, gfailed = gridprops.run(v, "C10", tier, names=names)
    grids = campaign.ensure(names)
    pairs = campaign.C10_PAIRS if tier == "thorough" else campaign.C10_PAIRS[:3]
    jobs = []
    for n, (a, b) in enumerate(pairs):
        (da, sa), (db, sb) = grids[a], grids[b]
        if sa["outcome"] != "file" or sb["outcome"] != "file":
            v.note("refused_%s_%s" % (a, b), [sa.get("exception"), sb.get("exception")])
            continue
        op = os.path.join(d, "pair_%s.json" % a)

        def job(da=da, db=db, op=op, a=a, b=b, n=n):
            rc, out, err = run_group([PY, "-B", os.path.join(VERIF, "harness/project.py"), da, "C10", "--pair", db, "nested", op], timeout=900, env=repo_env())
            if rc != 0 or not os.path.exists(op):
                raise MachineryError("pair projection failed %s %s\n%s" % (a, b, (out + err)[-2000:]))
            with open(op) as fh:
                t = json.load(fh)
            t["id"] = 5000 + n
            t["pair"] = "%s/%s" % (a, b)
            return t

        jobs.append(job)
    ptraces = parallel_jobs(jobs)
    pfailed, results = gridprops.validate(ptraces, "C10p")
    for r in results:
        v.add_tlc(r)
    v.add_traces(len(ptraces))
    for t in ptraces:
        v.add_case("pair ny/2ny " + t["pair"])
        v.add_eval(t["NX"] * t["NY"] * 10)
        for cl, loc in sorted(pfailed.get(t["id"], ())):
            if gridprops.clause_prop(cl) != "C10":
                continue
            v.violation("C10 engine=gridpair clause=%s loc=%s pair=%s" % (cl, loc, t["pair"]), "clause %s (%s) fails for the pair %s" % (cl, loc, t["pair"]),
                        {"pair": t["pair"], "clause": cl})
    v.note("pairs", [t["pair"] for t in ptraces])
    if len(ptraces) < 2:
        v.fail_machinery("coverage floor: only %d nesting pairs generated" % len(ptraces))
    ptraces_ok = [t for t in ptraces if "pos" in t]      # (a trace whose file lacks a variable carries `missing' instead)
    if ptraces_ok:
        a = copy.deepcopy(ptraces_ok[0]); a["id"] = 9001
        row = a["pos"]["B"]["Rlo"][1]
        a["pos"]["B"]["Rlo"][1] = [x + 300 for x in row]
        mf2, _ = gridprops.validate([a], "C10mut")
        ok = any(c == "NestedFaces" for c, _ in mf2.get(9001, ()))
        sg = [t for t in traces if t["id"] not in gfailed]
        ok2 = True
        if sg:
            b = copy.deepcopy(sg[0]); b["id"] = 9002
            b["step"]["c2"][1][2] = 0
            mf3, _ = gridprops.validate([b], "C10mut2")
            ok2 = any(c == "PoloidalOrderStrict" for c, _ in mf3.get(9002, ()))
        v.note("binding_selftest_grid", {"mutants": 2, "rejected_with_expected_clause": int(ok) + int(ok2)})
        if not (ok and ok2):
            v.fail_machinery("grid binding self-test failed %s" % mf2)
    shutil.rmtree(d, ignore_errors=True)
    v.exhaustive = False
    return v
