"""C14 - deterministic, side-effect free, and reproducible from embedded inputs."""
import copy
import itertools
import json
import os
import re
import shutil

from .. import campaign, tlc
from ..core import PY, VERIF, NCPU, MachineryError, Verdict, repo_env, run_group, scratch, parallel_jobs

OPTSETS = {"plain": {}, "revcur": {"reverse_current": True}, "twopi": {"psi_divide_twopi": True}, "revbt": {"reverse_Bt": True}}
BASE = dict(nx_core=2, nx_pf=2, nx_sol=2, ny_inner_divertor=3, ny_sol=4, ny_outer_divertor=3, y_boundary_guards=1, psinorm_core=0.9, psinorm_sol=1.1, psinorm_pf=0.95,
            finecontour_Nfine=50, target_all_poloidal_spacing_length=0.3, xpoint_poloidal_spacing_length=0.05, psi_spacing_separatrix_multiplier=0.5, orthogonal=True)


def histories(tier):
    names = list(OPTSETS)
    hs = [[a] for a in names] + [[a, b] for a in names for b in names]
    # state left behind by an earlier equilibrium AND MESH in the same interpreter, built from other arrays (a different flux function) or
    # with other options, must not reach the file ("M" = build a mesh and its geometry without writing; "@I2" = the second array set)
    hs += [["plain", "M", "plain@I2"], ["plain@I2", "M", "plain"], ["revbt", "M", "plain@I2"], ["plain@I2"], ["plain", "M", "revbt"], ["plain@I2", "M", "plain@I2"]]
    if tier == "thorough":
        hs += [[a, b, c] for a in ("revcur", "twopi", "revbt") for b in names for c in ("plain", "revcur")]
        hs += [["revcur", "M", "plain@I2"], ["plain@I2", "M", "twopi"], ["plain", "M", "plain@I2", "M", "plain"]]
    return hs


def validate(traces, d):
    tf = os.path.join(d, "tr.json")
    with open(tf, "w") as fh:
        json.dump({"traces": traces}, fh)
    res = tlc.run_tlc("Trace_Build", "Trace_Build.cfg", workers=1, timeout=900, env_extra={"TRACE_FILE": tf}, check=False)
    if not res.ok:
        raise MachineryError("Trace_Build failed (violated=%s)\n%s" % (res.violated, res.out[-2500:]))
    failed = {}
    for m in re.finditer(r'<<\s*"CLAUSE-FAILED",\s*"(\w+)",\s*(\d+)\s*>>', res.out):
        failed.setdefault(int(m.group(2)), set()).add(m.group(1))
    return failed, res


def pad(t):
    t.setdefault("events", [{"ev": "none", "arg": "", "input": "", "out": "", "changed": 0, "which": "", "pristine": 0, "digest": 0}])
    t.setdefault("fresh", {"I1": {k: 0 for k in OPTSETS}, "I2": {k: 0 for k in OPTSETS}})
    t.setdefault("digests", [0])
    t.setdefault("rt", {"first_run": 0, "recreate": 0, "second_run": 0, "geqdsk_bytes_equal": 0, "yaml_safe_loads": 0, "yaml_complete": 0, "arrays_identical": 0, "max_abs_diff_q": 0, "tolq": 10})
    return t


def run(tier, seed):
    v = Verdict("C14", tier, seed, "model_checking")
    v.rule = ("MC: Lifecycle.tla - for all call histories up to 8 steps the intended design keeps CallerArraysUnchanged and Deterministic (mode 'AsFound' "
              "breaks them). C->S: (a) histories of one to two (thorough three) BuildEq calls with the option sets {plain, reverse_current, psi_divide_twopi, "
              "reverse_Bt}, all reusing the same caller arrays in one interpreter, then mesh, geometry, write: every BuildEq must leave the arrays unchanged and "
              "the file digest must equal the digest written by a fresh interpreter for the last option set; (b) campaign configurations regenerated in "
              "separate processes with another hash seed: bit-identical; (c) hypnotoad-geqdsk -> hypnotoad-recreate-inputs -> hypnotoad-geqdsk: geqdsk text "
              "byte-identical, YAML loads with safe_load and is accepted, second grid identical. A case is one history / repeat pair / round trip.")
    v.assumptions = ["digest = SHA-256 over the bytes of every numeric variable of the grid file (grid_id and version strings are attributes / text, not included)"]
    r1 = tlc.run_tlc("Lifecycle", "MC_Lifecycle_Intended.cfg", timeout=900, check=False)
    v.add_tlc(r1)
    if not r1.ok:
        v.violation("C14 engine=mc violated=%s" % r1.violated, "Lifecycle.tla (Intended) violates %s" % r1.violated, {"tlc_tail": r1.out[-2000:]})
    d = scratch("c14")
    hs = histories(tier)
    job_defs = {"fresh_" + n: [n] for n in OPTSETS}
    job_defs["fresh2_plain"] = ["plain@I2"]
    for k, h in enumerate(hs):
        job_defs["h%03d" % k] = h
    # the same through geqdsk files: every build of a history reads the ONE file the user works with, overwritten with the input of that build
    # (seed C14_geqdsk_cache_by_filename: parsed files cached by name); names g*: lifecycle_build's via = "gfile"
    ghs = [["plain"], ["plain@I2"], ["plain", "M", "plain@I2"], ["plain@I2", "M", "plain"], ["revbt", "plain@I2"], ["plain@I2", "plain@I2"], ["plain@I2", "revbt"]]
    job_defs.update({"gfresh_plain": ["plain"], "gfresh_revbt": ["revbt"], "gfresh2_plain": ["plain@I2"]})
    for k, h in enumerate(ghs):
        job_defs["g%03d" % k] = h

    def one(name, hist):
        jd = os.path.join(d, name)
        os.makedirs(jd, exist_ok=True)
        with open(os.path.join(jd, "job.json"), "w") as fh:
            json.dump({"optsets": OPTSETS, "base": BASE, "history": hist, "via": "gfile" if name.startswith("g") else "arrays"}, fh)
        rc, out, err = run_group([PY, "-B", os.path.join(VERIF, "harness/drivers/lifecycle_build.py"), os.path.join(jd, "job.json"), jd], timeout=900, env=repo_env())
        st = os.path.join(jd, "status.json")
        if not os.path.exists(st):
            if name.startswith("fresh") or name.startswith("gfresh"):
                raise MachineryError("lifecycle_build gave no status for %s rc=%s\n%s" % (name, rc, (out + err)[-1500:]))
            # a history that kills or hangs the interpreter is a finding about the history, not about the harness
            return name, {"events": [], "fatal": "no status written (rc=%s): %s" % (rc, (out + err)[-300:])}
        with open(st) as fh:
            return name, json.load(fh)

    def repeat(name):
        # regenerate a campaign grid in a separate process with a different hash seed, digest it, compare with the cached one
        cfg = campaign.CONFIGS[name]
        outs = []
        for k, hs_ in enumerate(("123", "777")):
            rd = os.path.join(d, "rep_%s_%d" % (name, k))
            os.makedirs(rd, exist_ok=True)
            with open(os.path.join(rd, "config.json"), "w") as fh:
                json.dump(cfg, fh)
            run_group([PY, "-B", os.path.join(VERIF, "harness/drivers/gridrun.py"), os.path.join(rd, "config.json"), rd], timeout=900, env=repo_env({"PYTHONHASHSEED": hs_}))
            code = "import sys; sys.path.insert(0, %r); from harness.drivers.lifecycle_build import file_digest; print(file_digest(%r))" % (VERIF, os.path.join(rd, "grid.nc"))
            rc, out, err = run_group([PY, "-B", "-c", code], timeout=120, env=repo_env())
            outs.append(int(out.strip().splitlines()[-1]) if rc == 0 and out.strip() else 0)
        return "rep:" + name, outs

    def roundtrip(mode="cli"):
        tag = "rt" if mode == "cli" else "rt_" + mode
        rd = os.path.join(d, tag)
        run_group([PY, "-B", os.path.join(VERIF, "harness/drivers/roundtrip_run.py"), rd, mode], timeout=1500, env=repo_env())
        st = os.path.join(rd, "status.json")
        if not os.path.exists(st):
            return tag, None
        with open(st) as fh:
            return tag, json.load(fh)

    jobs = [lambda n=n, h=h: one(n, h) for n, h in job_defs.items()]
    reps = ["lsn_orth", "lsn_nonorth"] if tier == "quick" else ["lsn_orth", "lsn_nonorth", "cdn_orth", "udn_nonorth"]
    jobs += [lambda n=n: repeat(n) for n in reps]
    jobs.append(roundtrip)
    jobs.append(lambda: roundtrip("regrid"))
    results = dict(parallel_jobs(jobs, nproc=max(2, NCPU - 2)))
    fresh1 = {}
    for n in OPTSETS:
        ev = results["fresh_" + n]["events"]
        fresh1[n] = ev[-1]["digest"] if ev and ev[-1]["ev"] == "Write" else 0
    ev = results["fresh2_plain"]["events"]
    fresh = {"I1": fresh1, "I2": dict({n: 0 for n in OPTSETS}, plain=ev[-1]["digest"] if ev and ev[-1]["ev"] == "Write" else 0)}
    if any(x == 0 for x in fresh1.values()) or fresh["I2"]["plain"] == 0:
        v.fail_machinery("a fresh reference build failed: %s %s %s" % (fresh, {n: results["fresh_" + n].get("fatal") for n in OPTSETS}, results["fresh2_plain"].get("fatal")))
        shutil.rmtree(d, ignore_errors=True)
        return v
    def gdig(n):
        ev = results[n]["events"]
        return ev[-1]["digest"] if ev and ev[-1]["ev"] == "Write" else 0

    gfresh = {"I1": dict({n: 0 for n in OPTSETS}, plain=gdig("gfresh_plain"), revbt=gdig("gfresh_revbt")), "I2": dict({n: 0 for n in OPTSETS}, plain=gdig("gfresh2_plain"))}
    if 0 in (gfresh["I1"]["plain"], gfresh["I1"]["revbt"], gfresh["I2"]["plain"]):
        v.fail_machinery("a fresh reference build through a geqdsk file failed: %s %s" % (gfresh, {n: results[n].get("fatal") or results[n].get("exc") for n in ("gfresh_plain", "gfresh_revbt", "gfresh2_plain")}))
        shutil.rmtree(d, ignore_errors=True)
        return v
    traces = []
    for n, st in sorted(results.items()):
        if n.startswith("gfresh") or n.startswith("fresh"):
            continue
        if (n.startswith("h") or n.startswith("g")) and (st.get("fatal") or not st["events"] or st["events"][-1]["ev"] != "Write"):
            # every build in these histories succeeds in a fresh interpreter, so a history that does not end in a written file broke
            # because of what happened before in the same interpreter
            v.add_case("history %s" % job_defs[n])
            v.violation("C14 engine=history clause=CompletesAsInFreshInterpreter history=%s" % "+".join(job_defs[n]),
                        "history %s does not end in a written grid although each of its builds succeeds on its own: %s" % (job_defs[n], st.get("fatal") or st.get("exc") or [e["ev"] for e in st["events"]]),
                        {"history": job_defs[n], "status": {k: st[k] for k in st if k != "events"}})
            continue
        if n.startswith("h") or n.startswith("g"):
            traces.append(pad({"id": len(traces) + 1, "kind": "history", "name": n, "events": st["events"], "fresh": gfresh if n.startswith("g") else fresh,
                               "history": job_defs[n] + (["via geqdsk file"] if n.startswith("g") else [])}))
    for n in reps:
        traces.append(pad({"id": len(traces) + 1, "kind": "repeat", "name": n, "digests": results["rep:" + n]}))
    rt = results["rt"]
    for tag, tolq in (("rt", 10), ("rt_regrid", 1000000)):      # 1e-11 / 1e-6 of each variable's largest value (quantum 1e-12)
        r1 = results[tag]
        if r1 is None:
            v.fail_machinery("round-trip driver (%s) gave no status" % tag)
        else:
            traces.append(pad({"id": len(traces) + 1, "kind": "roundtrip", "name": "roundtrip" if tag == "rt" else "roundtrip_after_regrid",
                               "rt": dict({k: r1[k] for k in ("first_run", "recreate", "second_run", "geqdsk_bytes_equal", "yaml_safe_loads", "yaml_complete", "arrays_identical", "max_abs_diff_q")}, tolq=tolq)}))
    send = [{k: t[k] for k in ("id", "kind", "events", "fresh", "digests", "rt")} for t in traces]
    failed, res = validate(send, d)
    v.add_tlc(res)
    want = sum((len(t["events"]) + 1) if t["kind"] == "history" else 2 for t in traces)
    if res.distinct != want:
        v.fail_machinery("Trace_Build consumed %d states, expected %d (a history contains a call the specification does not allow, e.g. a refused build)" % (res.distinct, want))
    v.add_traces(len(traces))
    for t in traces:
        v.add_case("%s %s" % (t["kind"], t.get("history", t["name"])))
        v.add_eval(len(t["events"]))
        for cl in sorted(failed.get(t["id"], ())):
            if t["kind"] == "history":
                opts = [e["arg"] for e in t["events"] if e["ev"] == "BuildEq" and e["changed"]]
                key = "C14 engine=history clause=%s options=%s" % (cl, "+".join(sorted(set(opts))) or "none")
                what = "history BuildEq%s then mesh/geometry/write in one interpreter: clause %s fails (arrays changed by: %s; digest %s, fresh digests %s)" % (
                    t["history"], cl, [(e["arg"], e["which"]) for e in t["events"] if e["ev"] == "BuildEq" and e["changed"]], t["events"][-1]["digest"], fresh)
            else:
                key = "C14 engine=%s clause=%s case=%s" % (t["kind"], cl, t["name"])
                what = "clause %s fails for %s: %s" % (cl, t["name"], t.get("digests") if t["kind"] == "repeat" else t.get("rt"))
            v.violation(key, what, {"trace": {k: t[k] for k in t if k != "fresh"}})
    v.note("c14", {"histories": len(hs), "repeats": reps, "roundtrip": rt, "roundtrip_after_regrid": results.get("rt_regrid"), "fresh_digests": fresh, "clauses_failed": sorted({c for s in failed.values() for c in s})})
    v.sample({"engine": "C->S build history", "history": traces[5]["history"], "events": [(e["ev"], e["arg"], e["changed"], e["digest"]) for e in traces[5]["events"]]})
    clean = [t for t in traces if t["kind"] == "history" and t["id"] not in failed]
    if clean:
        a = copy.deepcopy({k: clean[0][k] for k in ("id", "kind", "events", "fresh", "digests", "rt")}); a["id"] = 1
        a["events"][-1]["digest"] += 1
        b = copy.deepcopy({k: clean[0][k] for k in ("id", "kind", "events", "fresh", "digests", "rt")}); b["id"] = 2
        b["events"][0]["changed"] = 1
        mf, _ = validate([a, b], d)
        ok = ["Deterministic" in mf.get(1, ()), "CallerArraysUnchanged" in mf.get(2, ())]
        v.note("binding_selftest", {"mutants": 2, "rejected_with_expected_clause": sum(ok)})
        if not all(ok):
            v.fail_machinery("binding self-test failed: %s" % mf)
    shutil.rmtree(d, ignore_errors=True)
    v.exhaustive = False
    return v
