"""C03 - field and profile values at grid points agree with the equilibrium."""
import copy

from .. import gridprops, tlc
from ..core import Verdict


def run(tier, seed):
    v = Verdict("C03", tier, seed, "other")
    v.rule = ("C->S: every campaign grid; Br, Bz against centred differences of the equilibrium's psi at the file positions, |Bp|, one global Bp "
              "sign equal to the direction of Bp along increasing y at every cell, Bt against the analytic fpol the inputs were sampled from, "
              "B, pressure (profile in core regions, reflected about the separatrix in leg regions - the region classification comes from "
              "Topology.tla), scalars psi_axis/psi_bdry/Bt_axis against an independent critical-point search. A case is one generated grid.")
    v.notes["explanation"] = ("Trace validation: TLC (Trace_Grid.tla, which extends Topology.tla) decides at which indices each equality must hold "
                              "(core vs leg regions, one sign for all locations) and evaluates it on quantised integers; the expected values are "
                              "numerics (finite differences of the interpolant, analytic profiles), which is why the level is 'other'.")
    v.assumptions = ["finite differences (h=1e-5) of eq.psi define grad psi; analytic fpol/pressure define the profiles",
                     "bounds: 5e-6 relative for Br/Bz, 1e-4 relative for profile quantities (spline interpolation error of the 65-point profiles)"]
    res = tlc.run_tlc("MC_Topology", "MC_Topology_quick.cfg", timeout=3600, check=False)
    v.add_tlc(res)
    # (the GFILE grids are the same equilibria read through tokamak.read_geqdsk, where the file's simagx / sibdry and profile range enter)
    # the option variants (reverse_current, reverse_Bt, psi_divide_twopi: configurations of the C16 pairs) are judged against the profiles
    # of the input arrays too, not only against their partner grid
    from .. import campaign
    names = list(dict.fromkeys(campaign.campaign(tier) + ["r_revcur", "r_revbt", "r_twopi"] + campaign.GFILE_GRIDS))
    traces, failed = gridprops.run(v, "C03", tier, names=names)
    clean = [t for t in traces if not any(gridprops.clause_prop(c) == "C03" for c, _ in failed.get(t["id"], ())) and t.get("pairs")]
    if clean:
        a = copy.deepcopy(clean[0]); a["id"] = 9001
        for p in a["pairs"]:
            if p["clause"] == "BrIsDpsidZOverR" and p["loc"] == "centre":
                p["a"], = [[[-x for x in row] for row in p["a"]]]
        b = copy.deepcopy(clean[0]); b["id"] = 9002
        b["bpsign_all"]["ylow"][0][0] = -b["bpsign_all"]["ylow"][0][0]
        mf, _ = gridprops.validate([a, b], "C03mut")
        got = [("BrIsDpsidZOverR", "centre") in mf.get(9001, ()), any(c == "OneBpSign" for c, _ in mf.get(9002, ()))]
        v.note("binding_selftest", {"mutants": 2, "rejected_with_expected_clause": sum(got)})
        if not all(got):
            v.fail_machinery("binding self-test failed: %s" % mf)
    return v
