"""C18 - the psi interpolant reproduces the data; the exposed field functions are its derivatives."""
import copy
import json
import os
import random
import re
import shutil

from .. import tlc
from ..core import MachineryError, Verdict, scratch, parallel_jobs
from .c11 import run_driver

FUNCS = ["psi", "f_R", "f_Z", "Bp_R", "Bp_Z", "d2psidR2", "d2psidZ2", "d2psidRdZ", "Bzeta", "B2", "dBzetadR", "dBzetadZ", "dBRdR", "dBRdZ", "dBZdR", "dBZdZ",
         "dB2dR", "dB2dZ", "dBdR", "dBdZ"]
JET = ("pR", "pZ", "pRR", "pRZ", "pZZ")
SIZES_EXACT = [(9, 12), (14, 9), (8, 8), (21, 17), (5, 6)]
ARGKINDS = ["scalar", "array", "array2d", "mla"]
# interpolation error caps at interior points, relative to the range of psi / the largest gradient, scale 1e9: K * (h / L)^order with
# h the larger grid spacing and L = 0.3 m the width of the lobes of the analytic families; the constants leave a factor >= 5 over what
# was measured on the unchanged tree for every family and size of the campaign (DESIGN 11.21)
CAPS = {"spline": (4.0e9, 4), "dct": (1.5e8, 2), "gspline": (4.0e9, 3), "gdct": (4.0e8, 1)}


def caps(nR, nZ):
    h = max(1.0 / (nR - 1), 1.4 / (nZ - 1)) / 0.3
    return {"cap_" + k: int(min(2e9, K * h**o)) for k, (K, o) in CAPS.items()}


def make_cases(tier, seed):
    rng = random.Random(seed * 31 + 18)
    cases = []

    def add(c):
        c["id"] = len(cases) + 1
        cases.append(c)

    def exact(pt, k):
        nR, nZ = SIZES_EXACT[k % len(SIZES_EXACT)]
        c = {"kind": "exact", "pt": pt, "argkind": ARGKINDS[k % 4], "nR": nR, "nZ": nZ, "S": 100000 if pt["R"] < 3 else 10000,
             "Z0": [0.0, -0.5, 0.3][k % 3]}
        if k % 2:
            c["cubic"] = [round(rng.uniform(-1, 1), 2) for _ in range(4)]
            c["fquad"] = round(rng.uniform(-1, 1), 2)
        add(c)

    base = {"R": 1, "p": 0, "pR": 0, "pZ": 0, "pRR": 0, "pRZ": 0, "pZZ": 0, "F": 0, "Fp": 0}
    k = 0
    # one component at a time, both signs, with and without a toroidal field
    for R in (1, 2, 3):
        for F, Fp in ((0, 0), (2, 0), (-3, 2), (1, -1)):
            for comp in JET:
                for val in (-2, 1, 3):
                    for g in ((0, 0), (1, -2)):      # ... on top of a zero and a non-zero gradient
                        pt = dict(base, R=R, F=F, Fp=Fp, pR=g[0], pZ=g[1], p=k % 2)
                        pt[comp] = val
                        k += 1
                        if tier == "quick" and k % 3:
                            continue
                        exact(pt, k)
    for _ in range(500 if tier == "quick" else 6000):
        pt = {"R": rng.choice([1, 2, 3]), "p": rng.choice([0, 1, -2]), "F": rng.choice([-3, -1, 0, 2, 3]), "Fp": rng.choice([-2, -1, 0, 1, 3])}
        for comp in JET:
            pt[comp] = rng.choice([-3, -2, -1, 0, 1, 2, 3])
        k += 1
        exact(pt, k)
    fams = ["lsn", "cdn", "udn", "lsn_tilt", "poly3", "cosmode"]
    sizes = [(33, 33), (20, 31), (65, 40)] if tier == "quick" else [(33, 33), (20, 31), (65, 40), (65, 65), (129, 129), (12, 90), (50, 17)]
    for m in ("spline", "dct"):
        for fam in fams:
            for (nR, nZ) in sizes:
                add({"kind": "nodes", "method": m, "family": fam, "nR": nR, "nZ": nZ})
                for fp in (("quad",) if tier == "quick" and (nR, nZ) != sizes[0] else ("quad", "const", "none")):
                    add({"kind": "fd", "method": m, "family": fam, "nR": nR, "nZ": nZ, "fpol": fp, "npts": 60 if tier == "quick" else 200})
        # the amplitude of psi is arbitrary: weak fields (f = grad psi / |grad psi|^2 becomes large) and large flux units
        for fam in ("lsn", "poly3", "cosmode"):
            for amp in (1.0e-5, 1.0e3) if tier == "quick" else (1.0e-7, 1.0e-5, 1.0e-3, 1.0e3):
                for fp in ("quad", "none"):
                    add({"kind": "fd", "method": m, "family": fam, "nR": 33, "nZ": 41, "fpol": fp, "amp": amp, "npts": 60 if tier == "quick" else 200})
                add({"kind": "nodes", "method": m, "family": fam, "nR": 33, "nZ": 41, "amp": amp})
        # ... and through the real TokamakEquilibrium (psi increasing and decreasing outwards, with and without a toroidal field)
        for fam in ("lsn", "cdn", "udn") if tier == "quick" else ("lsn", "usn", "cdn", "udn", "ldn", "lsn_tilt"):
            for (nR, nZ) in [(65, 65), (40, 65)] if tier == "quick" else [(65, 65), (40, 65), (129, 129), (33, 33)]:
                for sign in (1.0, -1.0):
                    add({"kind": "nodes", "method": m, "family": fam, "nR": nR, "nZ": nZ, "eq": "tokamak", "psi_sign": sign})
                    for fp in ("quad", "none"):
                        add({"kind": "fd", "method": m, "family": fam, "nR": nR, "nZ": nZ, "eq": "tokamak", "psi_sign": sign, "fpol": fp,
                             "npts": 60 if tier == "quick" else 200})
    for fam in ("lsn", "cdn", "lsn_tilt", "cosmode"):
        for (nR, nZ) in [(33, 33), (20, 31), (41, 25)] if tier == "quick" else [(33, 33), (20, 31), (41, 25), (65, 65), (17, 65), (80, 30)]:
            add({"kind": "agree", "family": fam, "nR": nR, "nZ": nZ})
    pairs = [("scalar", "scalar"), ("array", "array"), ("array2d", "array2d"), ("mla", "mla"), ("mla", "scalar"), ("scalar", "mla"), ("mla", "array"), ("array2d", "mla"),
             # MultiLocationArrays that have only some of their locations (seeded change C18_mla_corners_guarded_by_ylow)
             ("mla:centre+corners", "mla:centre+corners"), ("mla:corners", "mla:corners"), ("mla:xlow", "mla:xlow"), ("mla:ylow+centre", "mla:ylow+centre")]
    for m in ("spline", "dct"):
        for fn in FUNCS:
            for a1, a2 in pairs:
                add({"kind": "shape", "method": m, "fn": fn, "a1": a1, "a2": a2, "nR": 20, "nZ": 23})
    # ... and through the real TokamakEquilibrium (psi decreasing and increasing outwards), same-kind argument pairs
    for m in ("spline", "dct"):
        for sign in (1.0, -1.0):
            for fn in FUNCS:
                for a in ("scalar", "array", "array2d", "mla", "mla:centre+corners", "mla:xlow"):
                    add({"kind": "shape", "method": m, "fn": fn, "a1": a, "a2": a, "nR": 65, "nZ": 65, "eq": "tokamak", "psi_sign": sign})
    return cases


def judge(recs, d, tag):
    nchunk = 8 if len(recs) > 200 else 1
    jobs = []
    for n in range(nchunk):
        ch = recs[n::nchunk]
        if not ch:
            continue
        tf = os.path.join(d, "%s_tr%d.json" % (tag, n))
        with open(tf, "w") as fh:
            json.dump({"traces": ch}, fh)

        def job(tf=tf, ch=ch):
            return tlc.run_tlc("Trace_Fields", "Trace_Fields.cfg", workers=1, timeout=1800, env_extra={"TRACE_FILE": tf}, check=False), ch

        jobs.append(job)
    failed, results = {}, []
    for res, ch in parallel_jobs(jobs, nproc=8):
        results.append(res)
        if not res.ok or res.distinct != 2 * len(ch):
            raise MachineryError("Trace_Fields failed (violated=%s, %d states for %d traces)\n%s" % (res.violated, res.distinct, len(ch), res.out[-2500:]))
        for m in re.finditer(r'<<\s*"CLAUSE-FAILED",\s*"(\w+)",\s*(\d+),\s*"(\w*)"\s*>>', res.out):
            failed.setdefault(int(m.group(2)), set()).add((m.group(1), m.group(3)))
    return failed, results


def describe(c):
    k = c["kind"]
    if k == "exact":
        return "exact argkind=%s" % c["argkind"]
    if k in ("nodes", "fd"):
        return "%s method=%s eq=%s family=%s n=%dx%d%s" % (k, c["method"], c.get("eq", "stub"), c["family"], c["nR"], c["nZ"],
                                                          (" fpol=%s" % c.get("fpol") if k == "fd" else "") + (" sign=%d" % c["psi_sign"] if "psi_sign" in c else "")
                                                          + (" amp=%g" % c["amp"] if "amp" in c else ""))
    if k == "agree":
        return "agree family=%s n=%dx%d" % (c["family"], c["nR"], c["nZ"])
    return "shape method=%s fn=%s args=%s,%s%s" % (c["method"], c["fn"], c["a1"], c["a2"], " eq=tokamak sign=%d" % c["psi_sign"] if c.get("eq") == "tokamak" else "")


def run(tier, seed):
    v = Verdict("C18", tier, seed, "model_checking")
    v.rule = ("MC: Fields.tla / FieldOps.tla - on a lattice of 2-jets of psi (4, thorough 5, values per derivative, 3-4 radii, fpol and fpol') TLC compares in exact "
              "rational arithmetic the closed forms the implementation evaluates for Bp, Bzeta, B^2 and their R/Z derivatives with the definition "
              "B = grad(psi) x grad(zeta) + fpol grad(zeta) differentiated by forward-mode dual numbers, and checks div B = 0, B.grad(psi) = 0, f.grad(psi) = 1, "
              "curl B = -Delta*psi/R, and the dispatch on argument kinds. S->C: the REAL functions are evaluated on polynomial flux functions with the lattice's "
              "integer jets (the spline reproduces them), the point given as scalar / 1-D / 2-D array / MultiLocationArray location, and TLC recomputes every value "
              "from FieldOps. C->S on smooth data, both interpolation methods, stub equilibria and real TokamakEquilibrium objects: nodes reproduced, every exposed "
              "derivative against a central difference of the exposed function it differentiates, div B = 0, every derived function against the specification's "
              "definition applied to the observed base quantities, agreement of the two methods with each other and the analytic function with the expected "
              "convergence orders, result kind and element-wise values for every function and argument-kind pair. A case is one lattice point, data set or call.")
    v.assumptions = ["the Python evaluator used for smooth data (harness/fields_eval.py) is compared with FieldOps.tla by TLC on every lattice point of the run (EvaluatorIsSpec)",
                     "central differences with step 1e-5 m: 1e-5 of the largest value is allowed (measured 4e-8); interpolation-error caps are K (h/0.3 m)^order with a "
                     "factor >= 5 over the measured errors; points within 20 steps of the boundary flux surface or of either end of the psi range on which the fpol profile was given (kinks of fpol: the profile is continued by its end values) are excluded for TokamakEquilibrium"]
    r0 = tlc.run_tlc("Fields", "MC_Fields.cfg" if tier == "quick" else "MC_Fields_thorough.cfg", workers=16, timeout=3400, check=False)
    v.add_tlc(r0)
    if not r0.ok and r0.violated is None:
        v.fail_machinery("TLC did not complete: %s" % r0.out[-1500:])
    elif not r0.ok:
        v.violation("C18 engine=mc violated=%s" % r0.violated, "Fields.tla violates %s" % r0.violated, {"tlc_tail": r0.out[-2000:]})
    d = scratch("c18")
    cases = make_cases(tier, seed)
    for c in cases:
        if c["kind"] == "agree":
            c.update(caps(c["nR"], c["nZ"]))
    recs = run_driver("fields_run.py", cases, d, "fl", timeout=3000)
    recs.sort(key=lambda r: r["id"])
    byid = {c["id"]: c for c in cases}
    errs = [r for r in recs if r.get("driver_error")]
    # a TokamakEquilibrium that the code refuses to build (explicit error) is not a case; anything else is a machinery failure
    refused = [r for r in errs if byid[r["id"]].get("eq") == "tokamak" and not r["driver_error"].startswith(("KeyError", "NameError", "AttributeError", "TypeError"))]
    errs = [r for r in errs if r not in refused]
    if errs:
        raise MachineryError("fields_run driver error: %s\n%s" % (errs[0]["driver_error"], errs[0].get("tb")))
    good = [r for r in recs if not r.get("driver_error")]
    for r in good:
        c = byid[r["id"]]
        if r["kind"] == "agree":
            r.update({k: c[k] for k in c if k.startswith("cap_")})
        if r["kind"] == "shape":
            r["a1"], r["a2"] = c["a1"].replace("array2d", "array").split(":")[0], c["a2"].replace("array2d", "array").split(":")[0]
    failed, results = judge(good, d, "fl")
    for res in results:
        v.add_tlc(res)
    v.add_traces(len(good))
    counts = {}
    for r in good:
        c = byid[r["id"]]
        counts[r["kind"]] = counts.get(r["kind"], 0) + 1
        v.add_case(describe(c) + " id=%d" % c["id"])
        v.add_eval({"exact": 38, "nodes": c["nR"] * c["nZ"], "fd": 37 * c.get("npts", 1), "agree": 800, "shape": 12}[r["kind"]])
        for cl, loc in sorted(failed.get(r["id"], ())):
            if r["kind"] == "exact":
                key = "C18 engine=exact clause=%s fn=%s argkind=%s" % (cl, loc, c["argkind"])
                msg = "clause %s (%s) fails at the lattice point %s (argument kind %s): observed %s" % (cl, loc, c["pt"], c["argkind"], r["obs"].get(loc, r.get("raised")))
            else:
                key = "C18 engine=%s clause=%s%s %s" % (r["kind"], cl, " fn=" + loc if loc else "", describe(c).split(" ", 1)[1])
                msg = "clause %s (%s) fails for %s: %s" % (cl, loc, describe(c), json.dumps({k: r[k] for k in r if k not in ("id", "kind")})[:600])
            v.violation(key, msg, {"case": c, "record": r, "clause": cl, "loc": loc})
    v.note("cases", {"generated": len(cases), "judged": counts, "tokamak_refused_by_code": len(refused),
                     "refusals": sorted({r["driver_error"][:80] for r in refused})[:5]})
    if counts.get("exact", 0) < 300 or counts.get("fd", 0) < 40 or counts.get("nodes", 0) < 30 or counts.get("shape", 0) < 600 or counts.get("agree", 0) < 10:
        v.fail_machinery("coverage floor not reached: %s" % counts)
    tok = [r for r in good if byid[r["id"]].get("eq") == "tokamak"]
    if len(tok) < 20:
        v.fail_machinery("coverage floor: only %d observations through TokamakEquilibrium (%d refused)" % (len(tok), len(refused)))
    # binding self-test: corrupt one recorded field per kind
    clean = [r for r in good if r["id"] not in failed]

    muts = []

    def mutant(kind, clause, change, pred=lambda r: True):
        """one corrupted copy of a record that passed (when the code under test fails every record of a kind there is none to corrupt)"""
        cand = [r for r in clean if r["kind"] == kind and pred(r)]
        if cand:
            m = copy.deepcopy(cand[0])
            m["id"] = len(muts) + 1
            change(m)
            muts.append((m, clause))

    mutant("exact", ("CodeIsSpec", "dBZdR"), lambda m: m["obs"].__setitem__("dBZdR", m["obs"]["dBZdR"] + 12))
    mutant("exact", ("EvaluatorIsSpec", "B2"), lambda m: m["ev"].__setitem__("B2", [m["ev"]["B2"][0] + 1, m["ev"]["B2"][1]]))
    mutant("nodes", ("NodesReproduced", ""), lambda m: m.__setitem__("dev", 5000))
    mutant("fd", ("DerivativeIsFiniteDifference", "dBzetadR"), lambda m: m["rel"]["dBzetadR"].__setitem__("res", 50000))
    mutant("fd", ("AlgebraIsSpec", "dB2dZ"), lambda m: m["alg"]["dB2dZ"].__setitem__("res", 50000))
    mutant("shape", ("DispatchAsSpec", ""), lambda m: m.__setitem__("result", "array"), lambda r: r["a1"] == "mla" and r["a2"] == "scalar")
    mutant("agree", ("SplineAccurate", ""), lambda m: m["fine"].__setitem__("err_spline", m["coarse"]["err_spline"] + 500))
    mutant("exact", ("CodeIsSpec", "d2psidR2"), lambda m: m.__setitem__("pt", dict(m["pt"], pRR=m["pt"]["pRR"] + 1)), lambda r: r["pt"]["pR"] != 0 and r["pt"]["pRR"] != 0)
    mf, _ = judge([m for m, _ in muts], d, "mut") if muts else ({}, None)
    okn = sum(1 for m, cl in muts if cl in mf.get(m["id"], ()))
    v.note("binding_selftest", {"mutants": len(muts), "rejected_with_expected_clause": okn})
    if okn != len(muts) or (not muts and not failed):
        v.fail_machinery("binding self-test failed: %s" % mf)
    for kind, eng in (("exact", "S->C exact"), ("fd", "C->S fd")):
        ok = [r for r in clean if r["kind"] == kind]
        if ok:
            v.sample({"engine": eng, "record": ok[0]})
    shutil.rmtree(d, ignore_errors=True)
    v.exhaustive = False
    return v
