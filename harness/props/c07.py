"""C07 - curvature outputs are the contravariant components of curl(b/B)."""
import copy
import json
import os
import re
import shutil

from .. import campaign, gridprops, tlc
from ..core import PY, VERIF, MachineryError, Verdict, repo_env, run_group, scratch, parallel_jobs
from . import c08

TOLPM = {2: 60000, 4: 45000, 8: 25000}


def validate_stencil(recs, tag):
    d = scratch("c07v_" + tag)
    nchunk = 12 if len(recs) > 40 else 1
    jobs = []
    for n in range(nchunk):
        ch = recs[n::nchunk]
        if not ch:
            continue
        tf = os.path.join(d, "tr%d.json" % n)
        with open(tf, "w") as fh:
            json.dump({"traces": ch}, fh)

        def job(tf=tf, ch=ch):
            return tlc.run_tlc("Trace_Stencil", "Trace_Stencil.cfg", workers=1, timeout=3000, env_extra={"TRACE_FILE": tf}, check=False), ch

        jobs.append(job)
    failed, results = {}, []
    for res, ch in parallel_jobs(jobs, nproc=12):
        results.append(res)
        if not res.ok or res.distinct != 5 * len(ch):
            raise MachineryError("Trace_Stencil failed (violated=%s, %d states for %d traces)\n%s" % (res.violated, res.distinct, len(ch), res.out[-2500:]))
        for m in re.finditer(r'<<\s*"CLAUSE-FAILED",\s*"(\w+)",\s*(\d+)(?:,\s*"(\w+)")?\s*>>', res.out):
            failed.setdefault(int(m.group(2)), set()).add((m.group(1), m.group(3) or ""))
    shutil.rmtree(d, ignore_errors=True)
    return failed, results


def run(tier, seed):
    v = Verdict("C07", tier, seed, "model_checking")
    v.rule = ("MC: StencilDefs.tla over all layouts of MC_Topology - the DDX / DDY stencils (centred differences, the neighbouring region's adjacent value across "
              "every join, the one-sided half-cell form at boundaries) differentiate the global radial half-index and the half-index along every chain of "
              "y-connected regions exactly. C->S (stencil): the REAL MeshRegion.DDX / DDY are run on an integer test field on stub meshes of every topology and "
              "size vector and TLC recomputes every output from the specification's stencil and neighbour relation. C->S (grids): on every campaign grid "
              "curl_bOverB_x/y/z at centre, xlow, ylow are compared with curl(b/B).grad(x/y/z) from an independent finite-difference oracle built from psi(R,Z) and "
              "fpol(psi) only, grad(y) taken from the grid (perpendicular to the radial grid direction, magnitude 1/(hy cos beta)); bxcv* = Bxy/2 * curl. "
              "For the pointwise form (curvature_type curl(b/B)) every output must also equal, to 2e-8 of its largest value, the specification's curl(b/B) "
              "(FieldOps!CurlDef: b/B = B/B^2 differentiated by dual numbers, model-checked against the closed form of calcCurvature in Fields.tla) of the "
              "equilibrium's own psi derivatives, fpol and fpol', projected on grad(x), grad(y), grad(z); the evaluator used for that is compared with "
              "FieldOps by TLC on a sample of lattice points in the same run. "
              "Pairs of orthogonal grids generated with the two curvature_type forms at three resolutions must agree within 6 / 4.5 / 2.5 per cent of the largest "
              "value away from the X-point rows. A case is one layout, grid or pair.")
    v.assumptions = ["the oracle differentiates the equilibrium object's own psi interpolant by 4th-order central differences (steps 1e-4 and 2e-3 m): 3e-3 / 5e-3 of the largest value is allowed",
                     "hy, Bpxy, Btxy entering grad(y) and grad(z) are read from the file (they are decided by C05 / C03)"]
    r0 = tlc.run_tlc("MC_Stencil", "MC_Stencil.cfg" if tier == "quick" else "MC_Stencil_thorough.cfg", timeout=3000, check=False)
    v.add_tlc(r0)
    if not r0.ok and r0.violated is None:
        v.fail_machinery("TLC did not complete: %s" % r0.out[-1500:])
    elif not r0.ok:
        v.violation("C07 engine=mc violated=%s" % r0.violated, "StencilDefs.tla violates %s" % r0.violated, {"tlc_tail": r0.out[-2000:]})
    # stencil on stub meshes
    cfgs = c08.make_configs(tier, seed)
    if tier == "quick":
        cfgs = [c for c in cfgs if max(c["ny"]) <= 11][:140]
    cfgs = [dict(c, stencil=True, id=k + 1) for k, c in enumerate(cfgs)]
    recs = c08.run_stub(cfgs, "c07")
    good = [r for r in recs if "error" not in r and c08.wellformed(r) and "sten" in r]
    refused = [r for r in recs if "error" in r]
    failed, results = validate_stencil(good, "s")
    for r in results:
        v.add_tlc(r)
    v.add_traces(len(good))
    for r in good:
        v.add_case("stencil topo=%s nx=%s ny=%s G=%s" % (r["topo"], r["nx"], r["ny"], r["G"]))
        v.add_eval(sum(len(row) for s in r["sten"] for loc in s["ddx"].values() for row in loc) * 2)
        for cl, loc in sorted(failed.get(r["id"], ())):
            if not cl.startswith("Stencil"):
                continue
            v.violation("C07 engine=stencil clause=%s loc=%s topo=%s" % (cl, loc, r["topo"]),
                        "real MeshRegion.%s at %s differs from StencilDefs.tla for %s" % ("DDX" if cl.endswith("DDX") else "DDY", loc, {k: r[k] for k in ("topo", "nx", "ny", "G")}),
                        {"config": {k: r[k] for k in ("topo", "nx", "ny", "G")}, "clause": cl, "loc": loc})
    v.note("stencil", {"configs": len(cfgs), "judged": len(good), "refused_by_code": len(refused), "topologies": sorted({r["topo"] for r in good})})
    if len(good) < 40:
        v.fail_machinery("coverage floor: only %d stencil layouts" % len(good))
    ok = [r for r in good if r["id"] not in failed and len(r["sten"]) >= 4]
    if ok:
        a = copy.deepcopy(ok[0]); a["id"] = 1
        a["sten"][1]["ddx"]["xlow"][0][0] += 1
        b = copy.deepcopy(ok[0]); b["id"] = 2
        b["sten"][2]["ddy"]["ylow"][0][-1] -= 3
        mf, _ = validate_stencil([a, b], "mut")
        okn = int(("StencilDDX", "xlow") in mf.get(1, ())) + int(("StencilDDY", "ylow") in mf.get(2, ()))
        v.note("binding_selftest_stencil", {"mutants": 2, "rejected_with_expected_clause": okn})
        if okn != 2:
            v.fail_machinery("stencil binding self-test failed: %s" % mf)
    # the evaluator behind the *IsDefinition clauses is the specification (TLC compares its rationals with FieldOps on lattice points)
    from fractions import Fraction
    import random as _random
    from .. import fields_eval
    from . import c18
    rng = _random.Random(seed * 13 + 7)
    ev_recs = []
    for k in range(150 if tier == "quick" else 1500):
        pt = {"R": rng.choice([1, 2, 3]), "p": rng.choice([0, 1, -2]), "F": rng.choice([-3, -1, 0, 2, 3]), "Fp": rng.choice([-2, -1, 0, 1, 3])}
        for comp in ("pR", "pZ", "pRR", "pRZ", "pZZ"):
            pt[comp] = rng.choice([-3, -2, -1, 0, 1, 2, 3])
        e = fields_eval.fields(*[Fraction(pt[c]) for c in ("R", "p", "pR", "pZ", "pRR", "pRZ", "pZZ", "F", "Fp")])
        ev_recs.append({"id": k + 1, "kind": "evalonly", "pt": pt,
                        "ev": {n: [int(e[n].numerator), int(e[n].denominator)] if n in e else [0, 0] for n in fields_eval.NAMES + fields_eval.FNAMES + fields_eval.CURLNAMES}})
    bad = copy.deepcopy(next(r for r in ev_recs if r["ev"]["curl_Z"] != [0, 0]))
    bad["id"] = len(ev_recs) + 1
    bad["ev"]["curl_Z"] = [bad["ev"]["curl_Z"][0] + 1, bad["ev"]["curl_Z"][1]]
    dd = scratch("c07ev")
    ef, eres = c18.judge(ev_recs + [bad], dd, "ev")
    shutil.rmtree(dd, ignore_errors=True)
    for r in eres:
        v.add_tlc(r)
    wrong = [i for i in ef if i != bad["id"]]
    v.note("evaluator_vs_spec", {"lattice_points": len(ev_recs), "disagreeing": len(wrong), "corrupted_copy_rejected": int(("EvaluatorIsSpec", "curl_Z") in ef.get(bad["id"], ()))})
    if wrong or ("EvaluatorIsSpec", "curl_Z") not in ef.get(bad["id"], ()):
        v.fail_machinery("the curl(b/B) evaluator disagrees with FieldOps.tla: %s" % {i: sorted(ef[i]) for i in list(ef)[:3]})
    # grids: oracle
    names = campaign.campaign(tier)
    traces, gfailed = gridprops.run(v, "C07", tier, names=names)
    # the two forms
    pairs = campaign.C07_PAIRS if tier == "thorough" else [p for p in campaign.C07_PAIRS if "x4" not in p[0]]
    grids = campaign.ensure(sorted({n for p in pairs for n in p}))
    d = scratch("c07")
    jobs = []
    for n, (a, b) in enumerate(pairs):
        (da, sa), (db, sb) = grids[a], grids[b]
        if sa["outcome"] != "file" or sb["outcome"] != "file":
            v.note("refused_%s_%s" % (a, b), [sa.get("exception"), sb.get("exception")])
            continue
        op = os.path.join(d, "pair_%s.json" % a)

        def job(da=da, db=db, op=op, a=a, b=b, n=n):
            rc, out, err = run_group([PY, "-B", os.path.join(VERIF, "harness/project.py"), da, "C07", "--pair", db, "twoforms", op], timeout=900, env=repo_env())
            if rc != 0 or not os.path.exists(op):
                raise MachineryError("pair projection failed %s %s\n%s" % (a, b, (out + err)[-2000:]))
            with open(op) as fh:
                t = json.load(fh)
            t["id"] = 7000 + n
            t["pair"] = "%s/%s" % (a, b)
            t["tolpm"] = TOLPM[campaign.CONFIGS[a]["nx"][0]]
            return t

        jobs.append(job)
    ptraces = parallel_jobs(jobs)
    pfailed, results = gridprops.validate(ptraces, "C07p")
    for r in results:
        v.add_tlc(r)
    v.add_traces(len(ptraces))
    for t in ptraces:
        v.add_case("two curvature forms " + t["pair"])
        v.add_eval(t["NX"] * t["NY"] * 3)
        for cl, loc in sorted(pfailed.get(t["id"], ())):
            if gridprops.clause_prop(cl) != "C07":
                continue
            v.violation("C07 engine=gridpair clause=%s component=%s pair=%s" % (cl, loc, t["pair"]), "clause %s (%s) fails for the pair %s" % (cl, loc, t["pair"]),
                        {"pair": t["pair"], "clause": cl})
    v.note("two_forms_pairs", [t["pair"] for t in ptraces])
    if len(ptraces) < 2:
        v.fail_machinery("coverage floor: only %d two-form pairs" % len(ptraces))
    clean = [t for t in traces if t["id"] not in gfailed]
    pclean = [t for t in ptraces if t["id"] not in pfailed and "curl" in t]
    if clean and pclean:
        a = copy.deepcopy(clean[0]); a["id"] = 9001
        for p in a["pairs"]:
            if p["clause"] == "CurlY" and p["loc"] == "centre":
                p["a"] = [[-x if x != 2000000000 else x for x in row] for row in p["a"]]
        b = copy.deepcopy(pclean[0]); b["id"] = 9002
        b["curl"]["x"]["B"] = [[-x for x in row] for row in b["curl"]["x"]["B"]]
        mf, _ = gridprops.validate([a, b], "C07mut")
        okn = int(any(c == "CurlY" for c, _ in mf.get(9001, ()))) + int(any(c == "TwoFormsAgree" for c, _ in mf.get(9002, ())))
        v.note("binding_selftest_grid", {"mutants": 2, "rejected_with_expected_clause": okn})
        if okn != 2:
            v.fail_machinery("grid binding self-test failed: %s" % mf)
    shutil.rmtree(d, ignore_errors=True)
    v.exhaustive = False
    return v
