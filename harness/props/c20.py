"""C20 - segment/polygon predicates agree with exact arithmetic."""
import itertools
import json
import os
import random
import re
import shutil

from .. import tlc
from ..core import PY, VERIF, NCPU, MachineryError, Verdict, repo_env, run_group, scratch, parallel_jobs


def gen_cases(tier, seed):
    rng = random.Random(seed * 31 + 20)
    K = 2
    P = [(r, z) for r in range(K + 1) for z in range(K + 1)]
    segs = [(s, e) for s in P for e in P if s != e]
    polys = []
    for a, b in itertools.permutations(P, 2):
        polys.append([a, b])
    two = [[a, b, c] for a in P for b in P for c in P if a != b and b != c]
    tri = [[a, b, c, a] for a, b, c in itertools.permutations(P, 3) if (b[0] - a[0]) * (c[1] - a[1]) - (b[1] - a[1]) * (c[0] - a[0]) != 0]
    if tier == "quick":
        two = rng.sample(two, 160)
        tri = rng.sample(tri, 160)
    polys += two
    cases = []

    def add(**kw):
        kw["id"] = len(cases) + 1
        cases.append(kw)

    for s, e in segs:
        for p in polys:
            add(kind="find", s=list(s), e=list(e), poly=[list(q) for q in p])
        for p in tri:
            add(kind="find", s=list(s), e=list(e), poly=[list(q) for q in p])
            add(kind="wall", s=list(s), e=list(e), poly=[list(q) for q in p])
    # K = 3 lattice: seeded quadrilateral walls mixing slope classes, all segments of a sample
    P3 = [(r, z) for r in range(4) for z in range(4)]
    nq = 40 if tier == "quick" else 600
    for _ in range(nq):
        quad = rng.sample(P3, 4)
        poly = [list(q) for q in quad] + [list(quad[0])]
        for _ in range(30):
            s, e = rng.sample(P3, 2)
            add(kind="find", s=list(s), e=list(e), poly=poly)
            add(kind="wall", s=list(s), e=list(e), poly=poly)
    # polygons.area / clockwise: all triangles and a sample of quadrilaterals and pentagons on K=3
    for a, b, c in itertools.permutations(P, 3):
        add(kind="area", poly=[list(a), list(b), list(c)])
    for _ in range(300 if tier == "quick" else 5000):
        n = rng.choice([4, 5, 6])
        add(kind="area", poly=[list(q) for q in rng.sample(P3, n)])
    # polygons.intersect: pairs of triangles / quadrilaterals on K=3
    for _ in range(1500 if tier == "quick" else 30000):
        a = rng.sample(P3, rng.choice([3, 4]))
        b = rng.sample(P3, rng.choice([3, 4]))
        add(kind="intersect", poly=[list(q) for q in a], polyb=[list(q) for q in b])
    # closest_approach: every point against every segment on K=2 (quick: sample), K=3 sample
    allc = [(p, s, e) for p in P for (s, e) in segs]
    if tier == "quick":
        allc = rng.sample(allc, 300)
    for p, s, e in allc:
        add(kind="closest", p=list(p), s=list(s), e=list(e))
    for _ in range(200 if tier == "quick" else 4000):
        p, s, e = rng.choice(P3), *rng.sample(P3, 2)
        add(kind="closest", p=list(p), s=list(s), e=list(e))
    return cases


CLAUSES = ["HitIffMeets", "NoException", "CountIsMeetingEdges", "PointsOnBoth", "WallNoneIffNoCrossing", "WallOnePoint", "WallRefusesSeveral",
           "AreaIsExact", "ClockwiseIsOrientation", "PolygonsIntersect", "ClosestApproach"]


def run_and_judge(cases, tag):
    d = scratch("c20_" + tag)
    nchunk = max(1, min(NCPU, len(cases) // 500))
    jobs = []
    for n in range(nchunk):
        ch = cases[n::nchunk]
        inp, outp = os.path.join(d, "in%d.json" % n), os.path.join(d, "out%d.json" % n)
        with open(inp, "w") as fh:
            json.dump(ch, fh)

        def job(inp=inp, outp=outp, n=n):
            rc, out, err = run_group([PY, "-B", os.path.join(VERIF, "harness/drivers/lattice_run.py"), inp, outp], timeout=1800, env=repo_env())
            if rc != 0 or not os.path.exists(outp):
                raise MachineryError("lattice_run failed rc=%s\n%s" % (rc, (out + err)[-2000:]))
            with open(outp) as fh:
                recs = json.load(fh)
            tf = os.path.join(d, "tr%d.json" % n)
            with open(tf, "w") as fh:
                json.dump({"traces": recs}, fh)
            res = tlc.run_tlc("Trace_Lattice", "Trace_Lattice.cfg", workers=1, timeout=3000, env_extra={"TRACE_FILE": tf}, check=False, heap="3g")
            return recs, res

        jobs.append(job)
    failed = {}
    allrecs = []
    results = []
    for recs, res in parallel_jobs(jobs):
        if not res.ok:
            raise MachineryError("Trace_Lattice failed (violated=%s)\n%s" % (res.violated, res.out[-2500:]))
        if res.distinct != 2 * len(recs):
            raise MachineryError("Trace_Lattice: %d states for %d traces" % (res.distinct, len(recs)))
        results.append(res)
        allrecs += recs
        for m in re.finditer(r'<<\s*"CLAUSE-FAILED",\s*"(\w+)",\s*(\d+)\s*>>', res.out):
            failed.setdefault(int(m.group(2)), set()).add(m.group(1))
    shutil.rmtree(d, ignore_errors=True)
    return allrecs, failed, results


def slope_class(s, e):
    return "a" if abs(e[0] - s[0]) > abs(e[1] - s[1]) else "b"


def run(tier, seed):
    v = Verdict("C20", tier, seed, "model_checking")
    v.rule = ("MC: Lattice.tla - symmetry, reversal and transposition invariance of the exact predicates, agreement of the orientation test with the "
              "exact intersection point, trapezium area = -shoelace, for all quadruples of points of the K=3 lattice. C->S: the real find_intersections, "
              "Equilibrium.wallIntersection, polygons.area/clockwise/intersect and closest_approach called on lattice inputs (K=2: every segment against "
              "every 1-edge polyline and samples/all of the 2-edge polylines and triangles; K=3 seeded quadrilateral walls); each recorded result is judged "
              "by Trace_Lattice.tla against the exact integer predicate. A case is one call; non-trivial = inside the property's non-degenerate domain "
              "(no zero-length segment, no wall edge parallel to the segment; no touching pairs for polygons.intersect).")
    v.assumptions = ["reported points are compared with the exact rational intersection to 1e-11 (two-limb integers)"]
    res = tlc.run_tlc("Lattice", "MC_Lattice.cfg", timeout=1200, check=False)
    v.add_tlc(res)
    if not res.ok:
        v.violation("C20 engine=mc violated=%s" % res.violated, "Lattice.tla self-consistency theorem fails", {"tlc_tail": res.out[-2000:]})
    cases = gen_cases(tier, seed)
    recs, failed, results = run_and_judge(cases, "main")
    for r in results:
        v.add_tlc(r)
    v.add_traces(len(recs))
    v.add_eval(len(recs))
    kinds = {}
    for r in recs:
        kinds[r["kind"]] = kinds.get(r["kind"], 0) + 1
        if r["kind"] in ("find", "wall"):
            v.add_case("%s %s %s %s" % (r["kind"], r["s"], r["e"], r["poly"]))
        else:
            v.add_case(json.dumps({k: r[k] for k in ("kind", "poly", "polyb", "p", "s", "e")}))
        for cl in sorted(failed.get(r["id"], ())):
            if r["kind"] in ("find", "wall"):
                cls = slope_class(r["s"], r["e"])
                key = "C20 engine=lattice clause=%s kind=%s segclass=%s" % (cl, r["kind"], cls)
            else:
                key = "C20 engine=lattice clause=%s kind=%s" % (cl, r["kind"])
            v.violation(key, "clause %s fails for %s" % (cl, json.dumps({k: r[k] for k in r if k not in ("id",)})[:400]),
                        {"case": r, "driver": "harness/drivers/lattice_run.py"})
    v.note("lattice", {"calls": kinds, "clauses_failed": sorted({c for s in failed.values() for c in s})})
    v.sample({"engine": "C->S lattice", "case": {k: recs[0][k] for k in ("kind", "s", "e", "poly", "rk", "pts")}})
    # binding self-test: corrupt recorded results
    import copy
    def indomain(r):
        s, e = r["s"], r["e"]
        for a, b in zip(r["poly"][:-1], r["poly"][1:]):
            if a == b or (e[0] - s[0]) * (b[1] - a[1]) - (e[1] - s[1]) * (b[0] - a[0]) == 0:
                return False
        return True

    base = [r for r in recs if r["kind"] == "find" and r["rk"] == "points" and r["id"] not in failed and indomain(r)][:1]
    miss = [r for r in recs if r["kind"] == "find" and r["rk"] == "none" and r["id"] not in failed and indomain(r)][:1]
    if base and miss:
        a = copy.deepcopy(base[0]); a["id"] = 1; a["rk"], a["pts"] = "none", []
        b = copy.deepcopy(base[0]); b["id"] = 2; b["pts"][0][0] += 3
        c = copy.deepcopy(miss[0]); c["id"] = 3; c["rk"], c["pts"] = "points", [[0, 0, 0, 0]]
        _, mf, _ = run_and_judge_raw([a, b, c])
        ok = ["HitIffMeets" in mf.get(1, ()) or "CountIsMeetingEdges" in mf.get(1, ()), "PointsOnBoth" in mf.get(2, ()), "HitIffMeets" in mf.get(3, ())]
        v.note("binding_selftest", {"mutants": 3, "rejected_with_expected_clause": sum(ok)})
        if not all(ok):
            v.fail_machinery("binding self-test failed: %s" % mf)
    v.exhaustive = False
    return v


def run_and_judge_raw(recs):
    """judge already-recorded results (used by the self-test)"""
    d = scratch("c20_raw")
    tf = os.path.join(d, "tr.json")
    with open(tf, "w") as fh:
        json.dump({"traces": recs}, fh)
    res = tlc.run_tlc("Trace_Lattice", "Trace_Lattice.cfg", workers=1, timeout=600, env_extra={"TRACE_FILE": tf}, check=False)
    failed = {}
    for m in re.finditer(r'<<\s*"CLAUSE-FAILED",\s*"(\w+)",\s*(\d+)\s*>>', res.out):
        failed.setdefault(int(m.group(2)), set()).add(m.group(1))
    shutil.rmtree(d, ignore_errors=True)
    return recs, failed, [res]
