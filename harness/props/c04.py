"""C04 - orthogonal grids are orthogonal: radial grid lines follow grad(psi)."""
import copy
import json
import os
import re
import shutil

from .. import campaign, gridprops, tlc
from ..core import PY, VERIF, MachineryError, Verdict, repo_env, run_group, scratch
from .c11 import run_driver


def judge(recs, d, tag):
    tf = os.path.join(d, tag + "_tr.json")
    with open(tf, "w") as fh:
        json.dump({"traces": recs}, fh)
    res = tlc.run_tlc("Trace_FollowPerp", "Trace_FollowPerp.cfg", workers=1, timeout=1800, env_extra={"TRACE_FILE": tf}, check=False)
    if not res.ok or res.distinct != 2 * len(recs):
        raise MachineryError("Trace_FollowPerp failed (violated=%s, %d states for %d traces)\n%s" % (res.violated, res.distinct, len(recs), res.out[-2000:]))
    failed = {}
    for m in re.finditer(r'<<\s*"CLAUSE-FAILED",\s*"(\w+)",\s*(\d+)\s*>>', res.out):
        failed.setdefault(int(m.group(2)), set()).add(m.group(1))
    return failed, res


def run(tier, seed):
    v = Verdict("C04", tier, seed, "model_checking")
    v.rule = ("MC: FollowPerp.tla - for every strictly monotone radial list (either direction, up to 5 values) and every start value (below, above, strictly "
              "inside, equal to an element or an end) the split / reverse / concatenate recursion of followPerpendicular over an integrator that can only march "
              "away from the start returns the point of every requested value, in order, and composed with MeshRegion's reversal for regions inside the "
              "separatrix gives contour k <-> psi_vals[k]. C->S (function): every case TLC enumerated, and its rounding-error variants (start value within "
              "2e-16 relative of an element; 1e-13 off an element), is run through the REAL followPerpendicular on psi(R,Z)=R and the returned labels judged by "
              "the specification. C->S (grids): on every orthogonal campaign grid an independent integrator (DOP853, rtol 1e-10) follows grad(psi) of the "
              "equilibrium from every contour point to the psi of its radial neighbour (same poloidal index; centres, x-faces, y-faces and corners, guard cells "
              "included) and must land on it within 5e-6 m, except pairs containing an X-point (decided from the topology); the chord between the x-faces of every "
              "cell is parallel to grad(psi) at the centre (sine <= 0.06 away from cells touching an X-point, <= 0.01 two rows away from X-point rows). "
              "A case is one function case or one grid.")
    v.assumptions = ["grad(psi) is that of the equilibrium object's own interpolant (the property's definition of the field)"]
    d = scratch("c04")
    dot = os.path.join(d, "fp.dot")
    cfg = "MC_FollowPerp.cfg" if tier == "quick" else "MC_FollowPerp_thorough.cfg"
    r0 = tlc.run_tlc("FollowPerp", cfg, timeout=1800, dump_dot=dot, check=False)
    v.add_tlc(r0)
    if not r0.ok and r0.violated is None:
        v.fail_machinery("TLC did not complete: %s" % r0.out[-1500:])
    elif not r0.ok:
        v.violation("C04 engine=mc violated=%s" % r0.violated, "FollowPerp.tla violates %s" % r0.violated, {"tlc_tail": r0.out[-2000:]})
    states, inits, edges = tlc.parse_dot(dot)
    os.remove(dot)
    seen = set()
    cases = []
    for st in states.values():
        key = (tuple(st["pv"]), st["p0"])
        if key in seen:
            continue
        seen.add(key)
        variants = ["exact"] + (["guard+", "guard-"] if st["p0"] % 2 == 0 and st["p0"] > 0 else ["near+", "near-"] if st["p0"] % 2 == 1 else [])
        for var in variants:
            if var == "near+" and st["p0"] - 1 <= 0:
                continue
            cases.append({"id": len(cases) + 1, "pv": list(st["pv"]), "p0": st["p0"], "variant": var})
    cases.append({"id": len(cases) + 1, "pv": [4], "p0": 4, "variant": "exact"})      # degenerate: the specification says refused
    real = run_driver("followperp_run.py", cases, d, "fp")
    real.sort(key=lambda r: r["id"])
    failed, res = judge(real, d, "fp")
    v.add_tlc(res)
    v.add_traces(len(real))
    nraise = 0
    for r in real:
        v.add_case("followPerpendicular psivals=%s psi0=%s %s" % (r["pv"], r["p0"], r["variant"]))
        v.add_eval(len(r["pv"]))
        nraise += int(r["out"] == [-999])
        for cl in sorted(failed.get(r["id"], ())):
            cls = "inside" if min(r["pv"]) < r["p0"] < max(r["pv"]) else "outside_or_end"
            v.violation("C04 engine=function clause=%s class=%s variant=%s" % (cl, cls, r["variant"]),
                        "real followPerpendicular(psivals=%s (x0.01), psi0=%s x0.01 [%s]) returned labels %s %s" % (r["pv"], r["p0"], r["variant"], r["out"], r["exc"]), r)
    v.note("function_cases", {"from_tlc_states": len(seen), "real_calls": len(real), "raised": nraise})
    if real:
        v.sample({"engine": "C->S function", "case": {k: real[7][k] for k in ("pv", "p0", "variant", "out")}})
        a = copy.deepcopy([r for r in real if r["id"] not in failed and len(r["pv"]) >= 3][0]); a["id"] = 1
        a["out"] = a["out"][::-1]
        mf, _ = judge([a], d, "mut")
        ok = "ReturnsEachValueInOrder" in mf.get(1, ())
        v.note("binding_selftest", {"mutants": 1, "rejected_with_expected_clause": int(ok)})
        if not ok:
            v.fail_machinery("binding self-test failed")
    # grids
    names = [n for n in campaign.campaign(tier) if campaign.CONFIGS[n]["options"].get("orthogonal", True)] + campaign.C04_EXTRA
    traces, gfailed = gridprops.run(v, "C04", tier, names=names)
    worst = max((x for t in traces for rg in t["c04"] for row in rg["dev"] for x in row if x != 2000000000 and x < 10000), default=0)
    v.note("grid_pairs", {"largest_non_xpoint_deviation_1e-8m": worst, "pairs": sum(len(rg["dev"]) * len(rg["dev"][0]) for t in traces for rg in t["c04"])})
    clean = [t for t in traces if t["id"] not in gfailed]
    if clean:
        b = copy.deepcopy(clean[0]); b["id"] = 9001
        b["c04"][0]["dev"][1][3] = 5000
        c = copy.deepcopy(clean[0]); c["id"] = 9002
        c["sinc"] = [[300000 for x in row] for row in c["sinc"]]
        mf, _ = gridprops.validate([b, c], "C04mut")
        ok = int(any(cl == "SameIntegralCurve" for cl, _ in mf.get(9001, ()))) + int(any(cl == "RadialParallelToGradPsi" for cl, _ in mf.get(9002, ())))
        v.note("binding_selftest_grid", {"mutants": 2, "rejected_with_expected_clause": ok})
        if ok != 2:
            v.fail_machinery("grid binding self-test failed: %s" % mf)
    shutil.rmtree(d, ignore_errors=True)
    v.exhaustive = False
    return v
