"""MLA.tla engine (used by C02): model check, dump the reachable graph, compare every state's successors with the real
MultiLocationArray (both inclusions)."""
import json
import os
import shutil

from .. import tlc
from ..core import MachineryError, scratch
from .c11 import run_driver

LOCS = ("centre", "xlow", "ylow", "corners")


def run(v, pid):
    d = scratch("mla")
    dot = os.path.join(d, "mla.dot")
    res = tlc.run_tlc("MLA", "MC_MLA.cfg", workers=8, dump_dot=dot, timeout=1200, check=False)
    v.add_tlc(res)
    if not res.ok and res.violated is None:
        v.fail_machinery("TLC did not complete on MLA: %s" % res.out[-1500:])
        return
    if not res.ok:
        v.violation("%s engine=mc module=MLA violated=%s" % (pid, res.violated), "MLA.tla violates %s" % res.violated, {"tlc_tail": res.out[-2000:]})
        return
    states, inits, edges = tlc.parse_dot(dot)
    os.remove(dot)
    maxd = max(s["depth"] for s in states.values())
    succ = {}
    for a, b, lab in edges:
        succ.setdefault(a, set()).add(b)

    def key(st):
        return json.dumps([{l: st[k][l] for l in LOCS} for k in ("a", "b", "r")])

    nodes = [{"id": k, "a": dict(st["a"]), "b": dict(st["b"]), "r": dict(st["r"])} for k, st in states.items() if st["depth"] < maxd]
    real = run_driver("mla_graph.py", nodes, d, "mla")
    bad = 0
    nops = 0
    for r in real:
        want = {key(states[b]) for b in succ.get(r["id"], ())}
        got = {}
        for op, val in r["succ"].items():
            got.setdefault(json.dumps([{l: val[k][l] for l in LOCS} for k in ("a", "b", "r")]), []).append(op)
        nops += len(r["succ"])
        v.add_eval(len(r["succ"]))
        if set(got) != want:
            bad += 1
            only_real = sorted(set(got) - want)
            op = got[only_real[0]][0] if only_real else "?"
            st = states[r["id"]]
            v.violation("%s engine=mla-graph op=%s" % (pid, op.split(":")[0]),
                        "MultiLocationArray in state a=%s b=%s: real successors differ from MLA.tla; only real: %s (ops %s)"
                        % (dict(st["a"]), dict(st["b"]), only_real[:2], [got[x] for x in only_real[:2]]), {"state": {"a": dict(st["a"]), "b": dict(st["b"])}, "only_real": only_real[:5]})
    v.add_traces(len(real))
    v.note("mla_graph", {"states": len(states), "edges": len(edges), "states_replayed": len(real), "real_operations": nops, "states_differing": bad})
    if real:
        r = real[0]
        k = sorted(r["succ"])[0]
        mut = json.loads(json.dumps(r["succ"]))
        mut[k]["r"]["centre"] = 77
        want = {key(states[b]) for b in succ.get(r["id"], ())}
        got = {json.dumps([{l: val[kk][l] for l in LOCS} for kk in ("a", "b", "r")]) for val in mut.values()}
        v.note("binding_selftest_mla", {"mutants": 1, "rejected": int(got != want)})
        if got == want:
            v.fail_machinery("MLA graph self-test: corrupted successor not noticed")
    shutil.rmtree(d, ignore_errors=True)
