"""C06 - zShift, ShiftAngle, dphidy and ShiftTorsion follow the field lines."""
import copy

from .. import gridprops, tlc
from ..core import Verdict


def run(tier, seed):
    v = Verdict("C06", tier, seed, "model_checking")
    v.rule = ("MC: Topology.tla (y chains: exactly one wrap per closed chain, at the documented start). C->S: every campaign grid (non-constant fpol); "
              "the contour follower integrates Bt/(R|Bp|) ds over each half cell; Trace_Grid.tla checks zShift increments, continuity at every join "
              "but the wrap, zero at the chain start, jump at the wrap = ShiftAngle, ShiftAngle = sum over the closed chain (= 2 pi q for the circular "
              "case), NaN domains of ShiftAngle and chi, dphidy formula, ShiftTorsion = centred x-difference of dphidy. A case is one generated grid.")
    v.assumptions = ["integral oracle as for C05; bound 2% of the half-cell integral, 10% in the rows next to an X-point",
                     "on the separatrix surface (xlow at x = ixseps) the integrand is singular at the X-point: increments are not demanded there (decided by SepFace in Trace_Grid.tla)"]
    res = tlc.run_tlc("MC_Topology", "MC_Topology_quick.cfg", timeout=3600, check=False)
    v.add_tlc(res)
    if not res.ok:
        v.fail_machinery("MC_Topology did not pass: %s" % (res.violated or res.out[-800:]))
    from .. import campaign
    traces, failed = gridprops.run(v, "C06", tier, names=campaign.campaign(tier) + ["lsn_orth_rev_cap"])
    clean = [t for t in traces if not any(gridprops.clause_prop(c) == "C06" for c, _ in failed.get(t["id"], ())) and t["topo"] == "LSN"]
    if clean:
        a = copy.deepcopy(clean[0]); a["id"] = 9001
        yy = a["rects"][2][2]      # first row of the core: make zShift restart there in the SOL too (it must continue from the leg)
        for x in range(a["NX"]):
            a["zs"]["ylow"][x][yy] = 0
        b = copy.deepcopy(clean[0]); b["id"] = 9002
        b["chi_nan"]["centre"][0][yy] = 1
        mf, _ = gridprops.validate([a, b], "C06mut")
        got = [any(c in ("ZShiftContinuousExceptStart", "ZShiftIncrementsAreIntegrals") for c, _ in mf.get(9001, ())), any(c == "ChiDomain" for c, _ in mf.get(9002, ()))]
        v.note("binding_selftest", {"mutants": 2, "rejected_with_expected_clause": sum(got)})
        if not all(got):
            v.fail_machinery("binding self-test failed: %s" % mf)
    v.exhaustive = False
    return v
