"""C15 - regridding is history independent."""
import copy
import itertools
import json
import os
import random
import re
import shutil

import numpy as np

from .. import campaign, tlc
from ..core import PY, VERIF, NCPU, MachineryError, Verdict, repo_env, run_group, scratch, parallel_jobs

P = {"nonorthogonal_radial_range_power": 4}
FRESH = ("A", "B", "P", "BP")
B = {"nonorthogonal_xpoint_poloidal_spacing_length": 0.02, "nonorthogonal_target_all_poloidal_spacing_length": 0.4}


def settings_for(base):
    allopts = dict(base["options"])
    return {"A": {}, "B": dict(B),
            # settings that no per-region spacing length depends on (seeded change C15_skip_regrid)
            "P": dict(P), "BP": dict(B, **P),
            # what the GUI passes: the whole option dictionary, other keys with the values the mesh was built with
            "Ball": dict(allopts, **B),
            # other keys present with DIFFERENT values: must be ignored or the call refused
            "Bx": dict(B, finecontour_Nfine=77, nx_core=9, psinorm_sol=1.3)}


R = lambda s: ["Redistribute", s]  # noqa: E731
C = ["CalculateRZ", None]
G = ["Geometry", None]

QUICK = [[R("P"), G], [R("P"), R("B"), R("BP"), G], [R("BP"), R("B"), G], [C, R("BP"), R("A"), G], [G], [R("B"), G], [C, R("B"), G], [R("B"), R("A"), G], [R("B"), C, G], [C, R("B"), C, G], [G, R("B"), C, G], [G, R("B"), G],
         [R("Bx"), G], [R("Ball"), G], [C, R("B"), R("A"), G], [R("A"), G], [C, R("Ball"), G]]


def histories(tier, seed):
    if tier == "quick":
        return QUICK
    rng = random.Random(seed)
    alpha = [R("A"), R("B"), R("Bx"), R("P"), R("BP"), C, G]
    hs = [list(h) + [G] for n in range(0, 4) for h in itertools.product(alpha, repeat=n)]
    rng.shuffle(hs)
    return QUICK + hs[:150]


def cmp_npz(a, b):
    A, Bz = np.load(a), np.load(b)
    dpos, dgeo = 0.0, 0.0
    for k in A.files:
        if k not in Bz.files or A[k].shape != Bz[k].shape:
            return 10 ** 9, 10 ** 9
        x, y = A[k], Bz[k]
        if "_Rxy_" in k or "_Zxy_" in k:
            dpos = max(dpos, float(np.nanmax(np.abs(x - y))) / 1e-8)
        else:
            m = float(np.nanmax(np.abs(np.where(np.isfinite(y), y, 0.0))))
            if m > 0:
                fin = np.isfinite(x) & np.isfinite(y)
                if (np.isfinite(x) != np.isfinite(y)).any():
                    return 10 ** 9, 10 ** 9
                if fin.any():
                    dgeo = max(dgeo, float(np.max(np.abs(x[fin] - y[fin]))) / (1e-8 * m))
    return int(min(dpos, 10 ** 9)), int(min(dgeo, 10 ** 9))


def run_jobs(jobs, d):
    def one(name, job):
        jd = os.path.join(d, name)
        os.makedirs(jd, exist_ok=True)
        with open(os.path.join(jd, "job.json"), "w") as fh:
            json.dump(job, fh)
        rc, out, err = run_group([PY, "-B", os.path.join(VERIF, "harness/drivers/lifecycle_regrid.py"), os.path.join(jd, "job.json"), jd], timeout=1200, env=repo_env())
        st = os.path.join(jd, "status.json")
        if not os.path.exists(st):
            raise MachineryError("lifecycle_regrid gave no status for %s rc=%s\n%s" % (name, rc, (out + err)[-1500:]))
        with open(st) as fh:
            return name, jd, json.load(fh)

    return parallel_jobs([lambda n=n, j=j: one(n, j) for n, j in jobs.items()], nproc=max(2, NCPU - 2))


def validate(traces, d):
    tf = os.path.join(d, "tr.json")
    with open(tf, "w") as fh:
        json.dump({"traces": [{k: t[k] for k in ("id", "eqopts", "events")} for t in traces]}, fh)
    res = tlc.run_tlc("Trace_Lifecycle", "Trace_Lifecycle.cfg", workers=1, timeout=900, env_extra={"TRACE_FILE": tf}, check=False)
    if not res.ok:
        raise MachineryError("Trace_Lifecycle failed (violated=%s)\n%s" % (res.violated, res.out[-2500:]))
    failed = {}
    for m in re.finditer(r'<<\s*"CLAUSE-FAILED",\s*"(\w+)",\s*(\d+)\s*>>', res.out):
        failed.setdefault(int(m.group(2)), set()).add(m.group(1))
    return failed, res


def run(tier, seed):
    v = Verdict("C15", tier, seed, "model_checking")
    v.rule = ("MC: Lifecycle.tla - over all call histories up to 8 steps the intended design keeps Fresh / GeometryFresh (and the mode 'AsFound' is "
              "shown to break them). C->S: call histories over {Redistribute(s) for s in A, B, B with other keys, P (only the radial range power), B+P; CalculateRZ; Geometry} "
              "ending in Geometry are executed on a real non-orthogonal LSN mesh in one interpreter; Trace_Lifecycle.tla replays each through the "
              "specification's actions, decides which setting is in force and which refusals are allowed, and requires the final positions (2e-7 m) and "
              "geometry (1e-6 relative) to equal those of a mesh built from scratch with that setting; an orthogonal mesh must refuse. A case is one history.")
    v.assumptions = ["the reference is a mesh built from scratch by the same code (the property's own definition)",
                     "a history whose final geometry() is refused is recorded and not compared (refusal is an explicit outcome)"]
    r1 = tlc.run_tlc("Lifecycle", "MC_Lifecycle_Intended.cfg", timeout=900, check=False)
    v.add_tlc(r1)
    if not r1.ok:
        v.violation("C15 engine=mc violated=%s" % r1.violated, "Lifecycle.tla (Intended) violates %s" % r1.violated, {"tlc_tail": r1.out[-2000:]})
    r2 = tlc.run_tlc("Lifecycle", "MC_Lifecycle_AsFound.cfg", timeout=900, check=False)
    v.note("asfound_mode_violates", r2.violated)
    if r2.ok:
        v.fail_machinery("mode AsFound was expected to violate an invariant")
    base = campaign.CONFIGS["lsn_nonorth"]
    sets = settings_for(base)
    hs = histories(tier, seed)
    d = scratch("c15")
    jobs = {"orth": {"base": campaign.CONFIGS["lsn_orth_g0"], "settings": sets, "build_with": "A", "history": [R("B")]}}
    for f in FRESH:
        jobs["fresh_" + f] = {"base": base, "settings": sets, "build_with": f, "history": [G]}
    for n, h in enumerate(hs):
        jobs["h%03d" % n] = {"base": base, "settings": sets, "build_with": "A", "history": h}
    # the same mesh with one per-leg target spacing explicitly None (the orthogonal reference spacing of that leg then falls back to the
    # NON-orthogonal target option, see DESIGN 11.26): its own references, its own histories
    base_n = json.loads(json.dumps(base))
    base_n["options"]["target_inner_lower_poloidal_spacing_length"] = None
    for f in FRESH:
        jobs["nfresh_" + f] = {"base": base_n, "settings": sets, "build_with": f, "history": [G]}
    for n, h in enumerate([[R("B"), G], [R("P"), G], [R("B"), R("A"), G]]):
        jobs["hnone%d" % n] = {"base": base_n, "settings": sets, "build_with": "A", "history": h}
    results = {n: (jd, st) for n, jd, st in run_jobs(jobs, d)}
    for n in ["fresh_" + f for f in FRESH] + ["nfresh_" + f for f in FRESH]:
        if not results[n][1].get("dumped"):
            v.fail_machinery("reference build %s failed: %s" % (n, results[n][1]))
            return v
    traces = []
    for n, (jd, st) in sorted(results.items()):
        if n.startswith(("fresh", "nfresh")):
            continue
        ref = "nfresh_" if n.startswith("hnone") else "fresh_"
        if st.get("fatal"):
            v.fail_machinery("history %s: %s" % (n, st["fatal"]))
            continue
        ev = [{"ev": "BuildEq", "arg": "", "out": "ok", "exc": ""}] + list(st["events"])
        if st.get("dumped"):
            cmp = {f: cmp_npz(os.path.join(jd, "final.npz"), os.path.join(results[ref + f][0], "final.npz")) for f in FRESH}
        else:
            cmp = {f: (0, 0) for f in FRESH}
        # the non-orthogonal options the equilibrium object holds at the end are what writeGridfile embeds in the file (hypnotoad_inputs_yaml):
        # they must be those of a mesh built from scratch with the setting in force
        rec = {f: int(st.get("final_nonorth") == results[ref + f][1].get("final_nonorth")) for f in FRESH}
        ev.append({"ev": "Compare", "arg": "", "out": "ok", "exc": "", "dpos": {f: cmp[f][0] for f in FRESH}, "dgeo": {f: cmp[f][1] for f in FRESH},
                   "user_options_unchanged": st.get("user_options_unchanged", 0), "opts_recorded": rec})
        for e in ev:
            e.setdefault("dpos", {f: 0 for f in FRESH}); e.setdefault("dgeo", {f: 0 for f in FRESH}); e.setdefault("user_options_unchanged", 1)
            e.setdefault("opts_recorded", {f: 1 for f in FRESH})
        traces.append({"id": len(traces) + 1, "name": n, "eqopts": "orth" if n == "orth" else "plain", "events": ev,
                       "history": jobs[n]["history"]})
    failed, res = validate(traces, d)
    v.add_tlc(res)
    # every trace must be consumed completely: count states = sum(len(events)) + number of traces
    want = sum(len(t["events"]) for t in traces) + len(traces)
    if res.distinct != want:
        # find which trace stopped early by validating one by one
        for t in traces:
            f1, r1t = validate([dict(t, id=1)], d)
            if r1t.distinct != len(t["events"]) + 1:
                k = r1t.distinct - 1
                e = t["events"][k] if k < len(t["events"]) else {}
                hist = " ".join("%s(%s)" % (a[0][0], a[1] or "") for a in t["history"])
                v.violation("C15 engine=history clause=NotABehaviour event=%s out=%s" % (e.get("ev"), e.get("out")),
                            "history [%s]: the call %s(%s) ended '%s' (%s), which Lifecycle.tla does not allow at that point" % (hist, e.get("ev"), e.get("arg"), e.get("out"), e.get("exc")),
                            {"history": t["history"], "events": t["events"]})
    v.add_traces(len(traces))
    nref = 0
    for t in traces:
        hist = " ".join("%s(%s)" % (a[0][0], a[1] or "") for a in t["history"])
        v.add_case("history " + hist)
        v.add_eval(len(t["events"]))
        if t["events"][-2]["out"] == "refused":
            nref += 1
        for cl in sorted(failed.get(t["id"], ())):
            stale = "stale" if t["events"][-1]["dpos"]["A"] <= 20 and t["events"][-1]["dpos"]["B"] > 20 else "other"
            v.violation("C15 engine=history clause=%s kind=%s%s" % (cl, stale, " base=target_none" if t["name"].startswith("hnone") else ""),
                        "history [%s] on a non-orthogonal LSN mesh: clause %s fails (distance to fresh A / fresh B: positions %s quanta of 1e-8 m, geometry %s)"
                        % (hist, cl, t["events"][-1]["dpos"], t["events"][-1]["dgeo"]), {"history": t["history"], "events": t["events"]})
    v.note("histories", {"run": len(traces), "final_geometry_refused": nref, "clauses_failed": sorted({c for s in failed.values() for c in s})})
    v.sample({"engine": "C->S history", "history": traces[2]["history"], "events": [(e["ev"], e["arg"], e["out"]) for e in traces[2]["events"]],
              "compare": traces[2]["events"][-1]["dpos"]})
    # binding self-test: a history whose comparison record says 'equals fresh A' although B is in force must be rejected
    def last_setting(t):
        r = [e["arg"] for e in t["events"] if e["ev"] == "Redistribute"]
        return r[-1] if r else "A"
    clean = [t for t in traces if t["id"] not in failed and last_setting(t) in ("B", "Bx", "Ball") and t["events"][-2]["out"] == "ok"]
    if clean:
        a = copy.deepcopy(clean[0]); a["id"] = 1
        a["events"][-1]["dpos"] = dict(a["events"][-1]["dpos"], A=0, B=1999999)
        mf, _ = validate([a], d)
        ok = "Fresh" in mf.get(1, ())
        v.note("binding_selftest", {"mutants": 1, "rejected_with_expected_clause": int(ok)})
        if not ok:
            v.fail_machinery("binding self-test failed: %s" % mf)
    shutil.rmtree(d, ignore_errors=True)
    v.exhaustive = False
    return v
