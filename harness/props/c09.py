"""C09 - radial psi grid: monotone, exact at boundaries, smooth across separatrices."""
import copy
import json
import os
import re
import shutil

from .. import gridprops, tlc
from ..core import PY, VERIF, NCPU, MachineryError, Verdict, repo_env, run_group, scratch, parallel_jobs

RATIOS = [[0, 0], [1, 4], [1, 2], [1, 1], [3, 2], [3, 1]]
NS = {"LSN": ([2, 2], [3, 4, 3]), "USN": ([2, 2], [3, 4, 3]), "CDN": ([2, 2], [3] * 6), "LDN": ([2, 1, 2], [3] * 6), "UDN": ([2, 1, 2], [3] * 6)}


def func_cases(tier):
    cases = []
    ns = (1, 2, 3, 5, 8) if tier == "quick" else (1, 2, 3, 4, 5, 8, 13, 32)
    extra = [] if tier == "quick" else [[1, 8], [3, 4], [5, 4], [2, 1], [5, 1]]
    for n in ns:
        for d in (-1, 1):
            for rl in RATIOS + extra:
                for ru in RATIOS + extra:
                    cases.append({"id": len(cases) + 1, "n": n, "dir": d, "rl": rl, "ru": ru, "near": 0})
    # just above the switch between the two forms (ratio 1 + 1e-6 .. 1 + 1e-4)
    for n in (2, 3, 8):
        for k in (1000001, 1000100):
            cases.append({"id": len(cases) + 1, "n": n, "dir": 1, "rl": [k, 1000000], "ru": [k, 1000000], "near": 1})
            cases.append({"id": len(cases) + 1, "n": n, "dir": -1, "rl": [k, 1000000], "ru": [0, 0], "near": 1})
    # continuity in the parameters over whole sweeps of the end-gradient ratio (not only at the documented switch)
    for n in ((2, 3, 8) if tier == "quick" else (2, 3, 5, 8, 16)):
        for d in (-1, 1):
            for form in ("lower", "upper", "both", "bothfixed"):
                cases.append({"id": len(cases) + 1, "kind": "sweep", "n": n, "dir": d, "form": form, "rl": [0, 0], "ru": [0, 0], "near": 0})
    return cases


def seg_cases(tier):
    cases = []
    variants = [{}, {"psi_spacing_separatrix_multiplier": 0.5}, {"psinorm_core": 0.85, "psinorm_sol": 1.15, "psinorm_pf": 0.9}, {"psi_core": 0.95, "psinorm_core": 0.5},
                {"psi_spacing_separatrix_multiplier": 1.7},
                # each limit given explicitly as a flux value, on its own: it overrides its own psinorm_* and no other limit
                # (seeded change C09_psi_sol_overrides_inner)
                {"psi_sol": 0.715}, {"psi_sol_inner": 0.72}, {"psi_pf_lower": 0.75}, {"psi_pf_upper": 0.752}, {"psi_sol": 0.71, "psinorm_sol_inner": 1.04}]
    for topo, (nx, ny) in NS.items():
        for o in variants:
            if "psi_sol_inner" in o and topo not in ("CDN", "LDN", "UDN"):
                continue
            if topo == "LDN":       # (the ldn family has psi < 0, increasing outwards)
                o = {k: (-v if k.startswith("psi_") and k != "psi_spacing_separatrix_multiplier" and k != "psi_core" else v) for k, v in o.items()}
            oo = dict(psinorm_core=0.9, psinorm_sol=1.1, psinorm_pf=0.95)
            oo.update(o)
            if topo in ("CDN", "LDN", "UDN"):
                oo.setdefault("psinorm_sol_inner", 1.08)
            if topo == "LDN" and "psi_core" in o:
                oo["psi_core"] = -0.95
            cases.append({"id": 100000 + len(cases) + 1, "topo": topo, "nx": nx, "ny": ny, "options": oo})
            if tier == "thorough":
                cases.append({"id": 100000 + len(cases) + 1, "topo": topo, "nx": [3] * len(nx), "ny": ny, "options": dict(oo), "psi_sign": -1.0} if topo != "LDN" or "psi_core" not in o else
                             {"id": 100000 + len(cases) + 1, "topo": topo, "nx": [3] * len(nx), "ny": ny, "options": dict(oo, psi_core=0.95), "psi_sign": -1.0})
    # a connected double null whose X-points are not exactly balanced: one separatrix value is used for all four legs, and adjoining
    # segments still share their boundary value (seeded change C09_cdn_pf_ends_on_own_sep)
    for o in ({}, {"psi_spacing_separatrix_multiplier": 0.5}):
        for sign in (1.0, -1.0):
            oo = dict(psinorm_core=0.9, psinorm_sol=1.1, psinorm_pf=0.95, psinorm_sol_inner=1.08)
            oo.update(o)
            cases.append({"id": 100000 + len(cases) + 1, "topo": "CDN", "nx": [2, 2], "ny": [3] * 6, "options": oo, "geometry": "cdn_unbal", "psi_sign": sign})
    return cases


def run_driver(script, cases, d, tag):
    inp, outp = os.path.join(d, tag + "_in.json"), os.path.join(d, tag + "_out.json")
    with open(inp, "w") as fh:
        json.dump(cases, fh)
    rc, out, err = run_group([PY, "-B", os.path.join(VERIF, "harness/drivers", script), inp, outp], timeout=1800, env=repo_env())
    if rc != 0 or not os.path.exists(outp):
        raise MachineryError("%s failed rc=%s\n%s" % (script, rc, (out + err)[-2000:]))
    with open(outp) as fh:
        return json.load(fh)


def judge(recs, d, tag):
    tf = os.path.join(d, tag + "_tr.json")
    with open(tf, "w") as fh:
        json.dump({"traces": recs}, fh)
    res = tlc.run_tlc("Spacing", "Trace_Spacing.cfg", workers=1, timeout=1800, env_extra={"TRACE_FILE": tf}, check=False)
    if not res.ok or res.distinct != 2 * len(recs):
        raise MachineryError("Trace_Spacing failed (violated=%s, %d states for %d traces)\n%s" % (res.violated, res.distinct, len(recs), res.out[-2000:]))
    failed = {}
    for m in re.finditer(r'<<\s*"CLAUSE-FAILED",\s*"(\w+)",\s*(\d+)\s*>>', res.out):
        failed.setdefault(int(m.group(2)), set()).add(m.group(1))
    return failed, res


def form(c):
    a, b = c["rl"][1] != 0, c["ru"][1] != 0
    return "both" if a and b else "lower" if a else "upper" if b else "none"


def run(tier, seed):
    v = Verdict("C09", tier, seed, "model_checking")
    v.rule = ("MC: Spacing.tla - branch table of the spacing function over a rational lattice of (n, direction, end-gradient ratios), every branch and the "
              "switch covered. C->S: (a) the real getSmoothMonotonicGridFunc + make1dGrid on that lattice (plus cases just above the switch): 2n+1 values, "
              "strictly monotone, ends exact to 4 ulp, centres are midpoints, requested end gradient and zero second derivative at constrained ends, "
              "continuity across the switch, nesting n -> 2n; (b) the real makeRegions of LSN/USN/CDN/LDN/UDN with variants of the radial options: first/last "
              "value of every region is the limit the specification assigns to it (psinorm_* resolved, psi_* overriding), adjoining segments share their "
              "boundary, interior boundaries are separatrices, one gradient requested on both sides of every separatrix; (c) every campaign grid: dx is the "
              "psi difference of the cell's x-faces, psixy_xlow strictly monotone in x. A case is one function call / equilibrium / grid.")
    v.assumptions = ["end gradients by one-sided differences with step 2e-6*n (1e-3 relative), second derivative 1e-2 of (upper-lower)/n^2"]
    res = tlc.run_tlc("Spacing", "MC_Spacing.cfg", workers=4, timeout=600, env_extra={"TRACE_FILE": os.path.join(VERIF, "spec", "empty_traces.json")}, check=False)
    v.add_tlc(res)
    if not res.ok:
        v.violation("C09 engine=mc violated=%s" % res.violated, "Spacing.tla theorem fails", {"tlc_tail": res.out[-1500:]})
    d = scratch("c09")
    fc = func_cases(tier)
    frecs = run_driver("spacing_run.py", fc, d, "func")
    sc = seg_cases(tier)
    srecs = run_driver("segments_run.py", sc, d, "seg")
    failed, r1 = judge(frecs + [r for r in srecs if r["ok"]], d, "all")
    v.add_tlc(r1)
    v.add_traces(len(frecs) + len(srecs))
    v.add_eval(len(frecs) + len(srecs))
    for r in frecs:
        if r.get("kind") == "sweep":
            v.add_case("sweep n=%d dir=%d form=%s" % (r["n"], r["dir"], r["form"]))
            for cl in sorted(failed.get(r["id"], ())):
                v.violation("C09 engine=sweep clause=%s form=%s" % (cl, r["form"]),
                            "getSmoothMonotonicGridFunc(n=%d, direction %d, gradients given: %s): faces move by %.2f (upper-lower) per unit ln(ratio) near ratio %s (%s)"
                            % (r["n"], r["dir"], r["form"], r["maxslope"] / 1000.0, r.get("at"), r.get("exc", "")), {"case": r})
            continue
        v.add_case("func n=%d dir=%d rl=%s ru=%s" % (r["n"], r["dir"], r["rl"], r["ru"]))
        for cl in sorted(failed.get(r["id"], ())):
            v.violation("C09 engine=spacing clause=%s form=%s near_switch=%d" % (cl, form(r), 1 if (r["near"] or cl == "ContinuousAcrossSwitch") else 0),
                        "clause %s fails for getSmoothMonotonicGridFunc(n=%d, direction %d, end-gradient ratios lower=%s upper=%s): %s"
                        % (cl, r["n"], r["dir"], r["rl"], r["ru"], {k: r[k] for k in ("ok", "ends_exact", "switch_jump", "nested_dev", "grad")}), {"case": r})
    nseg_ok = 0
    for r in srecs:
        v.add_case("segments %s %s" % (r["topo"], json.dumps(sc[r["id"] - 100001]["options"], sort_keys=True)))
        if not r["ok"]:
            v.note("segments_refused_%d" % r["id"], r.get("exc"))
            continue
        nseg_ok += 1
        for cl in sorted(failed.get(r["id"], ())):
            v.violation("C09 engine=segments clause=%s topo=%s" % (cl, r["topo"]), "clause %s fails for the radial segments of %s with options %s" % (cl, r["topo"], sc[r["id"] - 100001]["options"]),
                        {"case": sc[r["id"] - 100001], "observed": r})
    if nseg_ok < 10:
        v.fail_machinery("only %d segment cases generated" % nseg_ok)
    v.note("spacing", {"function_cases": len(frecs), "segment_cases": len(srecs), "segment_cases_generated": nseg_ok, "clauses_failed": sorted({c for s in failed.values() for c in s})})
    v.sample({"engine": "C->S spacing function", "case": {k: [r for r in frecs if r.get("kind") != "sweep"][40][k] for k in ("n", "dir", "rl", "ru", "vals")}})
    v.note("sweeps", {"n": sum(1 for r in frecs if r.get("kind") == "sweep"), "largest_slope": max([r["maxslope"] / 1000.0 for r in frecs if r.get("kind") == "sweep"] or [0])})
    clean = [r for r in frecs if r["id"] not in failed and r["n"] >= 3 and r.get("kind") != "sweep"]
    if clean:
        a = copy.deepcopy(clean[0]); a["id"] = 1; a["steps"][2] = -a["steps"][2]
        b = copy.deepcopy(clean[0]); b["id"] = 2; b["vals"][-1] += 5
        mf, _ = judge([a, b], d, "mut")
        ok = ["Monotone" in mf.get(1, ()), "EndsExact" in mf.get(2, ())]
        v.note("binding_selftest", {"mutants": 2, "rejected_with_expected_clause": sum(ok)})
        if not all(ok):
            v.fail_machinery("binding self-test failed: %s" % mf)
    shutil.rmtree(d, ignore_errors=True)
    # (c) grid traces
    gridprops.run(v, "C09", tier)
    v.exhaustive = False
    return v
