"""C17 - geqdsk write/read round-trips and parses the fixed-width format."""
import copy
import json
import os
import random
import re
import shutil

from .. import tlc
from ..core import PY, VERIF, NCPU, MachineryError, Verdict, repo_env, run_group, scratch, parallel_jobs

SCAL = ["rdim", "zdim", "rcentr", "rleft", "zmid", "rmagx", "zmagx", "simagx", "sibdry", "bcentr", "cpasma"]
PALETTE = [[0, [1, 0, 0, 0, 0, 0, 0, 0, 0, 0], 0, 0], [1, [9] * 10, 1, 99], [0, [0] * 10, 0, 0], [0, [1, 2, 3, 4, 5, 6, 7, 8, 9, 0], 0, 5],
           [1, [1, 0, 0, 0, 0, 0, 0, 0, 0, 0], 1, 10], [0, [9] * 10, 0, 99], [1, [5, 0, 0, 0, 0, 0, 0, 0, 0, 1], 0, 0], [0, [2, 5, 0, 0, 0, 0, 0, 0, 0, 0], 1, 1]]
LAYOUTS = ["f2s", "plus", "lowere", "leadzero", "blank2", "oneperline"]


def rand_val(rng, maxe=99):
    if rng.random() < 0.08:
        return [0, [0] * 10, 0, 0]
    d = [rng.randint(1, 9)] + [rng.randint(0, 9) for _ in range(9)]
    e = rng.randint(0, maxe)
    return [rng.randint(0, 1), d, rng.randint(0, 1) if e else 0, e]


def micro_val(rng, lo, hi):
    """a value that is a multiple of 1e-3 (exact in micro-units), as a digit record"""
    n = rng.randint(lo, hi)          # thousandths
    if n == 0:
        return [0, [0] * 10, 0, 0]
    s = str(abs(n))
    e = len(s) - 1 - 3
    ds = [int(c) for c in (s + "0" * 10)[:10]]
    return [1 if n < 0 else 0, ds, 1 if e < 0 else 0, abs(e)]


def dataset(rng, nx, ny, nb, nl, hasff, haspp, shift=None):
    cnt = [0]

    def val():
        if shift is None:
            return rand_val(rng)
        cnt[0] += 1
        return PALETTE[(cnt[0] + shift) % len(PALETTE)]

    d = {"nx": nx, "ny": ny, "hasff": 1 if hasff else 0, "haspp": 1 if haspp else 0}
    d["sc"] = {n: val() for n in SCAL}
    # scalars used by the mapping clause: multiples of 1e-3
    d["sc"]["rleft"] = micro_val(rng, 100, 3000)
    d["sc"]["rdim"] = micro_val(rng, 500, 4000)
    d["sc"]["zmid"] = micro_val(rng, -1000, 1000)
    d["sc"]["zdim"] = micro_val(rng, 500, 6000)
    d["sc"]["simagx"] = micro_val(rng, -2000, 2000)
    d["sc"]["sibdry"] = micro_val(rng, -2000, 2000)
    for n in ("fpol", "pres", "ffprime", "pprime", "qpsi"):
        d[n] = [val() for _ in range(nx)]
    d["psi"] = [[val() for _ in range(ny)] for _ in range(nx)]
    d["bdry"] = [[val(), val()] for _ in range(nb)]
    d["lim"] = [[val(), val()] for _ in range(nl)]
    return d


def gen(tier, seed):
    rng = random.Random(seed * 17 + 17)
    sets = []

    def add(d, **kw):
        sets.append(dict(id=len(sets) + 1, d=d, layouts=LAYOUTS, map=True, **kw))

    # the MC box: every shape modulo the 5-per-line chunking, optional entries present or not, palette values by shift
    shapes = [(nx, ny, nb, nl) for nx in range(1, 8) for ny in (1, 2, 3) for nb in (0, 1, 3) for nl in (0, 2, 3)]
    if tier == "quick":
        shapes = rng.sample(shapes, 60) + [(5, 1, 0, 0), (6, 3, 3, 3), (1, 1, 0, 0), (10, 2, 5, 5)]
    for n, (nx, ny, nb, nl) in enumerate(shapes):
        add(dataset(rng, nx, ny, nb, nl, n % 2 == 0, n % 3 == 0, shift=n))
    # seeded random decimal values over the full two-digit exponent range, header variants
    for k in range(40 if tier == "quick" else 400):
        nx, ny = rng.randint(1, 12), rng.randint(1, 9)
        add(dataset(rng, nx, ny, rng.randint(0, 7), rng.randint(0, 7), rng.random() < 0.5, rng.random() < 0.5),
            label=rng.choice([None, "EFITD", "A B", "X 12 3", "LABEL678901"]), shot=rng.choice([None, 0, 147131, "# 1"]), time=rng.choice([None, 0, 4500, " 10ms"]))
    for nx, ny in ([(33, 65), (65, 33)] if tier == "quick" else [(33, 65), (65, 33), (129, 129), (999, 2)]):
        add(dataset(rng, nx, ny, 11, 17, True, False))
    # four-digit sizes: the (3i4) header fields abut
    add(dataset(rng, 1000, 1, 0, 0, False, False, shift=1), wide=True)
    add(dataset(rng, 2, 1000, 0, 0, False, False, shift=2), wide=True)
    # ... also when the word before the three integers is itself a number (a time given as a digit string): the fixed-width fields decide,
    # not the whitespace-separated words (seeded change C17_header_split_first)
    add(dataset(rng, 1000, 3, 0, 0, False, False, shift=3), wide=True, time="  250")
    add(dataset(rng, 3, 1000, 2, 0, False, False, shift=4), wide=True, shot=4321, time="  250")
    add(dataset(rng, 1025, 2, 0, 3, True, False, shift=5), wide=True, label="EFIT", time="t = 1500")
    add(dataset(rng, 12, 7, 1, 1, False, True, shift=6), time="  250")
    add(dataset(rng, 7, 12, 1, 1, False, True, shift=7), shot=77, time="99")
    # two- and three-digit boundary / limiter counts, each alone and together (seeded change C17_regex_single_leading_digit)
    for n, (nb, nl) in enumerate([(10, 0), (0, 12), (12, 10), (100, 3), (4, 101)]):
        add(dataset(rng, 4 + n, 3, nb, nl, n % 2 == 0, n % 2 == 1, shift=8 + n))
    return sets


def judge(recs, tag):
    d = scratch("c17_" + tag)
    nchunk = max(1, min(NCPU, len(recs) // 4))
    jobs = []
    for n in range(nchunk):
        ch = recs[n::nchunk]
        tf = os.path.join(d, "tr%d.json" % n)
        with open(tf, "w") as fh:
            json.dump({"traces": ch}, fh)
        jobs.append(lambda tf=tf, ch=ch: (tlc.run_tlc("Trace_Geqdsk", "Trace_Geqdsk.cfg", workers=1, timeout=3000, env_extra={"TRACE_FILE": tf}, check=False, heap="4g"), ch))
    failed, results = {}, []
    for res, ch in parallel_jobs(jobs):
        if not res.ok:
            raise MachineryError("Trace_Geqdsk failed (violated=%s)\n%s" % (res.violated, res.out[-2500:]))
        if res.distinct != 2 * len(ch):
            raise MachineryError("Trace_Geqdsk: %d states for %d traces" % (res.distinct, len(ch)))
        results.append(res)
        for m in re.finditer(r'<<\s*"CLAUSE-FAILED",\s*"(\w+)",\s*(\d+)\s*>>', res.out):
            failed.setdefault(int(m.group(2)), set()).add(m.group(1))
    shutil.rmtree(d, ignore_errors=True)
    return failed, results


def run_driver(sets, tag):
    d = scratch("c17d_" + tag)
    nchunk = max(1, min(NCPU, len(sets) // 3))
    jobs = []
    for n in range(nchunk):
        ch = sets[n::nchunk]
        inp, outp = os.path.join(d, "in%d.json" % n), os.path.join(d, "out%d.json" % n)
        with open(inp, "w") as fh:
            json.dump(ch, fh)

        def job(inp=inp, outp=outp):
            rc, out, err = run_group([PY, "-B", os.path.join(VERIF, "harness/drivers/geqdsk_run.py"), inp, outp], timeout=1800, env=repo_env())
            if rc != 0 or not os.path.exists(outp):
                raise MachineryError("geqdsk_run failed rc=%s\n%s" % (rc, (out + err)[-2000:]))
            with open(outp) as fh:
                return json.load(fh)

        jobs.append(job)
    recs = sorted((r for rs in parallel_jobs(jobs) for r in rs), key=lambda r: r["id"])
    shutil.rmtree(d, ignore_errors=True)
    return recs


def run(tier, seed):
    v = Verdict("C17", tier, seed, "model_checking")
    v.rule = ("MC: Geqdsk.tla - the tokenizer (regular expression with findall semantics) returns exactly the written values for every line of up to "
              "2 (thorough 3) palette values in every layout incl. abutting fields; Parse(Print(d)) = d at token and at character level for every shape "
              "nx 1..6, ny 1..3, 0..3 boundary/limiter points, optional entries present or not; header parse. C->S: data sets (box shapes with palette "
              "values, seeded shapes with random ten-digit decimals over the whole two-digit exponent range, 33x65 / 65x33) written by the real writer: "
              "text compared character for character with BodyLines(d); the real reader's result for the text and for five re-laid-out variants compared "
              "with d; read_geqdsk's axes, psi index order and wall. A case is one data set.")
    v.assumptions = ["values are ten-significant-digit decimals; floats are rendered back to decimals with a plain E-format conversion",
                     "the date in the header is not compared (only the last twelve characters and the parse)"]
    res = tlc.run_tlc("MC_Geqdsk", "MC_Geqdsk_%s.cfg" % tier, timeout=3000, check=False)
    v.add_tlc(res)
    if not res.ok:
        if res.violated:
            v.violation("C17 engine=mc violated=%s" % res.violated, "theorem %s of Geqdsk.tla fails" % res.violated, {"tlc_tail": res.out[-2000:]})
        else:
            v.fail_machinery("MC_Geqdsk did not finish: " + res.out[-1000:])
    sets = gen(tier, seed)
    recs = run_driver(sets, "main")
    failed, results = judge(recs, "main")
    for r in results:
        v.add_tlc(r)
    v.add_traces(len(recs))
    for r in recs:
        d = r["d"]
        v.add_eval(1 + len(r["reads"]))
        v.add_case("nx=%d ny=%d nb=%d nl=%d ff=%d pp=%d first=%s" % (d["nx"], d["ny"], len(d["bdry"]), len(d["lim"]), d["hasff"], d["haspp"], d["fpol"][0]))
        for cl in sorted(failed.get(r["id"], ())):
            excs = [x.get("exc") for x in r["reads"] if not x["ok"]]
            key = "C17 engine=geqdsk clause=%s%s" % (cl, " sizes>=1000" if max(d["nx"], d["ny"]) >= 1000 else "")
            v.violation(key, "clause %s fails for data set nx=%d ny=%d nb=%d nl=%d hasff=%d haspp=%d %s" % (cl, d["nx"], d["ny"], len(d["bdry"]), len(d["lim"]), d["hasff"], d["haspp"], excs[:2]),
                        {"dataset": d, "driver": "harness/drivers/geqdsk_run.py"})
    v.note("geqdsk", {"datasets": len(recs), "layouts": LAYOUTS, "clauses_failed": sorted({c for s in failed.values() for c in s})})
    v.sample({"engine": "C->S geqdsk", "shape": [recs[0]["d"]["nx"], recs[0]["d"]["ny"]], "first_line": "".join(map(chr, recs[0]["lines"][1]))})
    clean = [r for r in recs if r["id"] not in failed and r["d"]["nx"] >= 3 and r["d"]["ny"] >= 2]
    if clean:
        a = copy.deepcopy(clean[0]); a["id"] = 1
        a["reads"][0]["data"]["psi"][0][1], a["reads"][0]["data"]["psi"][1][0] = a["reads"][0]["data"]["psi"][1][0], a["reads"][0]["data"]["psi"][0][1]
        b = copy.deepcopy(clean[0]); b["id"] = 2
        b["lines"][2][0] = 43
        mf, _ = judge([a, b], "mut")
        ok = ["ReadBack_f2s" in mf.get(1, ()), "TextIsPrint" in mf.get(2, ())]
        v.note("binding_selftest", {"mutants": 2, "rejected_with_expected_clause": sum(ok)})
        if not all(ok):
            v.fail_machinery("binding self-test failed: %s" % mf)
    v.exhaustive = False
    return v
