"""C13 - parallel execution is observationally equivalent to serial execution."""
import json
import os
import random
import shutil

from .. import tlc
from ..core import PY, VERIF, MachineryError, Verdict, repo_env, run_group, scratch, parallel_jobs, NCPU

ACTIONS = ["CallStart", "SerialStep", "ParentPut", "WorkerTake", "WorkerDone", "WorkerRaise", "ParentGetAt",
           "ParentCheckTask", "ParentCheckRes", "ParentReturn", "ParentRaise", "Shutdown"]

ACT_OP = {"ParentPut": "P:tput", "ParentGet": "P:rget", "ParentCheckTask": "P:tempty", "ParentCheckRes": "P:rempty",
          "WorkerTake": "%d:tget", "WorkerDone": "%d:rput", "WorkerRaise": "%d:rput", "SerialStep": "P:serial"}


def jstate(st):
    return {
        "taskQ": [[m["c"], m["i"]] for m in st["taskQ"]],
        "resQ": [[m["c"], m["i"], m["v"]] for m in st["resQ"]],
        "w": {str(k + 1): [x["st"], x["c"], x["i"]] for k, x in enumerate(st["w"])},
        "pc": st["pc"], "call": st["call"], "nput": st["nput"], "nget": st["nget"],
        "raisedIdx": st["raisedIdx"],
    }


def jcfg(st):
    c = st["cfg"]
    return {"nw": c["nw"], "nts": list(c["nts"]), "fail": [sorted(f) for f in c["fail"]]}


def split_label(lab):
    if "(" in lab:
        name, k = lab[:lab.index("(")], int(lab[lab.index("(") + 1:-1])
        if name == "ParentGetAt":      # the parameter is the queue position, not a worker
            return "ParentGet", 0
        return name, k
    return lab, 0


def behaviours_from_graph(dot, rng, max_paths=None):
    states, inits, edges = tlc.parse_dot(dot)
    # enabled (actor:op) sets per state, from the spec graph
    enabled = {}
    actor = {}
    edges = [(a, b) + split_label(lab) for (a, b, lab) in edges]
    for n, (a, b, lab, k) in enumerate(edges):
        actor[n] = k
        if lab in ACT_OP:
            op = ACT_OP[lab]
            enabled.setdefault(a, set()).add(op % k if "%d" in op else op)
    edges2 = [(a, b, l) for (a, b, l, k) in edges if l != "Terminated"]
    idx = [n for n, e in enumerate(edges) if e[2] != "Terminated"]
    paths = tlc.edge_cover_paths(inits, edges2)
    if max_paths and len(paths) > max_paths:
        paths = rng.sample(paths, max_paths)
    behs = []
    for pn, path in enumerate(paths):
        first = edges2[path[0]][0]
        steps = []
        for n in path:
            a, b, lab = edges2[n]
            st = jstate(states[b])
            steps.append({"action": lab, "k": actor[idx[n]], "state": st, "enabled": sorted(enabled.get(b, set()))})
        behs.append({"id": pn, "cfg": jcfg(states[first]), "steps": steps})
    return behs, len(states), len(edges2)


def run_sched(behs, v, tag):
    """Run behaviours through the real code in parallel subprocesses."""
    d = scratch("c13_" + tag)
    nchunk = min(NCPU, max(1, len(behs) // 20))
    chunks = [behs[i::nchunk] for i in range(nchunk)]
    jobs = []
    for n, ch in enumerate(chunks):
        inp = os.path.join(d, "in%d.json" % n)
        outp = os.path.join(d, "out%d.json" % n)
        with open(inp, "w") as fh:
            json.dump(ch, fh)

        def job(inp=inp, outp=outp):
            rc, out, err = run_group([PY, "-B", os.path.join(VERIF, "harness/drivers/pmap_sched.py"), inp, outp],
                                     timeout=600, env=repo_env())
            if rc != 0 or not os.path.exists(outp):
                raise MachineryError("pmap_sched failed rc=%s\n%s" % (rc, (out + err)[-2000:]))
            with open(outp) as fh:
                return json.load(fh)

        jobs.append(job)
    results = [r for rs in parallel_jobs(jobs) for r in rs]
    byid = {b["id"]: b for b in behs}
    nsteps = 0
    nrun = 0
    for r in results:
        if r.get("skip"):
            continue
        nrun += 1
        b = byid[r["id"]]
        nsteps += len(b["steps"])
        v.add_case("cfg=%s path=%s" % (json.dumps(b["cfg"], sort_keys=True), "".join(s["action"][0] + s["action"][6:7] + str(s["k"]) for s in b["steps"])))
        if not r["ok"]:
            act = r.get("action", "?")
            field = ",".join(sorted(r.get("diffs", {}).keys())) or r.get("why", "")
            failing = bool(any(b["cfg"]["fail"]))
            key = "C13 engine=sched action=%s field=%s failing_task=%s" % (act, field, failing)
            v.violation(key, "real ParallelMap deviates from ParallelMap.tla at step %s (%s): %s" % (r.get("step"), act, json.dumps(r.get("diffs", r.get("why")))[:600]),
                        {"behaviour": b, "result": r, "driver": "harness/drivers/pmap_sched.py"})
    shutil.rmtree(d, ignore_errors=True)
    return nrun, nsteps


def run(tier, seed):
    v = Verdict("C13", tier, seed, "model_checking")
    rng = random.Random(seed)
    v.rule = ("MC: every interleaving of the ParallelMap.tla box (workers x task counts x failing subsets x 2 successive calls). "
              "S->C: a set of paths covering every edge of the specification's state graph, each replayed through the real "
              "ParallelMap with a deterministic scheduler; a case is one (configuration, action path); all are non-trivial "
              "(every path contains at least one queue operation or a whole serial call). C->S: real multiprocessing runs, "
              "queue operations logged per process, linearised by TLC against the specification.")
    v.assumptions = ["fake multiprocessing (threads + scheduler) preserves the semantics of Queue.put/get/empty and Process",
                     "real-process traces: put logged at call, get logged at return; per-process order only"]
    # 1. model checking
    cfg = "MC_ParallelMap_quick.cfg" if tier == "quick" else "MC_ParallelMap_thorough.cfg"
    res = tlc.run_tlc("MC_ParallelMap", cfg, coverage=True, timeout=3000, check=False)
    v.add_tlc(res)
    if not res.ok:
        if res.violated:
            v.violation("C13 engine=mc violated=%s" % res.violated, "TLC: %s violated in ParallelMap.tla (%s)" % (res.violated, cfg), {"tlc_tail": res.out[-3000:]})
        else:
            v.fail_machinery("TLC did not finish: " + res.out[-1500:])
    nt = tlc.never_taken(res, ACTIONS)
    if res.ok and nt:
        v.fail_machinery("actions never taken in MC: %s" % nt)
    # 1b. the design without a failure path must hang (spec-level self test)
    r2 = tlc.run_tlc("MC_ParallelMap", "MC_ParallelMap_asis.cfg", timeout=600, check=False)
    v.note("asis_mode_deadlocks", r2.violated == "deadlock")
    if r2.violated != "deadlock":
        v.fail_machinery("AsIs mode was expected to deadlock in TLC, got %s" % r2.violated)
    # 2. S->C
    d = scratch("c13_dot")
    dot = os.path.join(d, "g.dot")
    s2c_cfg = "MC_ParallelMap_s2c.cfg" if tier == "quick" else "MC_ParallelMap_quick_nolive.cfg"
    r3 = tlc.run_tlc("MC_ParallelMap", s2c_cfg, workers=8, dump_dot=dot, timeout=1200)
    behs, ns, ne = behaviours_from_graph(dot, rng)
    shutil.rmtree(d, ignore_errors=True)
    nrun, nsteps = run_sched(behs, v, "sched")
    v.add_traces(nrun)
    v.add_eval(nsteps)
    v.note("s2c", {"graph_states": ns, "graph_edges": ne, "paths": len(behs), "paths_run": nrun, "steps_compared": nsteps, "cfg": s2c_cfg, "edge_cover": "complete"})
    if behs:
        b = behs[len(behs) // 2]
        v.sample({"engine": "S->C", "cfg": b["cfg"], "actions": [(s["action"], s["k"]) for s in b["steps"]]})
    # 3. C->S real processes
    from . import c13_real
    c13_real.run(v, tier, seed)
    # 4. C->S complete grids: generated with 2 / 3 worker processes and serially, every numeric variable of the two files compared
    from .. import campaign, gridprops
    from ..core import PY, VERIF, MachineryError, repo_env, run_group, parallel_jobs
    pairs = campaign.C13_PAIRS if tier == "thorough" else campaign.C13_PAIRS[:2]
    grids = campaign.ensure(sorted({n for p in pairs for n in p}))
    jobs = []
    for n, (a, b) in enumerate(pairs):
        (da, sa), (db, sb) = grids[a], grids[b]
        v.add_case("serial / parallel grid %s / %s" % (a, b))
        if (sa["outcome"] == "file") != (sb["outcome"] == "file"):
            v.violation("C13 engine=gridpair clause=ParallelOutcomeIsSerialOutcome pair=%s/%s" % (a, b),
                        "the serial run ends in %s, the run with worker processes in %s" % (sa.get("exception", sa["outcome"]), sb.get("exception", sb["outcome"])),
                        {"pair": [a, b], "outcomes": [sa["outcome"], sb["outcome"]]})
            continue
        if sa["outcome"] != "file":
            continue
        outp = os.path.join(da, "gt_C13_%s.json" % b)

        def job(da=da, db=db, outp=outp, a=a, b=b, n=n):
            rc, out, err = run_group([PY, "-B", os.path.join(VERIF, "harness/project.py"), da, "C13", "--pair", db, "parallel", outp], timeout=600, env=repo_env())
            if rc != 0 or not os.path.exists(outp):
                raise MachineryError("pair projection failed %s %s\n%s" % (a, b, (out + err)[-2000:]))
            with open(outp) as fh:
                t = json.load(fh)
            t["id"] = 8000 + n
            t["pair"] = "%s/%s" % (a, b)
            return t

        jobs.append(job)
    ptr = parallel_jobs(jobs)
    pf, pres = gridprops.validate(ptr, "C13p")
    for r in pres:
        v.add_tlc(r)
    v.add_traces(len(ptr))
    for t in ptr:
        v.add_eval(t["nvars"])
        for cl, loc in sorted(pf.get(t["id"], ())):
            if gridprops.clause_prop(cl) == "C13":
                v.violation("C13 engine=gridpair clause=%s pair=%s" % (cl, t["pair"]), "the grid generated with worker processes differs from the serial grid in %d of %d variables: %s"
                            % (t["ndiff"], t["nvars"], t["differing"]), {"pair": t["pair"], "differing": t["differing"]})
    v.note("serial_vs_parallel_grids", {"pairs": [t["pair"] for t in ptr], "variables_compared": [t["nvars"] for t in ptr]})
    if not ptr:
        v.fail_machinery("no serial / parallel grid pair was generated")
    v.exhaustive = False
    return v
