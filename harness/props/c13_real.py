"""C13, C->S engine: real worker processes, traces linearised by TLC."""
import json
import os
import random
import re
import shutil

from .. import tlc
from ..core import PY, VERIF, NCPU, MachineryError, repo_env, run_group, scratch, parallel_jobs


class InvariantViolated(Exception):
    pass


def make_runs(tier, seed):
    rng = random.Random(seed * 7919 + 13)
    runs = []

    def add(np_, nts, fail, exckind="plain"):
        delays = [[rng.choice([0, 0, 1, 3, 8, 15]) for _ in range(n)] for n in nts]
        runs.append({"id": len(runs) + 1, "np": np_, "nts": nts, "fail": fail, "delays": delays, "exckind": exckind})

    # a failing task at every position, for 2..4 workers
    for np_ in (2, 3, 4):
        nt = {2: 3, 3: 5, 4: 6}[np_]
        for pos in range(1, nt + 1):
            add(np_, [nt, 2], [[pos], []])
    # no failures, several sizes, two or three successive calls; serial mode too
    for np_ in (1, 2, 3, 4):
        add(np_, [0], [[]])
        add(np_, [1, 0, 2], [[], [], []])
        add(np_, [7, 4], [[], []])
        add(np_, [3, 3], [[2, 3], [1]])
    add(4, [12], [[]])
    add(2, [12, 1], [[12], [1]])
    # failures whose exception plain pickle cannot encode (a class defined inside a function, as hypnotoad's MaxIterException is; an attribute
    # that is a lambda) or cannot rebuild (a constructor that does not take the message): the same behaviours (seed C13_failure_sent_unpickled)
    for kind in ("local", "attr", "ctor"):
        for np_ in (1, 2, 3):
            add(np_, [4, 3], [[2], []], kind)
            add(np_, [3, 2], [[1, 3], [2]], kind)
    n_extra = 12 if tier == "quick" else 150
    for _ in range(n_extra):
        np_ = rng.choice([1, 2, 2, 3, 3, 4])
        nts = [rng.randint(0, 12 if tier == "thorough" else 8) for _ in range(rng.choice([1, 2, 3]))]
        fail = [sorted(rng.sample(range(1, n + 1), rng.choice([0, 0, 1, 2]) if n >= 2 else 0)) for n in nts]
        add(np_, nts, fail, rng.choice(["plain", "plain", "local", "attr", "ctor"]))
    return runs


def run(v, tier, seed):
    runs = make_runs(tier, seed)
    d = scratch("c13_real")
    nchunk = min(NCPU, len(runs))
    jobs = []
    for n in range(nchunk):
        ch = runs[n::nchunk]
        inp, outp = os.path.join(d, "in%d.json" % n), os.path.join(d, "out%d.json" % n)
        with open(inp, "w") as fh:
            json.dump(ch, fh)

        def job(inp=inp, outp=outp, nch=len(ch)):
            rc, out, err = run_group([PY, "-B", os.path.join(VERIF, "harness/drivers/pmap_real.py"), inp, outp],
                                     timeout=60 + 15 * nch, env=repo_env())
            if rc != 0 or not os.path.exists(outp):
                raise MachineryError("pmap_real failed rc=%s\n%s" % (rc, (out + err)[-2000:]))
            with open(outp) as fh:
                return json.load(fh)

        jobs.append(job)
    traces = sorted((t for ts in parallel_jobs(jobs) for t in ts), key=lambda t: t["id"])
    try:
        verdicts = validate(traces, d)
    except InvariantViolated as e:
        v.violation("C13 engine=real invariant=%s" % e.args[0],
                    "a real-process trace drives ParallelMap.tla into a state violating %s" % e.args[0], {"tlc_tail": e.args[1]})
        shutil.rmtree(d, ignore_errors=True)
        return
    byid = {r["id"]: r for r in runs}
    nacc = 0
    for t, (got, total) in zip(traces, verdicts):
        r = byid[t["id"]]
        v.add_case("real np=%d nts=%s fail=%s exception=%s delays=%s" % (r["np"], r["nts"], r["fail"], r["exckind"], r["delays"]))
        if got == total and not t["hung"]:
            nacc += 1
        else:
            failing = any(r["fail"])
            key = "C13 engine=real outcome=%s failing_task=%s%s" % ("hang" if t["hung"] else "rejected", failing,
                                                                      " exception=%s" % r["exckind"] if failing and r["exckind"] != "plain" else "")
            v.violation(key, "real-process trace not a behaviour of ParallelMap.tla: np=%d nts=%s fail=%s; TLC explained %d of %d events%s"
                        % (r["np"], r["nts"], r["fail"], got, total, "; the call blocked until the watchdog fired" if t["hung"] else ""),
                        {"run": r, "trace": t, "driver": "harness/drivers/pmap_real.py"})
    v.add_traces(len(traces))
    v.add_eval(sum(tot for _, tot in verdicts))
    v.note("c2s_real", {"runs": len(runs), "accepted": nacc, "events": sum(tot for _, tot in verdicts)})
    if traces:
        t = traces[0]
        v.sample({"engine": "C->S real processes", "cfg": t["cfg"], "parent_events": [(e["op"], e["c"], e["i"]) for e in t["ev"][0]][:14]})
    # binding self-test: corrupt one recorded field of an accepted trace; TLC must reject it
    good = [t for t, (g, tot) in zip(traces, verdicts) if g == tot and not t["hung"] and t["cfg"]["nw"] >= 2
            and t["cfg"]["nts"][0] >= 3 and not any(t["cfg"]["fail"])]
    if good:
        import copy

        muts = []
        t1 = copy.deepcopy(good[0])
        gets = [e for e in t1["ev"][0] if e["op"] == "rget"]
        gets[0]["i"], gets[1]["i"] = gets[1]["i"], gets[1]["i"]  # the same index received twice
        muts.append(t1)
        t2 = copy.deepcopy(good[0])
        for e in t2["ev"][0]:
            if e["op"] == "ret" and e["res"]:
                e["res"][0][1] = e["res"][0][1] + 1  # result at the wrong position
                break
        else:
            for e in t2["ev"][0]:
                if e["op"] == "raise":
                    e["i"] += 1
                    break
        muts.append(t2)
        t3 = copy.deepcopy(good[0])
        for w in t3["ev"][1:]:
            if w:
                del w[0]  # a worker puts a result for a task it never took
                break
        muts.append(t3)
        mv = validate(muts, d)
        rejected = [g < tot for g, tot in mv]
        v.note("binding_selftest_real", {"mutants": len(muts), "rejected": sum(rejected)})
        if not all(rejected):
            v.fail_machinery("trace-spec binding self-test: a corrupted trace was accepted %s" % mv)
    shutil.rmtree(d, ignore_errors=True)


def validate(traces, d):
    """returns [(events explained, events total)] per trace, decided by TLC"""
    if not traces:
        return []
    tf = os.path.join(d, "traces.%d.json" % random.randrange(10**9))
    with open(tf, "w") as fh:
        json.dump({"traces": [{"cfg": t["cfg"], "ev": t["ev"]} for t in traces]}, fh)
    res = tlc.run_tlc("Trace_ParallelMap", "Trace_ParallelMap.cfg", workers=1, timeout=1200,
                      env_extra={"TRACE_FILE": tf}, check=False)
    if res.violated and res.violated not in ("postcondition",):
        # an invariant of the specification failed in a state reached while explaining a trace
        raise InvariantViolated(res.violated, res.out[-2500:])
    m = re.search(r'<<\s*"PROGRESS",\s*(<<.*?>>),\s*(<<.*?>>)\s*>>', res.out, re.S)
    if not m:
        raise MachineryError("no PROGRESS line from Trace_ParallelMap:\n" + res.out[-2500:])
    got = tlc.parse_value(m.group(1))
    tot = tlc.parse_value(m.group(2))
    return list(zip(got, tot))
