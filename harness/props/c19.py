"""C19 - critical points are found, classified, ordered and selected correctly."""
import copy
import json

import numpy as np
import os
import random
import re
import shutil

from .. import tlc
from ..core import MachineryError, Verdict, scratch
from .c11 import run_driver

W = 0.3
BASE = {
    "lsn": [[1, 1.5, 0.15, W], [1, 1.5, -0.45, W]],
    "usn": [[1, 1.5, -0.15, W], [1, 1.5, 0.45, W]],
    "cdn": [[1, 1.5, 0.0, W], [1, 1.5, -0.6, W], [1, 1.5, 0.6, W]],
    "ldn": [[1, 1.5, 0.0, W], [1, 1.5, -0.6, W], [1, 1.5, 0.61, W]],
    "udn": [[1, 1.5, 0.0, W], [1, 1.5, -0.61, W], [1, 1.5, 0.6, W]],
    "ldn_tilt": [[1, 1.5, 0.0, W], [1, 1.47, -0.6, W], [1, 1.54, 0.615, W]],
    # a lower single null with a further lobe outside the wall (its O- and X-point must be found, the X-point not selected)
    "lsn_far": [[1, 1.5, 0.15, W], [1, 1.5, -0.45, W], [0.35, 1.93, 0.52, 0.1]],
    # ... and with a small lobe inside the wall, beyond psinorm_sol
    "lsn_bump": [[1, 1.5, 0.15, W], [1, 1.5, -0.45, W], [0.12, 1.72, 0.25, 0.07]],
    "off_axis": [[1, 1.42, 0.12, W], [0.9, 1.55, -0.47, W]],
    # strongly tilted divertors (the coil lobe 35 and 28 degrees from the vertical): BOTH strike points lie on the same side of the X-point's
    # major radius - outboard for the lower X-point tilted outwards, inboard for the upper one tilted inwards - so inner / outer can only be told by
    # comparing the two strike points with each other (seed C19_inner_leg_by_xpoint_radius compared the first leg's with the X-point)
    "tilt_out_lower": [[1, 1.5, 0.15, W], [1, 1.5 + 0.6 * 0.5736, 0.15 - 0.6 * 0.8192, W]],
    "tilt_in_upper": [[1, 1.5, -0.15, W], [1, 1.5 - 0.6 * 0.5736, -0.15 + 0.6 * 0.8192, W]],
    "tilt_in_lower": [[1, 1.5, 0.15, W], [1, 1.5 - 0.6 * 0.4695, 0.15 - 0.6 * 0.8829, W]],
    "tilt_out_upper": [[1, 1.5, -0.15, W], [1, 1.5 + 0.6 * 0.4695, -0.15 + 0.6 * 0.8829, W]],
    # the lower lobe lies wholly inside the wall: the separatrix closes round it (legs never reach the wall) and the X-point between the
    # lower lobe and a third one is hidden from the axis (psi not monotone on the line from the axis)
    "closed": [[1, 1.5, 0.1, 0.2], [1, 1.5, -0.3, 0.2], [0.8, 1.82, -0.32, 0.13]],
}
SOLS = {"lsn": (1.05, 1.2), "usn": (1.05, 1.2), "cdn": (1.05, 1.2), "ldn": (1.03, 1.2), "udn": (1.03, 1.2), "ldn_tilt": (1.03, 1.25), "lsn_far": (1.1, 3.5),
        "lsn_bump": (1.1, 2.5), "off_axis": (1.05, 1.2), "closed": (1.1, 1.3),
        "tilt_out_lower": (1.1, 1.15), "tilt_in_upper": (1.1, 1.15), "tilt_in_lower": (1.1, 1.15), "tilt_out_upper": (1.1, 1.15)}


def make_cases(tier, seed):
    rng = random.Random(seed * 7 + 19)
    cases = []
    res = [(65, 65), (33, 33)] if tier == "quick" else [(65, 65), (33, 33), (129, 129), (48, 80), (100, 40)]
    shifts = [(0.0, 0.0), (0.37, 0.21), (0.5, 0.5)] if tier == "quick" else [(0.0, 0.0), (0.37, 0.21), (0.5, 0.5), (0.13, 0.77), (0.5, 0.0), (0.92, 0.41)]
    for name, lobes in BASE.items():
        for (nR, nZ) in res:
            hR, hZ = 1.0 / (nR - 1), 1.4 / (nZ - 1)
            for (fr, fz) in shifts:
                for sign in (1, -1):
                    for sol in SOLS[name]:
                        if tier == "quick" and (fr, fz) != (0.0, 0.0) and sign == -1 and sol == SOLS[name][1]:
                            continue
                        lb = [[a, r + fr * hR, z + fz * hZ, w] for a, r, z, w in lobes]
                        cases.append({"id": len(cases) + 1, "family": name, "lobes": lb, "nR": nR, "nZ": nZ, "sign": sign, "psinorm_sol": sol,
                                      "nx_inter_sep": 1 if name in ("ldn", "udn", "ldn_tilt") else 0})
    # the same configurations displaced by +-0.9 m in Z together with their domain and wall: nothing in the property refers to Z = 0
    # (seed C19_lower_upper_by_z_sign decided lower / upper double null by the sign of the primary X-point's Z)
    for name in ("ldn", "udn", "lsn", "usn", "cdn"):
        for zoff in (0.9, -0.9):
            for sign in (1, -1):
                nR, nZ = res[0]
                cases.append({"id": len(cases) + 1, "family": name + "_zoff", "lobes": [list(lb) for lb in BASE[name]], "nR": nR, "nZ": nZ, "sign": sign, "zoff": zoff,
                              "psinorm_sol": SOLS[name][1], "nx_inter_sep": 1 if name in ("ldn", "udn") else 0})
    # a single critical point of a pure quadratic (which the spline reproduces exactly) at exact fractions of a cell, including the
    # mid-lines where two or four grid nodes are equally close: find_critical only, no equilibrium is built
    for (nR, nZ) in res[:2]:
        hR, hZ = 1.0 / (nR - 1), 1.4 / (nZ - 1)
        for (fr, fz) in [(0.0, 0.0), (0.5, 0.0), (0.0, 0.5), (0.5, 0.5), (0.25, 0.5), (0.5, 0.75)]:
            for k in (1.3, -1.3):
                for sign in (1, -1):
                    cases.append({"id": len(cases) + 1, "family": "quad_%s_%s_%s" % ("X" if k < 0 else "O", str(fr).replace(".", "p"), str(fz).replace(".", "p")),
                                  "lobes": [["quadnode", nR // 2 - 2, fr, nZ // 2, fz, k]], "nR": nR, "nZ": nZ, "sign": sign, "psinorm_sol": 1.1, "nx_inter_sep": 0, "notok": 1})
    # two O-points of which the one nearest the centre of the (non-square, 1 m x 1.4 m) domain in metres is NOT the nearest in
    # domain-normalised coordinates: the primary O-point is defined by distance (seeded change C19_opoint_normalised_distance)
    for (nR, nZ) in res[:2]:
        for sign in (1, -1):
            for (dr, dz) in [(0.0, 0.0), (0.37, 0.21)]:
                hR, hZ = 1.0 / (nR - 1), 1.4 / (nZ - 1)
                cases.append({"id": len(cases) + 1, "family": "two_o_aspect", "lobes": [[1, 1.83 + dr * hR, 0.04 + dz * hZ, 0.22], [0.9, 1.5 + dr * hR, -0.42 + dz * hZ, 0.22]],
                              "nR": nR, "nZ": nZ, "sign": sign, "psinorm_sol": 1.1, "nx_inter_sep": 0, "notok": 1})
    # an X-point behind a coil lobe that is STRONGER than the plasma: on the straight line from the axis psi first goes beyond the axis value
    # and then falls to the X-point's - not monotone, so that X-point is not returned (seeded change C19_monotone_filter_abs kept it,
    # because |psi - psi_axis| still has its maximum at the X-point)
    for (nR, nZ) in res[:2]:
        for sign in (1, -1):
            for (dr, dz) in [(0.0, 0.0), (0.37, 0.21)]:
                hR, hZ = 1.0 / (nR - 1), 1.4 / (nZ - 1)
                cases.append({"id": len(cases) + 1, "family": "strong_coil",
                              "lobes": [[1, 1.5 + dr * hR, 0.05 + dz * hZ, 0.16], [1.4, 1.5 + dr * hR, -0.30 + dz * hZ, 0.12], [0.15, 1.5 + dr * hR, -0.62 + dz * hZ, 0.08]],
                              "nR": nR, "nZ": nZ, "sign": sign, "psinorm_sol": 1.1, "nx_inter_sep": 0, "notok": 1})
    # tilted, elongated critical points (the mixed second derivative is not zero): quadratic O- and X-points, and a lower single null with a
    # tilted elliptical core
    for (nR, nZ) in res[:2]:
        for (a, b) in [(2.0, 1.0), (3.24, 1.0), (6.0, 1.0), (2.0, -1.0), (1.0, -3.0)]:
            for th in ([30, 45, -45] if tier == "quick" else [15, 30, 45, 60, -45, 75]):
                for sign in (1, -1):
                    cases.append({"id": len(cases) + 1, "family": "quadrot_%s_%s_%s" % ("X" if b < 0 else "O", str(a).replace(".", "p"), th),
                                  "lobes": [["quadrotnode", nR // 2 - 2, 0.3, nZ // 2 + 1, 0.2, a, b, th]], "nR": nR, "nZ": nZ, "sign": sign, "psinorm_sol": 1.1,
                                  "nx_inter_sep": 0, "notok": 1})
    for (nR, nZ) in res[:2]:
        for (kap, th) in [(1.8, 25.0), (1.5, -40.0), (1.8, 0.0)]:
            for sign in (1, -1):
                lb = [[1, 1.5, 0.15, 0.3 / np.sqrt(kap), 0.3 * np.sqrt(kap), th], [1, 1.5, -0.45, W]]
                cases.append({"id": len(cases) + 1, "family": "lsn_ellip_%s_%s" % (str(kap).replace(".", "p"), int(th)), "lobes": lb, "nR": nR, "nZ": nZ, "sign": sign,
                              "psinorm_sol": 1.1, "nx_inter_sep": 0})
    # random perturbations of the lobes (thorough: more)
    for k in range(12 if tier == "quick" else 150):
        name = rng.choice(list(BASE))
        lb = [[a * rng.uniform(0.9, 1.1), r + rng.uniform(-0.03, 0.03), z + rng.uniform(-0.03, 0.03), w * rng.uniform(0.93, 1.07)] for a, r, z, w in BASE[name]]
        if rng.random() < 0.5:      # half of them with a tilted elliptical first lobe
            kap, th = rng.uniform(1.2, 2.0), rng.uniform(-60, 60)
            lb[0] = [lb[0][0], lb[0][1], lb[0][2], lb[0][3] / np.sqrt(kap), lb[0][3] * np.sqrt(kap), th]
        nR, nZ = rng.choice([(65, 65), (33, 33), (81, 57)])
        cases.append({"id": len(cases) + 1, "family": name + "~", "lobes": lb, "nR": nR, "nZ": nZ, "sign": rng.choice([1, -1]), "psinorm_sol": rng.choice(SOLS[name]),
                      "nx_inter_sep": 1})         # (a perturbed double null is never exactly connected)
    return cases


def judge(recs, d, tag):
    tf = os.path.join(d, tag + "_tr.json")
    with open(tf, "w") as fh:
        json.dump({"traces": recs}, fh)
    res = tlc.run_tlc("Trace_Critical", "Trace_Critical.cfg", workers=1, timeout=1800, env_extra={"TRACE_FILE": tf}, check=False)
    if not res.ok or res.distinct != 2 * len(recs):
        raise MachineryError("Trace_Critical failed (violated=%s, %d states for %d traces)\n%s" % (res.violated, res.distinct, len(recs), res.out[-2000:]))
    failed = {}
    for m in re.finditer(r'<<\s*"CLAUSE-FAILED",\s*"(\w+)",\s*(\d+)\s*>>', res.out):
        failed.setdefault(int(m.group(2)), set()).add(m.group(1))
    return failed, res


def _clauses(out):
    failed = {}
    for m in re.finditer(r'<<\s*"CLAUSE-FAILED",\s*"(\w+)",\s*(\d+)\s*>>', out):
        failed.setdefault(int(m.group(2)), set()).add(m.group(1))
    return failed


def judge_roots(recs, d, tag):
    """Trace_Roots.tla on findRoots_1d records, one TLC run per fine lattice"""
    failed, results = {}, []
    for N in sorted({r["NFine"] for r in recs}):
        sub = [r for r in recs if r["NFine"] == N]
        tf = os.path.join(d, "%s_roots%d.json" % (tag, N))
        with open(tf, "w") as fh:
            json.dump({"traces": sub}, fh)
        res = tlc.run_tlc("Trace_Roots", "Trace_Roots%d.cfg" % N, workers=1, timeout=1800, env_extra={"TRACE_FILE": tf}, check=False)
        want = sum(len(r["events"]) + 1 for r in sub)
        if not res.ok or res.distinct != want:
            raise MachineryError("Trace_Roots failed (violated=%s, %d states, expected %d)\n%s" % (res.violated, res.distinct, want, res.out[-2000:]))
        failed.update(_clauses(res.out))
        results.append(res)
    return failed, results


def judge_saddle(recs, d, tag):
    tf = os.path.join(d, tag + "_saddle.json")
    with open(tf, "w") as fh:
        json.dump({"traces": recs}, fh)
    res = tlc.run_tlc("Trace_Saddle", "Trace_Saddle.cfg", workers=1, timeout=1800, env_extra={"TRACE_FILE": tf}, check=False)
    judged = {int(m.group(1)) for m in re.finditer(r'<<\s*"JUDGED",\s*(\d+)\s*>>', res.out)}
    if not res.ok or judged != {r["id"] for r in recs}:
        raise MachineryError("Trace_Saddle failed (violated=%s, %d of %d traces judged)\n%s" % (res.violated, len(judged), len(recs), res.out[-2000:]))
    return _clauses(res.out), res


def torpex_searches(v, tier, seed, d):
    """the two searches the TORPEX case finds its X-point and strike points with (Saddle.tla, Roots.tla): beyond the tokamak path of the property"""
    rng = random.Random(seed * 131 + 19)
    for mod, cfg in (("Roots", "MC_Roots.cfg" if tier == "quick" else "MC_Roots_thorough.cfg"), ("MC_Saddle", "MC_Saddle.cfg" if tier == "quick" else "MC_Saddle_thorough.cfg")):
        r0 = tlc.run_tlc(mod, cfg, timeout=3000, check=False)
        v.add_tlc(r0)
        if not r0.ok and r0.violated is None:
            v.fail_machinery("TLC did not complete on %s: %s" % (mod, r0.out[-1500:]))
        elif not r0.ok:
            v.violation("C19 engine=mc module=%s violated=%s" % (mod, r0.violated), "%s.tla violates %s" % (mod, r0.violated), {"tlc_tail": r0.out[-2000:]})
    # --- findRoots_1d
    cases = []
    combos = {8: [(1, 8), (1, 4), (2, 4), (2, 8), (4, 8)], 12: [(3, 6), (3, 12), (6, 12)]}
    per = 600 if tier == "quick" else 6000
    for N, cs in combos.items():
        for _ in range(per):
            sg = [rng.choice([-1, 1]) for _ in range(N + 1)]
            if rng.random() < 0.2:
                sg[rng.randrange(N + 1)] = 0
            if rng.random() < 0.3:      # few sign changes: the doubling is exercised
                k = rng.randrange(N + 1)
                sg = [(-1 if i < k else 1) * (1 if sg[0] > 0 else -1) if x != 0 else 0 for i, x in enumerate(sg)]
                for j in rng.sample(range(N), rng.choice([0, 1, 2])):
                    sg[j] = -sg[j]
            n, maxI = rng.choice(cs)
            sc = rng.choice([1.0, 1e-6, 1e4])
            cases.append({"id": len(cases) + 1, "NFine": N, "n": n, "maxI": maxI, "sg": sg, "mag": [rng.uniform(0.5, 2.0) * sc for _ in range(N + 1)]})
    recs = run_driver("roots_run.py", cases, d, "roots", timeout=1800)
    recs.sort(key=lambda r: r["id"])
    failed, results = judge_roots(recs, d, "main")
    for r in results:
        v.add_tlc(r)
    v.add_traces(len(recs))
    outc = {}
    for r in recs:
        o = r["events"][-1]["outcome"]
        outc[o] = outc.get(o, 0) + 1
        v.add_eval(len(r["events"]))
        for cl in sorted(failed.get(r["id"], ())):
            v.violation("C19 engine=roots clause=%s n=%d maxI=%d" % (cl, r["n"], r["maxI"]),
                        "findRoots_1d: clause %s fails for signs %s n=%d maxintervals=%d: %s" % (cl, r["sg"], r["n"], r["maxI"], r["events"]), {"case": r, "driver": "harness/drivers/roots_run.py"})
    v.note("roots", {"calls": len(recs), "outcomes": outc})
    if min(outc.get(k, 0) for k in ("ok", "no_roots", "not_implemented", "type_error")) == 0:
        v.fail_machinery("findRoots_1d: an outcome class was never observed: %s" % outc)
    clean = [r for r in recs if r["id"] not in failed]
    okr = [r for r in clean if r["events"][-1]["outcome"] == "ok" and len(r["events"]) >= 3][0]
    muts = []
    a = copy.deepcopy(okr); a["id"] = 1; a["events"][-1]["roots"][0] += 2 * a["NFine"]; muts.append((a, "RootsSolveBrackets"))
    b = copy.deepcopy(okr); b["id"] = 2; del b["events"][0]; muts.append((b, "ScanLevelIsSpec"))
    c = copy.deepcopy([r for r in clean if r["events"][-1]["outcome"] == "no_roots"][0]); c["id"] = 3; c["events"][-1]["outcome"] = "ok"; muts.append((c, "OutcomeIsSpec"))
    e = copy.deepcopy(okr); e["id"] = 4; e["events"].insert(-1, {"ev": "Scan", "level": 2 * e["events"][-2]["level"]}); muts.append((e, "NoScanAfterBrackets"))
    mf, _ = judge_roots([m for m, _ in muts], d, "mut")
    okm = sum(1 for m, cl in muts if cl in mf.get(m["id"], ()))
    # --- findSaddlePoint
    forms = [(a_, b_, c_, k, s_) for a_ in (1, 2) for b_ in (1, 2) for c_ in (-2, -1, 0, 1, 2) for k in (-1, 1) for s_ in (-1, 1)]
    if tier != "quick":
        forms = [(a_, b_, c_, k, s_) for a_ in (1, 2, 3) for b_ in (1, 2, 3) for c_ in (-3, -2, -1, 0, 1, 2, 3) for k in (-1, 1) for s_ in (-1, 1)]
    scases = []
    for f in forms:
        for u in range(-2, 11):
            for w in range(-2, 11):
                inside = 1 <= u <= 7 and 1 <= w <= 7
                if rng.random() < ((0.25 if inside else 0.04) if tier == "quick" else (1.0 if inside else 0.2)):
                    scases.append({"id": len(scases) + 1, "form": list(f), "ctr": [u, w], "S": 8, "a": rng.choice([0.08, 0.02]), "R0": rng.uniform(0.5, 1.5),
                                   "Z0": rng.uniform(-0.5, 0.5), "theta": rng.choice([0, 90, 180, 270, 30, 200]), "amp": rng.choice([1.0, 1e-3, 50.0]),
                                   "atol_num": 1, "atol_den": 4})
    # the alternating search proper: quadratics are solved in one pass (Saddle.tla, OnePassOnQuadratics), so a cubic perturbation that leaves
    # the saddle where it is is added and a tight atol asked for: one to three passes, same outcome and answer
    for A_ in (1, 2):
        for B_ in (1, 2):
            for C_ in (-1, 0, 1):
                for s_ in (1, -1):
                    for (u, w) in ([(3, 3), (4, 5), (5, 4)] if tier == "quick" else [(u, w) for u in (3, 4, 5) for w in (3, 4, 5)]):
                        for eps in (0.05, 0.1):
                            scases.append({"id": len(scases) + 1, "form": [A_, B_, C_, 1, s_], "ctr": [u, w], "S": 8, "a": rng.choice([0.08, 0.02]), "R0": rng.uniform(0.5, 1.5),
                                           "Z0": rng.uniform(-0.5, 0.5), "theta": rng.choice([0, 90, 180, 270, 30, 200]), "amp": rng.choice([1.0, 1e-3, 50.0]),
                                           "atol_num": 1, "atol_den": 1024, "cubic": eps})
    srecs = run_driver("saddle_run.py", scases, d, "saddle", timeout=1800)
    srecs.sort(key=lambda r: r["id"])
    sfailed, sres = judge_saddle(srecs, d, "main")
    v.add_tlc(sres)
    v.add_traces(len(srecs))
    soutc = {}
    for r in srecs:
        soutc[r["outcome"]] = soutc.get(r["outcome"], 0) + 1
        v.add_eval(4)
        for cl in sorted(sfailed.get(r["id"], ()) if r["outcome"] != "hang_skipped" else ()):
            v.violation("C19 engine=saddle clause=%s kind=%s sign=%d theta=%d" % (cl, "saddle" if r["form"][3] == 1 else "opoint", r["form"][4], r["theta"]),
                        "findSaddlePoint: clause %s fails for form %s centre %s (box coordinates, side 8) theta=%s: outcome=%s passes=%s answer=%s/1000" %
                        (cl, r["form"], r["ctr"], r["theta"], r["outcome"], r["count"], r["res"]), {"case": r, "driver": "harness/drivers/saddle_run.py"})
    passes = {}
    for r in srecs:
        if r["outcome"] == "ok":
            passes[str(r["count"])] = passes.get(str(r["count"]), 0) + 1
    v.note("saddle", {"calls": len(srecs), "outcomes": soutc, "passes_of_accepted_calls": passes})
    if not any(int(k) >= 2 for k in passes):
        v.fail_machinery("findSaddlePoint: no call needed a second pass: %s" % passes)
    if min(soutc.get(k, 0) for k in ("ok", "solution_error", "value_error")) == 0:
        v.fail_machinery("findSaddlePoint: an outcome class was never observed: %s" % soutc)
    sclean = [r for r in srecs if r["id"] not in sfailed]
    oks = [r for r in sclean if r["outcome"] == "ok" and r["cubicq"] == 0][0]
    smuts = []
    a = copy.deepcopy(oks); a["id"] = 1; a["res"][0] += 400; smuts.append((a, "AnswerIsSpec"))
    b = copy.deepcopy(oks); b["id"] = 2; b["count"] = 3; smuts.append((b, "PassesAreSpec"))
    c = copy.deepcopy([r for r in sclean if r["outcome"] == "value_error"][0]); c["id"] = 3; c["outcome"] = "ok"; smuts.append((c, "OutcomeIsSpec"))
    smf, _ = judge_saddle([m for m, _ in smuts], d, "mut")
    okm += sum(1 for m, cl in smuts if cl in smf.get(m["id"], ()))
    v.note("binding_selftest_torpex_searches", {"mutants": len(muts) + len(smuts), "rejected_with_expected_clause": okm})
    if okm != len(muts) + len(smuts):
        v.fail_machinery("binding self-test (roots / saddle) failed: %s %s" % (mf, smf))
    v.sample({"engine": "C->S roots", "case": {k: recs[0][k] for k in ("n", "maxI", "sg", "events")}})
    v.sample({"engine": "C->S saddle", "case": {k: oks[k] for k in ("form", "ctr", "theta", "outcome", "count", "res")}})


def run(tier, seed):
    v = Verdict("C19", tier, seed, "model_checking")
    v.rule = ("MC: Critical.tla - over every scan order with a duplicate detection, every set of flags (psi monotone from the axis, inside the wall, below psinorm_sol, "
              "below the axis) of up to 2 (thorough: 3) O- and X-points: de-duplication returns each point once, the primary O-point is the one nearest the centre, "
              "X-points come in increasing |psi - psi_axis| without the non-monotone ones, and the single / double null decision equals its declarative definition. "
              "C->S: analytic flux functions (sums of Gaussian lobes: single nulls, double nulls with equal and unequal X-points, tilted, a lobe outside the wall, "
              "a bump beyond psinorm_sol) shifted by sub-grid offsets, sampled at several resolutions and both signs, with psinorm_sol on either side of the second "
              "X-point; the truth (positions, Hessian sign, flags) comes from an independent Newton search on the analytic gradient; Trace_Critical.tla judges "
              "find_critical's lists (exactly once, kind, nothing spurious, gradient below tolerance, psi at the point, primary O-point, X order) and "
              "TokamakEquilibrium's selection (regions built, X-points kept, which is primary, inner/outer legs by strike radius). A case is one flux function. "
              "Beyond the tokamak path: Saddle.tla (Equilibrium.findSaddlePoint, the TORPEX X-point search: edge classification, refusals, alternating bounded "
              "searches in exact rational arithmetic on quadratic flux functions - found iff a saddle lies inside the box within the accepted tilt, never an O-point, "
              "one pass on quadratics, answer within atol) and Roots.tla (Equilibrium.findRoots_1d, the bracketing search for the strike points: scans, doubling, "
              "giving up, the refused lucky root, and the TypeError the code ends in when it finds more brackets than asked for); both bound to the real methods by "
              "Trace_Saddle.tla / Trace_Roots.tla on boxes in any orientation, both signs, and on piecewise-linear functions with prescribed node signs.")
    v.assumptions = ["the property's premise (well separated, non-degenerate) is enforced by the driver: cases with critical points closer than 4 cells, a tiny Hessian "
                     "determinant, an X-point on the wall / at psinorm_sol / at the monotonicity threshold are recorded as skipped",
                     "positions are compared at 1/20 of a cell, psi at 2e-3 (2e-2 on grids coarser than 60) of the psi range"]
    r0 = tlc.run_tlc("Critical", "MC_Critical.cfg" if tier == "quick" else "MC_Critical_thorough.cfg", timeout=3000, check=False)
    v.add_tlc(r0)
    if not r0.ok and r0.violated is None:
        v.fail_machinery("TLC did not complete: %s" % r0.out[-1500:])
    elif not r0.ok:
        v.violation("C19 engine=mc violated=%s" % r0.violated, "Critical.tla violates %s" % r0.violated, {"tlc_tail": r0.out[-2000:]})
    d = scratch("c19")
    cases = make_cases(tier, seed)
    recs = run_driver("critical_run.py", cases, d, "cr", timeout=3000)
    recs.sort(key=lambda r: r["id"])
    errs = [r for r in recs if r.get("driver_error")]
    if errs:
        raise MachineryError("critical_run driver error: %s\n%s" % (errs[0]["driver_error"], errs[0].get("tb")))
    skipped = [r for r in recs if r["skip"]]
    good = [r for r in recs if not r["skip"]]
    tr = [{k: r[k] for k in ("id", "tie", "notok", "truth_x", "truth_o", "found_o", "found_x", "postol", "psitol", "tok")} for r in good]
    failed, res = judge(tr, d, "cr")
    v.add_tlc(res)
    v.add_traces(len(good))
    outcomes = {}
    for r in good:
        c = r["case"]
        desc = "family=%s n=%dx%d sign=%d psinorm_sol=%s" % (c["family"], c["nR"], c["nZ"], c["sign"], c["psinorm_sol"])
        v.add_case("critical " + desc + " id=%d" % c["id"])
        v.add_eval(len(r["truth_x"]) + len(r["truth_o"]) + 4)
        kind = "refused" if r["tok"]["outcome"] != "ok" else "+".join(sorted(set(n.split("_")[1] if n != "core" else "sn" for n in r["tok"]["regions"])))
        outcomes[kind] = outcomes.get(kind, 0) + 1
        for cl in sorted(failed.get(r["id"], ())):
            v.violation("C19 engine=critical clause=%s family=%s n=%dx%d sign=%d" % (cl, c["family"].rstrip("~"), c["nR"], c["nZ"], c["sign"]),
                        "clause %s fails for %s: truth_x=%s found_x=%s tok=%s" % (cl, desc, [(t["R"], t["Z"], t["mono"], t["inwall"], t["insol"]) for t in r["truth_x"]],
                                                                                 [(t["R"], t["Z"]) for t in r["found_x"]], {k: r["tok"][k] for k in ("outcome", "exc", "regions")}),
                        {k: r[k] for k in ("case", "truth_x", "truth_o", "found_o", "found_x", "tok")})
    v.note("cases", {"generated": len(cases), "judged": len(good), "skipped_premise": len(skipped), "skip_reasons": sorted({r["skip"] for r in skipped}),
                     "tokamak_outcomes": outcomes, "with_invisible_xpoint": sum(1 for r in good if any(t["mono"] == 0 for t in r["truth_x"])),
                     "with_xpoint_outside_wall": sum(1 for r in good if any(t["inwall"] == 0 for t in r["truth_x"])),
                     "with_xpoint_beyond_sol": sum(1 for r in good if any(t["insol"] == 0 for t in r["truth_x"]))})
    if len(good) < 0.5 * len(cases):
        v.fail_machinery("more than half of the cases were skipped: %s" % sorted({r["skip"] for r in skipped}))
    if good:
        r = good[0]
        v.sample({"engine": "C->S critical", "case": r["case"], "truth_x": r["truth_x"], "found_x": r["found_x"], "tok": r["tok"]})
        clean = [t for t in tr if t["id"] not in failed and len(t["found_x"]) >= 1 and t["tok"]["outcome"] == "ok"]
        muts = []
        a = copy.deepcopy(clean[0]); a["id"] = 1; a["found_x"] = a["found_x"] + [dict(a["found_x"][0])]; muts.append((a, "XPointsExactlyOnce"))
        b = copy.deepcopy(clean[0]); b["id"] = 2; b["found_o"], b["found_x"] = b["found_o"] + b["found_x"], []; muts.append((b, "KindByHessian"))
        c2 = copy.deepcopy([t for t in clean if len(t["found_o"]) >= 2][0]); c2["id"] = 3; c2["found_o"] = c2["found_o"][::-1]; muts.append((c2, "PrimaryIsNearestCentre"))
        e = copy.deepcopy(clean[0]); e["id"] = 4; e["tok"]["regions"] = ["inner_upper_divertor", "core", "outer_upper_divertor"] if "inner_lower_divertor" in e["tok"]["regions"] and len(e["tok"]["regions"]) == 3 else ["core"]
        muts.append((e, "DecisionAsDeclared"))
        mf, _ = judge([m for m, _ in muts], d, "mut")
        ok = sum(1 for m, cl in muts if cl in mf.get(m["id"], ()))
        v.note("binding_selftest", {"mutants": len(muts), "rejected_with_expected_clause": ok})
        if ok != len(muts):
            v.fail_machinery("binding self-test failed: %s" % mf)
    torpex_searches(v, tier, seed, d)
    shutil.rmtree(d, ignore_errors=True)
    v.exhaustive = False
    return v
