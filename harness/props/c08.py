"""C08 - block topology, branch-cut indices and global index map are consistent."""
import json
import os
import random
import re
import shutil

from .. import tlc
from ..core import PY, VERIF, NCPU, MachineryError, Verdict, repo_env, run_group, scratch, parallel_jobs

TOPOS = ["LSN", "USN", "CDN", "LDN", "UDN", "CDN_UO", "LDN_UO", "UDN_UO", "CORE", "LIM", "XPT"]
NSEG = {"LSN": 2, "USN": 2, "CDN": 2, "CDN_UO": 2, "LDN": 3, "UDN": 3, "LDN_UO": 3, "UDN_UO": 3, "CORE": 1, "LIM": 1, "XPT": 2}
NREG = {"LSN": 3, "USN": 3, "CDN": 6, "CDN_UO": 6, "LDN": 6, "UDN": 6, "LDN_UO": 6, "UDN_UO": 6, "CORE": 1, "LIM": 1, "XPT": 4}

# clause -> property it is evidence for
CLAUSE_PROP = {"YGroupsStart": "C05"}

SPEC_ACTIONS = ["MakeRegions", "MakeMesh", "WriteFile"]


def make_configs(tier, seed):
    rng = random.Random(seed * 1009 + 8)
    cfgs = []

    def add(topo, nx, ny, G):
        cfgs.append({"id": len(cfgs) + 1, "topo": topo, "nx": list(nx), "ny": list(ny), "G": G})

    nper = 24 if tier == "quick" else 400
    for topo in TOPOS:
        ns, nr = NSEG[topo], NREG[topo]
        # corner vectors: all small, one region long and the others short, strongly unequal legs
        for G in (0, 2):
            add(topo, [1] * ns, [1] * nr, G)
            add(topo, [2] * ns, [3] * nr, G)
            for r in range(nr):
                ny = [1] * nr
                ny[r] = 11
                add(topo, [1 + (r % 2)] * ns, ny, G)
        if nr >= 3:
            add(topo, [2] * ns, [2] + [4] * (nr - 2) + [12], 2)
            add(topo, [2] * ns, [14] + [4] * (nr - 2) + [2], 2)
            add(topo, [3, 1, 2][:ns], [4] * nr, 1)
        for _ in range(nper):
            nx = [rng.choice([1, 2, 3, 5]) for _ in range(ns)]
            ny = [rng.choice([1, 2, 3, 4, 6, 9, 16]) for _ in range(nr)]
            add(topo, nx, ny, rng.choice([0, 1, 2, 3]))
    return cfgs


def run_stub(cfgs, tag):
    d = scratch("c08_" + tag)
    nchunk = min(NCPU, max(1, len(cfgs) // 4))
    jobs = []
    for n in range(nchunk):
        ch = cfgs[n::nchunk]
        inp, outp = os.path.join(d, "in%d.json" % n), os.path.join(d, "out%d.json" % n)
        with open(inp, "w") as fh:
            json.dump(ch, fh)

        def job(inp=inp, outp=outp, nch=len(ch)):
            rc, out, err = run_group([PY, "-B", os.path.join(VERIF, "harness/drivers/stubmesh.py"), inp, outp],
                                     timeout=120 + 5 * nch, env=repo_env({"VERIF_SCRATCH": d}))
            if rc != 0 or not os.path.exists(outp):
                raise MachineryError("stubmesh failed rc=%s\n%s" % (rc, (out + err)[-2000:]))
            with open(outp) as fh:
                return json.load(fh)

        jobs.append(job)
    recs = sorted((r for rs in parallel_jobs(jobs) for r in rs), key=lambda r: r["id"])
    shutil.rmtree(d, ignore_errors=True)
    return recs


REQUIRED = ["order", "nseg", "kinds", "regnx", "regny", "conn", "connlow", "segsame", "ids", "meshconn", "rects", "xgroups",
            "ygroups", "meshnx", "meshny", "meshny_noguards", "ints", "fileshape", "theta2", "ycoord2", "thetalow2", "thetadev", "dy_core"]


def wellformed(r):
    """Shapes TLC relies on to evaluate the clauses without a run-time error (content is judged by TLC)."""
    try:
        if any(k not in r for k in REQUIRED):
            return False
        nr, ns = NREG[r["topo"]], NSEG[r["topo"]]
        if len(r["connlow"]) != len(r["conn"]) or len(r["segsame"]) != len(r["conn"]):
            return False
        for a, b in zip(r["conn"], r["connlow"]):
            if len(a) != len(b) or len(a) != ns:
                return False
            if any(not (0 <= v <= len(r["conn"])) for v in a + b):
                return False
        if len(r["conn"]) != nr or len(r["ids"]) != nr or any(len(x) != ns for x in r["ids"]):
            return False
        if len(r["meshconn"]) != nr * ns or len(r["rects"]) != nr * ns:
            return False
        if any(len(x) != 4 for x in r["meshconn"]) or any(len(x) != 4 for x in r["rects"]):
            return False
        for g in r["ygroups"] + r["xgroups"]:
            if any(not (0 <= i < nr * ns) for i in g):
                return False
        if len(r["theta2"]) != len(r["ycoord2"]) or len(r["thetalow2"]) != len(r["theta2"]):
            return False
        return True
    except Exception:
        return False


def validate(recs, tag):
    """TLC judges every clause of every trace; returns {id: [failed clause names]} and TLC results"""
    d = scratch("c08v_" + tag)
    nchunk = 12 if len(recs) > 40 else 1
    results = []
    jobs = []
    for n in range(nchunk):
        ch = recs[n::nchunk]
        if not ch:
            continue
        tf = os.path.join(d, "tr%d.json" % n)
        with open(tf, "w") as fh:
            json.dump({"traces": ch}, fh)

        def job(tf=tf, ch=ch):
            res = tlc.run_tlc("Trace_Topology", "Trace_Topology.cfg", workers=1, timeout=1800, env_extra={"TRACE_FILE": tf}, check=False)
            return res, ch

        jobs.append(job)
    failed = {}
    tlcres = []
    for res, ch in parallel_jobs(jobs, nproc=12):
        tlcres.append(res)
        if not res.ok:
            raise MachineryError("Trace_Topology run failed (violated=%s):\n%s" % (res.violated, res.out[-3000:]))
        if res.distinct != 4 * len(ch):
            raise MachineryError("Trace_Topology: %d states for %d traces (every trace must take its 3 steps)" % (res.distinct, len(ch)))
        for m in re.finditer(r'<<\s*"CLAUSE-FAILED",\s*"(\w+)",\s*(\d+)\s*>>', res.out):
            failed.setdefault(int(m.group(2)), set()).add(m.group(1))
    shutil.rmtree(d, ignore_errors=True)
    return failed, tlcres


def lopsided(r):
    """canonical description of how a configuration is special, for finding keys"""
    return "topo=%s" % r["topo"]


def judge(v, recs, failed, pid="C08"):
    for r in recs:
        for cl in sorted(failed.get(r["id"], ())):
            if CLAUSE_PROP.get(cl, "C08") != pid:
                continue
            G = r["G"]
            key = "%s engine=stubmesh clause=%s topo=%s" % (pid, cl, r["topo"])
            if cl in ("IntsOrdered", "AdjacencyFromInts", "IntsAsDocumented", "LoaderAccepts", "Theta"):
                key += " guards=%s" % ("0" if G == 0 else ">0")
            v.violation(key, "clause %s of Trace_Topology fails for topo=%s nx=%s ny=%s G=%d (ints=%s)" % (cl, r["topo"], r["nx"], r["ny"], G, r.get("ints")),
                        {"config": {k: r[k] for k in ("topo", "nx", "ny", "G")}, "observed": r, "driver": "harness/drivers/stubmesh.py"})


def run(tier, seed):
    v = Verdict("C08", tier, seed, "model_checking")
    v.rule = ("MC: Topology.tla - for every (topology, nx per segment, ny per region, guards) of the box the physical view pushed through the "
              "layout equals the BOUT++ reading of the documented integers on every cell (plus tiling, symmetry, ordering, theta, mirror). "
              "C->S: the real makeRegions/Mesh/BoutMesh/writeGridfile index code (MeshRegion numerics stubbed) run per configuration and "
              "judged clause by clause by Trace_Topology.tla; a case is one (topology, nx, ny, G); non-trivial = generation succeeded.")
    v.assumptions = ["transcription of BOUT++'s meaning of ixseps/jyseps/ny_inner and of the loader's index repairs (Topology.tla view 3)",
                     "stubbed MeshRegion.__init__/getRegridded do not influence the index code (G-traces cover the unstubbed path)"]
    cfg = "MC_Topology_quick.cfg" if tier == "quick" else "MC_Topology_thorough.cfg"
    res = tlc.run_tlc("MC_Topology", cfg, coverage=(tier == "quick"), timeout=7200, check=False)
    v.add_tlc(res)
    if not res.ok:
        if res.violated:
            v.violation("C08 engine=mc violated=%s" % res.violated, "TLC: %s violated in Topology.tla" % res.violated, {"tlc_tail": res.out[-3000:]})
        else:
            v.fail_machinery("TLC did not finish: " + res.out[-1500:])
    cfgs = make_configs(tier, seed)
    recs = run_stub(cfgs, "stub")
    good = [r for r in recs if "error" not in r]
    refused = [r for r in recs if "error" in r]
    malformed = [r for r in good if not wellformed(r)]
    good = [r for r in good if wellformed(r)]
    for r in malformed:
        v.violation("C08 engine=stubmesh clause=Malformed topo=%s" % r["topo"], "index code produced a malformed record for %s" % {k: r[k] for k in ("topo", "nx", "ny", "G")}, {"observed": r})
    failed, tlcres = validate(good, "main")
    for t in tlcres:
        v.add_tlc(t)
    judge(v, good, failed)
    for r in good:
        v.add_case("%s nx=%s ny=%s G=%d" % (r["topo"], r["nx"], r["ny"], r["G"]))
    v.add_traces(len(good))
    v.add_eval(len(recs))
    topos_ok = {r["topo"] for r in good}
    v.note("stubmesh", {"configs": len(cfgs), "generated": len(good), "refused": len(refused), "malformed": len(malformed),
                        "topologies": sorted(topos_ok), "refused_samples": [(r["topo"], r["nx"], r["ny"], r["G"], r["error"][:120]) for r in refused[:5]],
                        "clauses_failed": sorted({c for s in failed.values() for c in s})})
    if len(topos_ok) < len(TOPOS):
        v.fail_machinery("coverage floor: topologies without a single generated configuration: %s" % sorted(set(TOPOS) - topos_ok))
    if good:
        r = good[len(good) // 3]
        v.sample({"engine": "C->S stubmesh", "config": {k: r[k] for k in ("topo", "nx", "ny", "G")}, "conn": r["conn"], "ints": r["ints"], "ygroups": r["ygroups"]})
    # binding self-test: corrupt recorded fields of an accepted trace
    clean = [r for r in good if r["id"] not in failed and r["topo"] in ("CDN", "LDN")]
    if clean:
        import copy
        muts = []
        a = copy.deepcopy(clean[0]); a["id"] = 900001; a["conn"][0][0], a["conn"][0][1] = a["conn"][0][1], a["conn"][0][0]; muts.append((a, "ConnIsPhysical"))
        b = copy.deepcopy(clean[0]); b["id"] = 900002; b["ints"]["jyseps2_1"] += 1; muts.append((b, "AdjacencyFromInts"))
        c = copy.deepcopy(clean[0]); c["id"] = 900003; c["rects"][1], c["rects"][2] = c["rects"][2], c["rects"][1]; muts.append((c, "Indices"))
        e = copy.deepcopy(clean[0]); e["id"] = 900004; e["ints"]["ixseps1"] += 1; muts.append((e, "AdjacencyFromInts"))
        mf, _ = validate([m for m, _ in muts], "mut")
        okm = [want in mf.get(m["id"], ()) for m, want in muts]
        v.note("binding_selftest", {"mutants": len(muts), "rejected_with_expected_clause": sum(okm)})
        if not all(okm):
            v.fail_machinery("binding self-test: corrupted traces not rejected as expected: %s" % mf)
    # C->S on complete (unstubbed) grid generations: all Trace_Topology clauses on the real mesh plus the coordinate clauses
    from .. import gridprops
    gridprops.run(v, "C08", tier)
    v.exhaustive = False
    return v
