"""C11 - targets sit on the wall; penalty_mask and wall output match the geometry."""
import copy
import json
import os
import shutil

from .. import campaign, gridprops, tlc
from ..core import PY, VERIF, NCPU, MachineryError, Verdict, repo_env, run_group, scratch, parallel_jobs


def run_driver(script, items, d, tag, nproc=12, timeout=1800):
    """split items over processes, run harness/drivers/<script> on each chunk, concatenate outputs"""
    nchunk = max(1, min(nproc, len(items) // 8))
    jobs = []
    for n in range(nchunk):
        ch = items[n::nchunk]
        inp, outp = os.path.join(d, "%s_in%d.json" % (tag, n)), os.path.join(d, "%s_out%d.json" % (tag, n))
        with open(inp, "w") as fh:
            json.dump(ch, fh)

        def job(inp=inp, outp=outp):
            env = repo_env()
            env["MPLBACKEND"] = "Agg"
            rc, out, err = run_group([PY, "-B", os.path.join(VERIF, "harness/drivers", script), inp, outp], timeout=timeout, env=env)
            if rc != 0 or not os.path.exists(outp):
                raise MachineryError("%s failed rc=%s\n%s" % (script, rc, (out + err)[-2000:]))
            with open(outp) as fh:
                return json.load(fh)

        jobs.append(job)
    res = []
    for r in parallel_jobs(jobs, nproc=nproc):
        res.extend(r)
    return res


def prim_graph(v, tier, d):
    """ContourPrim.tla: model check, dump the reachable graph, compare with the real PsiContour edge by edge (both inclusions)"""
    cfg = "MC_ContourPrim.cfg" if tier == "quick" else "MC_ContourPrim_thorough.cfg"
    dot = os.path.join(d, "prim.dot")
    res = tlc.run_tlc("ContourPrim", cfg, workers=8, dump_dot=dot, timeout=1800, check=False)
    v.add_tlc(res)
    if not res.ok and res.violated is None:
        v.fail_machinery("TLC did not complete: %s" % res.out[-1500:])
        return
    if not res.ok:
        v.violation("C11 engine=mc module=ContourPrim violated=%s" % res.violated, "ContourPrim.tla violates %s" % res.violated, {"tlc_tail": res.out[-2500:]})
        return
    states, inits, edges = tlc.parse_dot(dot)
    os.remove(dot)
    maxdepth = max(st["pdepth"] for st in states.values())
    succ = {}
    for a, b, lab in edges:
        succ.setdefault(a, set()).add(b)
    gap = 64 if tier == "quick" else 256          # the Gap constant of the configuration
    nodes = [{"id": k, "p": list(st["pc"]["p"]), "s": st["pc"]["s"], "e": st["pc"]["e"], "gap": gap} for k, st in states.items() if st["pdepth"] < maxdepth]
    real = run_driver("contour_graph.py", nodes, d, "prim")
    nedge = 0
    bad = 0
    for r in real:
        st = states[r["id"]]
        want = {json.dumps([list(states[b]["pc"]["p"]), states[b]["pc"]["s"], states[b]["pc"]["e"]]) for b in succ.get(r["id"], ())}
        got = {}
        for op, val in r["succ"].items():
            got.setdefault(json.dumps(val), []).append(op)
        nedge += len(r["succ"])
        v.add_eval(len(r["succ"]))
        if set(got) != want:
            bad += 1
            only_real = sorted(set(got) - want)
            only_spec = sorted(want - set(got))
            op = got[only_real[0]][0] if only_real else "?"
            kind = op.split(":")[0]
            v.violation("C11 engine=prim-graph op=%s endInd_negative=%d" % (kind, int(st["pc"]["e"] < 0)),
                        "PsiContour with points %s startInd=%s endInd=%s: the real object's successors differ from ContourPrim.tla: only real %s (ops %s), only spec %s"
                        % (list(st["pc"]["p"]), st["pc"]["s"], st["pc"]["e"], only_real[:3], [got[x] for x in only_real[:3]], only_spec[:3]),
                        {"state": {"p": list(st["pc"]["p"]), "s": st["pc"]["s"], "e": st["pc"]["e"]}, "only_real": only_real, "only_spec": only_spec})
    v.add_traces(len(real))
    v.note("prim_graph", {"states": len(states), "edges": len(edges), "states_replayed": len(real), "real_operations": nedge, "states_differing": bad})
    if real:
        r = real[0]
        v.sample({"engine": "S->C/C->S graph", "state": {k: states[r["id"]]["pc"][k] for k in ("s", "e")}, "points": list(states[r["id"]]["pc"]["p"]),
                  "real_successors": dict(list(r["succ"].items())[:3])})
    # binding self-test: a successor the spec does not have must be noticed
    if real:
        r = copy.deepcopy(real[0])
        k = sorted(r["succ"])[0]
        r["succ"][k][2] -= 1
        want = {json.dumps([list(states[b]["pc"]["p"]), states[b]["pc"]["s"], states[b]["pc"]["e"]]) for b in succ.get(r["id"], ())}
        got = {json.dumps(val) for val in r["succ"].values()}
        v.note("binding_selftest_prim", {"mutants": 1, "rejected": int(got != want)})
        if got == want:
            v.fail_machinery("prim graph self-test: corrupted successor not noticed")


def wall_graph(v, tier, d):
    """Contour.tla: model check, then every initial configuration TLC enumerated is run through the REAL addPointAtWallToContours and
    the final (points, startInd, endInd) compared with the final state of the specification's behaviour"""
    cfg = "MC_Contour.cfg" if tier == "quick" else "MC_Contour_thorough.cfg"
    dot = os.path.join(d, "wall.dot")
    res = tlc.run_tlc("Contour", cfg, workers=8, dump_dot=dot, timeout=1800, check=False)
    v.add_tlc(res)
    if not res.ok and res.violated is None:
        v.fail_machinery("TLC did not complete: %s" % res.out[-1500:])
        return
    if not res.ok:
        v.violation("C11 engine=mc module=Contour violated=%s" % res.violated, "Contour.tla violates %s" % res.violated, {"tlc_tail": res.out[-2500:]})
        return
    states, inits, edges = tlc.parse_dot(dot)
    os.remove(dot)
    nxt = {}
    for a, b, lab in edges:
        if a != b:
            nxt[a] = b
    cfgs, final = [], {}
    for i in inits:
        st = states[i]
        k = i
        n = 0
        while k in nxt and n < 50:
            k = nxt[k]
            n += 1
        final[i] = states[k]
        cfgs.append({"id": i, "pts": list(st["pts"]), "sI": st["sI"], "eI": st["eI"], "lw": int(st["lw"]), "uw": int(st["uw"]), "wlo": st["wlo"], "whi": st["whi"], "tlo": st["tlo"], "thi": st["thi"], "radius": 2})
    real = run_driver("contour_wall.py", cfgs, d, "wall")
    cmap = {c["id"]: c for c in cfgs}
    bad = 0
    kinds = {}
    for r in real:
        f = final[r["id"]]
        c = cmap[r["id"]]
        kind = "wall.X" if c["lw"] else "X.wall"
        v.add_case("addPointAtWall %s n=%d startInd=%d endInd=%d wall at %s thickness %s" % (kind, len(c["pts"]), c["sI"], c["eI"], c["wlo"] if c["lw"] else c["whi"],
                                                                                           c["tlo"] if c["lw"] else c["thi"]))
        v.add_eval(len(f["pts"]) + 2)
        kinds[kind] = kinds.get(kind, 0) + 1
        if f["stage"] != "done":
            raise MachineryError("specification behaviour does not end in 'done': %s" % f)
        want = {"pts": [100 * p for p in f["pts"]], "sI": f["sI"], "eI": f["eI"]}
        ok = (not r["raised"]) and len(r["pts"]) == len(want["pts"]) and all(abs(a - b) <= 2 for a, b in zip(r["pts"], want["pts"])) \
            and r["sI"] == want["sI"] and r["eI"] == want["eI"] and r["dR"] <= 100
        if not ok:
            bad += 1
            what = "raised" if r["raised"] else "indices" if (r["sI"], r["eI"]) != (want["sI"], want["eI"]) else "points"
            v.violation("C11 engine=wall-replay kind=%s differs=%s endInd_negative=%d plate=%d" % (kind, what, int(c["eI"] < 0), int((c["tlo"] if c["lw"] else c["thi"]) > 0)),
                        "real addPointAtWallToContours on %s: got %s, Contour.tla ends in %s" % (c, {k: r[k] for k in ("raised", "exc", "pts", "sI", "eI")}, want),
                        {"config": c, "real": r, "spec_final": want})
    v.add_traces(len(real))
    v.note("wall_replay", {"initial_configurations": len(cfgs), "by_kind": kinds, "differing": bad})
    if real:
        r = real[len(real) // 2]
        v.sample({"engine": "S->C wall insertion", "config": cmap[r["id"]], "real_final": {k: r[k] for k in ("pts", "sI", "eI")}})
        # binding self-test: shifting the real start index by one must be noticed
        f = final[r["id"]]
        v.note("binding_selftest_wall", {"mutants": 1, "rejected": int(r["sI"] + 1 != f["sI"])})


def run(tier, seed):
    v = Verdict("C11", tier, seed, "model_checking")
    v.rule = ("MC: Contour.tla - for every fresh contour (6..7 points, 6..9 at the thorough tier, start/end index as a region hands them down, endInd negative or not) and every position of "
              "the wall crossing (inside a gap near either point or in the middle, up to three extensions beyond the contour) the procedure "
              "_find_intersection + addPointAtWallToContours ends with the wall point at startInd / endInd, the other end still the point it was, all points "
              "strictly between the targets inside the wall and all others beyond it; ContourPrim.tla - insert / temporaryExtend / reverse keep designating the "
              "same points whatever the stored indices. S->C: every initial configuration TLC enumerated is run through the REAL addPointAtWallToContours "
              "(real _find_intersection, FineContour, wallIntersection) and the final (points, startInd, endInd) compared with the specification's; the whole "
              "reachable graph of ContourPrim.tla is compared state by state with the successors the real PsiContour produces (both inclusions). "
              "C->S (grids): Trace_Grid clauses TargetOnWall, TargetOnSurface, InsideBetweenTargets, GuardsOutside, PenaltyCases, WallIsInput on every campaign grid and "
              "on grids with slanted / clockwise / many-vertex walls and guard counts 0..2. A case is one configuration or grid.")
    v.assumptions = ["in the S->C replays the flux surface is a straight line of psi(R,Z)=R and the wall a rectangle, so positions are exact to rounding",
                     "inside/outside and the outside fraction of a cell come from an exact-arithmetic-free but independent polygon oracle (matplotlib-free ray casting in the harness)"]
    d = scratch("c11")
    prim_graph(v, tier, d)
    wall_graph(v, tier, d)
    grid_part(v, tier, d)
    shutil.rmtree(d, ignore_errors=True)
    v.exhaustive = False
    return v


def grid_part(v, tier, d):
    names = campaign.campaign(tier) + (campaign.C11_WALLS_QUICK if tier == "quick" else campaign.C11_WALLS)
    names = list(dict.fromkeys(names))
    traces, failed = gridprops.run(v, "C11", tier, names=names)
    walled = [t for t in traces if t.get("haswall")]
    v.note("wall_grids", {"with_wall": len(walled), "nonorthogonal": sum(1 for t in walled if not t["orth"]),
                          "guards": sorted({t["G"] for t in walled}),
                          "mixed_penalty_cells": sum(1 for t in walled for row in t["pm"] for p in row if 0 < p < 1000000),
                          "outside_cells": sum(1 for t in walled for row in t["pm"] for p in row if p == 1000000)})
    if sum(1 for t in walled if not t["orth"]) < 3:
        v.fail_machinery("coverage floor: fewer than 3 non-orthogonal grids with a wall")
    clean = [t for t in walled if t["id"] not in failed and not t["orth"] and t["G"] >= 1]
    if clean:
        muts = []
        a = copy.deepcopy(clean[0]); a["id"] = 9101
        a["dw"]["lo"] = [[x + 5000 for x in row] for row in a["dw"]["lo"]]
        muts.append((a, "TargetOnWall"))
        b = copy.deepcopy(clean[0]); b["id"] = 9102
        b["pm"] = [[0 for x in row] for row in b["pm"]]
        muts.append((b, "PenaltyCases"))
        c = copy.deepcopy(clean[0]); c["id"] = 9103
        c["wall_out7"] = c["wall_out7"][::-1]; c["wall_out3"] = c["wall_out3"][::-1]
        muts.append((c, "WallIsInput"))
        e = copy.deepcopy(clean[0]); e["id"] = 9104
        e["inw"]["c"] = [[1 for x in row] for row in e["inw"]["c"]]
        muts.append((e, "GuardsOutside"))
        mf, _ = gridprops.validate([m for m, _ in muts], "C11mut")
        ok = sum(1 for m, cl in muts if any(c2 == cl for c2, _ in mf.get(m["id"], ())))
        v.note("binding_selftest_grid", {"mutants": len(muts), "rejected_with_expected_clause": ok})
        if ok != len(muts):
            v.fail_machinery("grid binding self-test failed: %s" % mf)
