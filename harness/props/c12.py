"""C12 - a valid grid or an explicit error; shipped reference inputs generate."""
import copy
import json
import os
import re
import shutil

from .. import campaign, gridprops, tlc
from ..core import CACHE, PY, VERIF, NCPU, FileLock, MachineryError, Verdict, repo_env, run_group, scratch, parallel_jobs

SHIPPED = ["example:lsn", "example:usn", "example:cdn", "example:ldn", "example:udn", "example:udn2", "geqdsk:cdn", "geqdsk:ldn", "torpex:coils", "torpex:coils-nonorth"]


def shipped_runs(kinds):
    base = os.path.join(CACHE, "grids-" + campaign.gridkey(), "shipped")
    os.makedirs(base, exist_ok=True)

    def one(kind):
        d = os.path.join(base, kind.replace(":", "_"))
        with FileLock(d + ".lock"):
            st = os.path.join(d, "status.json")
            if not os.path.exists(st):
                run_group([PY, "-B", os.path.join(VERIF, "harness/drivers/shipped_run.py"), kind, d], timeout=1500, env=repo_env())
            if not os.path.exists(st):
                return {"kind": kind, "outcome": "hang", "tail": "no status written (killed after 1500 s)"}
            with open(st) as fh:
                return json.load(fh)

    return parallel_jobs([lambda k=k: one(k) for k in kinds], nproc=10)


def options_table(v):
    d = scratch("c12opt")
    n = min(NCPU, 12)
    jobs = []
    for k in range(n):
        outp = os.path.join(d, "o%d.json" % k)

        def job(k=k, outp=outp):
            rc, out, err = run_group([PY, "-B", os.path.join(VERIF, "harness/drivers/options_run.py"), str(k), str(n), outp], timeout=900,
                                     env=repo_env({"VERIF_SCRATCH": d}))
            if rc != 0 or not os.path.exists(outp):
                raise MachineryError("options_run failed rc=%s\n%s" % (rc, (out + err)[-2000:]))
            with open(outp) as fh:
                return json.load(fh)

        jobs.append(job)
    recs = sorted((r for rs in parallel_jobs(jobs) for r in rs), key=lambda r: r["id"])
    tf = os.path.join(d, "tr.json")
    with open(tf, "w") as fh:
        json.dump({"traces": recs}, fh)
    res = tlc.run_tlc("Options", "Trace_Options.cfg", workers=1, timeout=900, env_extra={"TRACE_FILE": tf}, check=False)
    if not res.ok or res.distinct != 2 * len(recs):
        raise MachineryError("Trace_Options failed: %s" % res.out[-1500:])
    v.add_tlc(res)
    failed = {}
    for m in re.finditer(r'<<\s*"CLAUSE-FAILED",\s*"(\w+)",\s*(\d+)\s*>>', res.out):
        failed.setdefault(int(m.group(2)), set()).add(m.group(1))
    for r in recs:
        v.add_case("option %s class=%s entry=%s" % (r["option"], r["class"], r["entry"]))
        for cl in failed.get(r["id"], ()):
            v.violation("C12 engine=options clause=%s option=%s" % (cl, r["option"]),
                        "entry point '%s' gave '%s' for option %s = %s (class %s; owned by equilibrium: %s, by mesh: %s)"
                        % (r["entry"], r["outcome"], r["option"], r["value"], r["class"], bool(r["own_eq"]), bool(r["own_mesh"])), {"case": r})
    v.add_traces(len(recs))
    v.add_eval(len(recs))
    v.note("options", {"cases": len(recs), "failed": len(failed)})
    shutil.rmtree(d, ignore_errors=True)


def run(tier, seed):
    v = Verdict("C12", tier, seed, "model_checking")
    v.rule = ("MC: Options.tla (rejection table per entry point) and Topology.tla. C->S: (a) every campaign grid: documented variables present with "
              "their shapes, every value finite except chi off the closed surfaces and ShiftAngle/total_poloidal_distance outside the core (domains from "
              "Topology.tla), hy and dy positive, no folded cell, embedded YAML loads; (b) the rejection table replayed on every option of the real "
              "factories at the constructor, BoutMesh and command-line entry points; (c) the shipped examples and reference settings run the way their "
              "README says (six tokamak geometries, two geqdsk settings files through hypnotoad-geqdsk, two TORPEX files); (d) campaign configurations that "
              "the code refuses must end in an exception, never in a hang or a file. A case is one grid / option perturbation / shipped run.")
    v.assumptions = ["'valid grid' = the clauses listed; BOUT++ itself is not run", "a generation killed by the watchdog (900 s) counts as a hang"]
    res = tlc.run_tlc("Options", "MC_Options.cfg", workers=2, timeout=600, env_extra={"TRACE_FILE": os.path.join(VERIF, "spec", "empty_traces.json")}, check=False)
    v.add_tlc(res)
    if not res.ok:
        v.fail_machinery("MC_Options: %s" % (res.violated or res.out[-500:]))
    names = campaign.campaign(tier) + (campaign.ENVELOPE_QUICK if tier == "quick" else campaign.ENVELOPE)
    # valid non-default options that change what is computed for the file: the documented variable set is the same (seed C12_xy_curvature_arrays_dropped)
    names = names + [b for _, b in (campaign.C07_PAIRS[:1] + campaign.C07_PAIRS[3:4] if tier == "quick" else campaign.C07_PAIRS)]
    traces, failed = gridprops.run(v, "C12", tier, names=names)
    # refused configurations must be explicit errors
    v.note("envelope", {n: (exc or "file") for n, exc in [(t["name"], None) for t in traces if t["name"].startswith("env_")] + [(n, e) for n, e, _ in v.notes["grids"]["refused"] if n.startswith("env_")]})
    for n, exc, msg in v.notes["grids"]["refused"]:
        if exc is None:
            v.violation("C12 engine=grid clause=ExplicitError grid=%s" % n, "generation of %s ended without a file and without an exception (hang or crash)" % n, {"grid": n})
    options_table(v)
    sh = shipped_runs(SHIPPED if tier == "thorough" or True else SHIPPED)
    for s in sh:
        v.add_case("shipped " + s["kind"])
        v.add_eval(1)
        unused = "not used" in s.get("tail", "")
        # geqdsk_ldn.yaml does not set nx_inter_sep, so whether it can grid a given disconnected equilibrium depends on that
        # file; what is demanded of it is that the command line does not reject the settings file itself
        if s["kind"] == "geqdsk:ldn" and s["outcome"] == "exception" and not unused:
            v.note("shipped_geqdsk_ldn", "refused by the gridder on the analytic LDN equilibrium (connected double null not possible): accepted outcome")
            continue
        if s["outcome"] != "file":
            last = [ln for ln in s.get("tail", "").strip().splitlines() if ln.strip()][-1:] or [""]
            v.violation("C12 engine=shipped clause=ShippedGenerates input=%s" % s["kind"], "shipped input %s does not generate: %s" % (s["kind"], last[0][:300]), {"status": s})
    v.note("shipped", {s["kind"]: [s["outcome"], s.get("wall_s")] for s in sh})
    clean = [t for t in traces if not any(gridprops.clause_prop(c) == "C12" and l != "ShiftTorsion_xlow" for c, l in failed.get(t["id"], ()))]
    if clean:
        a = copy.deepcopy(clean[0]); a["id"] = 9001
        a["nan2d"]["g22"][1][1] = 1
        b = copy.deepcopy(clean[0]); b["id"] = 9002
        b["orient"]["ll"][1][2] = -b["orient"]["ll"][1][2]
        c = copy.deepcopy(clean[0]); c["id"] = 9003
        c["vars"] = [x for x in c["vars"] if x != "g_23_ylow"]
        mf, _ = gridprops.validate([a, b, c], "C12mut")
        ok = [("FiniteExceptAllowedNaN", "g22") in mf.get(9001, ()), any(x == "NoFoldedCell" for x, _ in mf.get(9002, ())), any(x == "AllDocumentedPresent" for x, _ in mf.get(9003, ()))]
        v.note("binding_selftest", {"mutants": 3, "rejected_with_expected_clause": sum(ok)})
        if not all(ok):
            v.fail_machinery("binding self-test failed %s" % mf)
    v.exhaustive = False
    return v
