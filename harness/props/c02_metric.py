"""C02, MC + S->C: Metric.tla theorems and the lattice replay of the real calcMetric."""
import json
import os
import shutil

from .. import tlc
from ..core import PY, VERIF, MachineryError, repo_env, run_group, scratch

COMP = {"g11": ("con", "g11"), "g22": ("con", "g22"), "g33": ("con", "g33"), "g12": ("con", "g12"), "g13": ("con", "g13"), "g23": ("con", "g23"),
        "g_11": ("cov", "g_11"), "g_22": ("cov", "g_22"), "g_33": ("cov", "g_33"), "g_12": ("cov", "g_12"), "g_13": ("cov", "g_13"), "g_23": ("cov", "g_23")}


def fr(q):
    return q[0] / q[1]


def run(v, tier, seed):
    res = tlc.run_tlc("MC_Metric", "MC_Metric.cfg", workers=8, timeout=1200, check=False)
    v.add_tlc(res)
    if not res.ok:
        if res.violated:
            v.violation("C02 engine=mc violated=%s" % res.violated, "TLC: theorem %s of Metric.tla fails" % res.violated, {"tlc_tail": res.out[-2500:]})
        else:
            v.fail_machinery("MC_Metric did not finish: " + res.out[-1200:])
        return
    em = tlc.run_tlc("MC_Metric", "MC_Metric_emit.cfg", workers=1, timeout=1200, check=False)
    vals = tlc.extract_prints(em.out, "PT")
    pts = {}
    for val in vals:
        _, pt, con, cov, jac, dphidy = val
        key = json.dumps({k: list(pt[k]) if isinstance(pt[k], tuple) else pt[k] for k in sorted(pt)}, sort_keys=True)
        pts[key] = (pt, con, cov, jac, dphidy)
    if len(pts) != res.distinct:
        raise MachineryError("emitted %d lattice points, TLC checked %d" % (len(pts), res.distinct))
    plist = []
    for n, (key, (pt, con, cov, jac, dphidy)) in enumerate(sorted(pts.items())):
        plist.append({"id": n, "R": fr(pt["R"]), "Bpa": fr(pt["Bpa"]), "Bt": fr(pt["Bt"]), "hy": fr(pt["hy"]), "c": fr(pt["c"]), "s": fr(pt["s"]),
                      "sigma": pt["sigma"], "_exp": {"con": {k: fr(con[k]) for k in con}, "cov": {k: fr(cov[k]) for k in cov}, "J": fr(jac)},
                      "_pt": {k: (list(pt[k]) if isinstance(pt[k], tuple) else pt[k]) for k in pt}})
    d = scratch("c02m")
    inp, outp = os.path.join(d, "pts.json"), os.path.join(d, "out.json")
    with open(inp, "w") as fh:
        json.dump([{k: p[k] for k in p if not k.startswith("_")} for p in plist], fh)
    rc, out, err = run_group([PY, "-B", os.path.join(VERIF, "harness/drivers/metric_replay.py"), inp, outp], timeout=600, env=repo_env())
    if rc != 0 or not os.path.exists(outp):
        raise MachineryError("metric_replay failed rc=%s\n%s" % (rc, (out + err)[-2000:]))
    with open(outp) as fh:
        recs = json.load(fh)
    shutil.rmtree(d, ignore_errors=True)
    ncmp = 0
    nref = 0
    for r in recs:
        p = plist[r["id"]]
        v.add_case("metric lattice point %s orthogonal=%s" % (json.dumps(p["_pt"], sort_keys=True), r["orthogonal"]))
        if "error" in r:
            nref += 1
            # the run-time Jacobian guard refused: an explicit error, but it must not refuse the correct closed forms
            v.violation("C02 engine=metric-replay comp=refused orth=%s sigma=%d" % (r["orthogonal"], p["sigma"]),
                        "calcMetric raised on a lattice point: %s (%s)" % (r["error"], p["_pt"]), {"point": p["_pt"], "orthogonal": r["orthogonal"]})
            continue
        for comp, (kind, name) in list(COMP.items()) + [("J", ("J", "J"))]:
            exp = p["_exp"]["J"] if comp == "J" else p["_exp"][kind][name]
            for loc in ("centre", "ylow", "xlow"):
                got = r[comp][loc]
                ncmp += 1
                if abs(got - exp) > 1e-12 * max(1.0, abs(exp)):
                    what = "sign" if abs(got + exp) <= 1e-12 * max(1.0, abs(exp)) else "value"
                    v.violation("C02 engine=metric-replay comp=%s orth=%s sigma=%d beta=%s diff=%s" % (comp, r["orthogonal"], p["sigma"], "0" if p["s"] == 0 else "nonzero", what),
                                "real calcMetric %s at %s = %r, Metric.tla gives %r for %s (orthogonal=%s)" % (comp, loc, got, exp, p["_pt"], r["orthogonal"]),
                                {"point": p["_pt"], "orthogonal": r["orthogonal"], "component": comp, "impl": got, "spec": exp})
                    break
    v.add_eval(ncmp)
    v.add_traces(len(recs))
    v.note("metric_replay", {"lattice_points": len(plist), "calcMetric_runs": len(recs), "values_compared": ncmp, "refused": nref})
    if plist:
        v.sample({"engine": "S->C calcMetric", "point": plist[len(plist) // 2]["_pt"], "expected": plist[len(plist) // 2]["_exp"]})
