def run(v, tier, seed):
    pass
