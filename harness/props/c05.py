"""C05 - hy and poloidal_distance are true arc lengths along flux surfaces."""
import copy

from .. import gridprops, tlc
from ..core import Verdict


def run(tier, seed):
    v = Verdict("C05", tier, seed, "model_checking")
    v.rule = ("MC: Topology.tla - y chains of every configuration of the box (partition, order, start of closed chains at their first member). "
              "C->S: every campaign grid; an independent contour follower (RK45, rtol 1e-9, analytic psi for the tokamak families) measures the arc from "
              "the lower y-face to the centre and from the centre to the upper y-face of every cell at the centre-x and xlow-x radial positions; "
              "Trace_Grid.tla checks hy*dy (centre, interior y-faces incl. across joins via the layout's adjacency, xlow), poloidal_distance "
              "increments, monotonicity, continuity at every join except the wrap of a closed chain, zero at the lower target / documented chain "
              "start, total = circumference (sum over the closed chain), NaN domain. A case is one generated grid.")
    v.assumptions = ["arc oracle: RK45 along the analytic flux function of the family (interpolation error of the input grid ~1e-6 m is far below the bounds)",
                     "bound: 1% of the cell arc + 2e-4 m*(100/Nfine)^2 (error of locating a point between two FineContour points)",
                     "cells whose face is an X-point on the separatrix surface are excluded (tangent undefined there)"]
    res = tlc.run_tlc("MC_Topology", "MC_Topology_quick.cfg", timeout=3600, check=False)
    v.add_tlc(res)
    if not res.ok:
        v.fail_machinery("MC_Topology did not pass: %s" % (res.violated or res.out[-800:]))
    names = None
    traces, failed = gridprops.run(v, "C05", tier, names=names)
    if tier == "thorough":
        refinement(v, traces)
    clean = [t for t in traces if not any(gridprops.clause_prop(c) == "C05" for c, _ in failed.get(t["id"], ())) and t["topo"] in ("LSN", "CDN")]
    if clean:
        a = copy.deepcopy(clean[0]); a["id"] = 9001
        # hy of one interior face taken from the wrong neighbour (off by one row)
        a["hydy"]["ylow"][1][4] = a["arc"]["Alo_c"][1][4] + a["arc"]["Ahi_c"][1][5]
        b = copy.deepcopy(clean[0]); b["id"] = 9002
        yy = b["rects"][2][2]     # first row of the second region: distance restarts there instead of continuing
        for x in range(b["NX"]):
            b["pd"]["ylow"][x][yy] = 0
        mf, _ = gridprops.validate([a, b], "C05mut")
        got = [any(c == "HyYlowIsArc" for c, _ in mf.get(9001, ())), any(c in ("PDContinuousAtJoins", "PDIncrementsAreArcs") for c, _ in mf.get(9002, ()))]
        v.note("binding_selftest", {"mutants": 2, "rejected_with_expected_clause": sum(got)})
        if not all(got):
            v.fail_machinery("binding self-test failed: %s" % mf)
    v.exhaustive = False
    return v


def refinement(v, traces):
    """the discrepancy from the exact arc shrinks quadratically with finecontour_Nfine: the same grid at 50, 100 and 200, judged pairwise by
    Trace_Grid.tla (clause QuadraticInNfine) on the cells whose faces are not region joins"""
    import json
    import os

    from .. import campaign
    from ..core import PY, VERIF, MachineryError, repo_env, run_group, scratch, parallel_jobs

    trio = ["lsn_orth_n50", "lsn_orth", "lsn_orth_n200"]
    grids = campaign.ensure(trio)
    if any(grids[n][1]["outcome"] != "file" for n in trio):
        v.note("refinement", "grids missing")
        return
    d = scratch("c05r")
    jobs = []
    for n, (a, b) in enumerate(zip(trio[:-1], trio[1:])):
        op = os.path.join(d, "pair%d.json" % n)

        def job(a=a, b=b, op=op, n=n):
            rc, out, err = run_group([PY, "-B", os.path.join(VERIF, "harness/project.py"), grids[a][0], "C05", "--pair", grids[b][0], "refine", op], timeout=1800, env=repo_env())
            if rc != 0 or not os.path.exists(op):
                raise MachineryError("pair projection failed %s %s\n%s" % (a, b, (out + err)[-2000:]))
            with open(op) as fh:
                t = json.load(fh)
            t["id"] = 8000 + n
            t["pair"] = "%s/%s" % (a, b)
            return t

        jobs.append(job)
    pt = parallel_jobs(jobs)
    pf, results = gridprops.validate(pt, "C05r")
    for r in results:
        v.add_tlc(r)
    v.add_traces(len(pt))
    for t in pt:
        v.add_case("refinement " + t["pair"])
        for cl, loc in sorted(pf.get(t["id"], ())):
            if cl == "QuadraticInNfine":
                v.violation("C05 engine=gridpair clause=QuadraticInNfine pair=%s" % t["pair"], "hy error does not shrink by 2.5 from Nfine=%d to %d (%s)" % (t["nfineA"], t["nfineB"], t["pair"]),
                            {"pair": t["pair"]})
    v.note("refinement", {"pairs": [t["pair"] for t in pt]})
    import shutil

    shutil.rmtree(d, ignore_errors=True)
