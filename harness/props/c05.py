"""C05 - hy and poloidal_distance are true arc lengths along flux surfaces."""
import copy

from .. import gridprops, tlc
from ..core import Verdict


def run(tier, seed):
    v = Verdict("C05", tier, seed, "model_checking")
    v.rule = ("MC: Topology.tla - y chains of every configuration of the box (partition, order, start of closed chains at their first member). "
              "C->S: every campaign grid; an independent contour follower (RK45, rtol 1e-9, analytic psi for the tokamak families) measures the arc from "
              "the lower y-face to the centre and from the centre to the upper y-face of every cell at the centre-x and xlow-x radial positions; "
              "Trace_Grid.tla checks hy*dy (centre, interior y-faces incl. across joins via the layout's adjacency, xlow), poloidal_distance "
              "increments, monotonicity, continuity at every join except the wrap of a closed chain, zero at the lower target / documented chain "
              "start, total = circumference (sum over the closed chain), NaN domain. A case is one generated grid.")
    v.assumptions = ["arc oracle: RK45 along the analytic flux function of the family (interpolation error of the input grid ~1e-6 m is far below the bounds)",
                     "bound: 1% of the cell arc + 2e-4 m*(100/Nfine)^2 (error of locating a point between two FineContour points)",
                     "cells whose face is an X-point on the separatrix surface are excluded (tangent undefined there)"]
    res = tlc.run_tlc("MC_Topology", "MC_Topology_quick.cfg", timeout=3600, check=False)
    v.add_tlc(res)
    if not res.ok:
        v.fail_machinery("MC_Topology did not pass: %s" % (res.violated or res.out[-800:]))
    names = None
    traces, failed = gridprops.run(v, "C05", tier, names=names)
    if tier == "thorough":
        refinement(v, traces)
    clean = [t for t in traces if not any(gridprops.clause_prop(c) == "C05" for c, _ in failed.get(t["id"], ())) and t["topo"] in ("LSN", "CDN")]
    if clean:
        a = copy.deepcopy(clean[0]); a["id"] = 9001
        # hy of one interior face taken from the wrong neighbour (off by one row)
        a["hydy"]["ylow"][1][4] = a["arc"]["Alo_c"][1][4] + a["arc"]["Ahi_c"][1][5]
        b = copy.deepcopy(clean[0]); b["id"] = 9002
        yy = b["rects"][2][2]     # first row of the second region: distance restarts there instead of continuing
        for x in range(b["NX"]):
            b["pd"]["ylow"][x][yy] = 0
        mf, _ = gridprops.validate([a, b], "C05mut")
        got = [any(c == "HyYlowIsArc" for c, _ in mf.get(9001, ())), any(c in ("PDContinuousAtJoins", "PDIncrementsAreArcs") for c, _ in mf.get(9002, ()))]
        v.note("binding_selftest", {"mutants": 2, "rejected_with_expected_clause": sum(got)})
        if not all(got):
            v.fail_machinery("binding self-test failed: %s" % mf)
    v.exhaustive = False
    return v


def refinement(v, traces):
    """the discrepancy from the exact arc shrinks quadratically with finecontour_Nfine (same grid at 50, 100, 200)"""
    import numpy as np

    by = {t["name"]: t for t in traces}
    trio = [by.get("lsn_orth_n50"), by.get("lsn_orth"), by.get("lsn_orth_n200")]
    if any(t is None for t in trio):
        v.note("refinement", "grids missing")
        return
    errs = []
    for t in trio:
        H = np.array(t["hydy"]["centre"], float)
        A = np.array(t["arc"]["Alo_c"], float) + np.array(t["arc"]["Ahi_c"], float)
        errs.append(float(np.sqrt(np.mean(((H - A) / A) ** 2))))
    ratios = [errs[0] / errs[1], errs[1] / errs[2]]
    v.note("refinement", {"nfine": [50, 100, 200], "rms_rel_error_hy": errs, "ratios": ratios})
    if min(ratios) < 2.5:
        v.violation("C05 engine=grid clause=QuadraticInNfine", "hy error does not shrink quadratically with Nfine: rms relative errors %s" % errs, {"errs": errs})
