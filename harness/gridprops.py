"""Shared engine for properties decided on G-traces (complete grid generations)."""
import hashlib
import json
import os
import re
import shutil

from . import campaign, tlc
from .core import PY, VERIF, NCPU, MachineryError, repo_env, run_group, scratch, parallel_jobs

# clauses of Trace_Topology / Trace_Grid -> property they are evidence for
TOPO_CLAUSES = {"RegionOrder", "SegmentCount", "RegionSizes", "Kinds", "ConnWellFormed", "ConnIsPhysical", "ConnSymmetric",
                "ConnSameSegment", "Numbering", "MeshConn", "GlobalSize", "Indices", "Tiling", "XGroups", "YGroupsMembers",
                "YGroupsOrder", "FileDims", "IntsOrdered", "LoaderAccepts", "IntsAsDocumented", "AdjacencyFromInts", "YCoord",
                "DyIsTwoPiOverCore", "Theta", "ThetaExact"}
CLAUSE_PROP = {c: "C08" for c in TOPO_CLAUSES}
CLAUSE_PROP.update({"YGroupsStart": "C05", "DxAtFaces": "C06"})      # DxAtFaces is evaluated on the C06 observation (ShiftTorsion_xlow needs dx_xlow)
CLAUSE_PREFIX = {"InverseOK": "C02", "Jacobian": "C02", "ClosedForm": "C02", "OrthogonalZero": "C02", "G23": "C02", "Displacement": "C02", "BetaIs": "C02", "Dphidy": "C06",
                 "BrIs": "C03", "BzIs": "C03", "BpMagnitude": "C03", "BtotIs": "C03", "BtIs": "C03", "Pressure": "C03", "BpSignIs": "C03",
                 "OneBpSign": "C03", "Scalar_": "C03",
                 "AllDocumented": "C12", "Shapes": "C12", "WallClosed": "C12", "FiniteExcept": "C12", "HyDyPositive": "C12", "NoFoldedCell": "C12",
                 "InputsYaml": "C12", "DxIs": "C09", "PsixyXlow": "C09", "RadialList": "C09", "Rejection_": "C12", "Pair": "C16", "MirrorInts": "C16", "SharedEdge": "C08", "ChiNaNOnOpen": "C08", "Hy": "C05", "QuadraticInNfine": "C05", "PD": "C05", "Total": "C05",
                 "CurlX": "C07", "CurlY": "C07", "CurlZ": "C07", "BxcvIs": "C07", "TwoForms": "C07", "Stencil": "C07", "SameIntegralCurve": "C04", "RadialParallel": "C04", "TargetOn": "C11", "InsideBetween": "C11", "GuardsOutside": "C11", "PenaltyCases": "C11", "WallIsInput": "C11", "PoloidalOrder": "C10", "PoloidalDistance": "C10", "Nested": "C10", "ZShift": "C06", "JumpIs": "C06", "ShiftAngle": "C06", "ShiftTorsion": "C06", "DxAtFaces": "C09", "ChiDomain": "C06", "ParallelGrid": "C13"}


def clause_prop(c):
    if c in CLAUSE_PROP:
        return CLAUSE_PROP[c]
    if c.startswith("Present_"):      # a variable the check of that property needs is not in the file
        return c[len("Present_"):]
    for k, v in CLAUSE_PREFIX.items():
        if c.startswith(k):
            return v
    return None


CLAUSE_PROP.update({c: "C01" for c in ("OnSurface", "PsixyIsPsi", "ConstAlongY", "PinnedAreXpoints", "RadialGridShared")})


def _projkey():
    h = hashlib.sha256()
    for f in ("harness/project.py", "harness/project_more.py", "harness/oracles.py"):
        p = os.path.join(VERIF, f)
        if os.path.exists(p):
            with open(p, "rb") as fh:
                h.update(fh.read())
    return h.hexdigest()[:10]


def project(dirs, pid, timeout=1800):
    """run the projection for property pid in every grid dir (parallel, cached); returns list of gt paths"""
    key = _projkey()
    jobs = []
    paths = []
    for d in dirs:
        gt = os.path.join(d, "gt_%s.%s.json" % (pid, key))
        paths.append(gt)
        if os.path.exists(gt):
            continue

        def job(d=d, gt=gt):
            for f in os.listdir(d):
                if f.startswith("gt_%s." % pid):
                    os.remove(os.path.join(d, f))
            rc, out, err = run_group([PY, "-B", os.path.join(VERIF, "harness/project.py"), d, pid], timeout=timeout, env=repo_env())
            plain = os.path.join(d, "gt_%s.json" % pid)
            if rc != 0 or not os.path.exists(plain):
                raise MachineryError("projection %s failed in %s rc=%s\n%s" % (pid, d, rc, (out + err)[-2500:]))
            os.replace(plain, gt)

        jobs.append(job)
    parallel_jobs(jobs)
    return paths


def validate(traces, tag, nstates=5):
    """traces: list of dicts with unique 'id'. Returns {id: set((clause, loc))}, tlc results"""
    d = scratch("gv_" + tag)
    nchunk = min(8, max(1, len(traces) // 2))
    jobs = []
    for n in range(nchunk):
        ch = traces[n::nchunk]
        if not ch:
            continue
        tf = os.path.join(d, "tr%d.json" % n)
        with open(tf, "w") as fh:
            json.dump({"traces": ch}, fh)

        def job(tf=tf, ch=ch):
            return tlc.run_tlc("Trace_Grid", "Trace_Grid.cfg", workers=1, timeout=3000, env_extra={"TRACE_FILE": tf}, check=False, heap="6g"), ch

        jobs.append(job)
    failed = {}
    results = []
    for res, ch in parallel_jobs(jobs, nproc=8):
        results.append(res)
        if not res.ok:
            raise MachineryError("Trace_Grid run failed (violated=%s):\n%s" % (res.violated, res.out[-3000:]))
        if res.distinct != nstates * len(ch):
            raise MachineryError("Trace_Grid: %d states for %d traces (every trace must take all %d steps)" % (res.distinct, len(ch), nstates - 1))
        for m in re.finditer(r'<<\s*"CLAUSE-FAILED",\s*"(\w+)",\s*(\d+)(?:,\s*"(\w+)")?\s*>>', res.out):
            failed.setdefault(int(m.group(2)), set()).add((m.group(1), m.group(3) or ""))
    shutil.rmtree(d, ignore_errors=True)
    return failed, results


def run(v, pid, tier, names=None, mutate=None, extra_cfgs=None, min_topos=2):
    """Generate/fetch the campaign, project for pid, let TLC judge. Records coverage in v.
    Returns (traces, failed)"""
    names = names or campaign.campaign(tier)
    res = campaign.ensure(names, extra_cfgs=extra_cfgs)
    gen = [(n, d) for n, (d, st) in res.items() if st["outcome"] == "file"]
    refused = [(n, st.get("exception"), (st.get("message") or "")[:100]) for n, (d, st) in res.items() if st["outcome"] != "file"]
    paths = project([d for _, d in gen], pid)
    traces = []
    for k, ((n, d), p) in enumerate(zip(gen, paths)):
        with open(p) as fh:
            t = json.load(fh)
        t["id"] = k + 1
        traces.append(t)
    failed, results = validate(traces, pid)
    for r in results:
        v.add_tlc(r)
    v.add_traces(len(traces))
    for t in traces:
        v.add_case("grid %s topo=%s nx=%s ny=%s G=%s orth=%s" % (t["name"], t["topo"], t["nx"], t["ny"], t["G"], t["orth"]))
        v.add_eval(t["NX"] * t["NY"])
        for cl, loc in sorted(failed.get(t["id"], ())):
            if clause_prop(cl) != pid:
                continue
            key = "%s engine=grid clause=%s loc=%s orth=%d grid=%s" % (pid, cl, loc, t["orth"], t["name"])
            v.violation(key, "clause %s (%s) of Trace_Grid fails on grid %s (topo=%s nx=%s ny=%s G=%s orthogonal=%s)"
                        % (cl, loc, t["name"], t["topo"], t["nx"], t["ny"], t["G"], bool(t["orth"])),
                        {"grid": t["name"], "config": campaign.CONFIGS.get(t["name"]), "clause": cl, "loc": loc})
    topos = sorted({t["topo"] for t in traces})
    v.note("grids", {"requested": len(names), "generated": [n for n, _ in gen], "refused": refused, "topologies": topos,
                     "points_evaluated": sum(t["NX"] * t["NY"] for t in traces),
                     "clauses_failed_any_property": sorted({c for s in failed.values() for c, _ in s})})
    if len(topos) < min_topos:
        v.fail_machinery("coverage floor: only topologies %s generated" % topos)
    if traces:
        t = traces[0]
        v.sample({"engine": "C->S grid trace", "grid": t["name"], "topo": t["topo"], "nx": t["nx"], "ny": t["ny"], "G": t["G"], "ints": t["ints"]})
    return traces, failed
