"""The grid campaigns: named generation configurations, produced once per state of
/repo (cache keyed by the hash of /repo's sources and of the generating drivers) and
shared by all checks."""
import hashlib
import json
import os
import shutil
import time

from .core import CACHE, PY, REPO, VERIF, NCPU, FileLock, MachineryError, repo_env, run_group, parallel_jobs

GEN_FILES = ["harness/drivers/gridrun.py", "harness/equilibria.py"]

BASE = dict(psinorm_core=0.9, psinorm_sol=1.1, psinorm_pf=0.95, finecontour_Nfine=100,
            target_all_poloidal_spacing_length=0.3, xpoint_poloidal_spacing_length=0.05,
            psi_spacing_separatrix_multiplier=0.5)


def _c(name, topo, nx, ny, G, geometry=None, options=None, **kw):
    o = dict(BASE)
    if topo in ("CORE", "LIM"):
        o = {}
    o.update(options or {})
    c = {"name": name, "topo": topo, "nx": nx, "ny": ny, "G": G, "options": o,
         "family": "circular" if topo in ("CORE", "LIM") else "torpex" if topo == "XPT" else "tokamak"}
    if topo == "XPT":
        c["options"] = dict(options or {})
    if geometry:
        c["geometry"] = geometry
    c.update(kw)
    return c


DN = dict(psinorm_sol_inner=1.1)

CONFIGS = {}


def _add(c):
    CONFIGS[c["name"]] = c


# ---- core campaign (quick tier) -------------------------------------------------------
_add(_c("lsn_orth", "LSN", [2, 2], [3, 4, 3], 1, "lsn", dict(orthogonal=True), fpol="quad", pressure="quad", wall="slanted"))
_add(_c("usn_orth", "USN", [2, 2], [3, 4, 3], 1, "lsn", dict(orthogonal=True), fpol="quad", pressure="quad", wall="slanted", mirror=True))
_add(_c("lsn_orth_rev", "LSN", [2, 2], [3, 4, 3], 1, "lsn", dict(orthogonal=True), fpol="quad", psi_sign=-1.0))
_add(_c("lsn_nonorth", "LSN", [2, 2], [3, 4, 3], 1, "lsn", dict(orthogonal=False), fpol="quad"))
_add(_c("lsn_nonorth_rev", "LSN", [2, 2], [3, 4, 3], 1, "lsn", dict(orthogonal=False), fpol="negquad", psi_sign=-1.0))
# the optional cap of Bp at the y-faces next to the X-point (cap_Bp_ylow_xpoint; it acts for Bp > 0 only): C06 campaign only, since the
# cap deliberately makes Bpxy_ylow differ from sqrt(Br^2 + Bz^2) there (seed C06_cap_after_dphidy)
_add(_c("lsn_orth_rev_cap", "LSN", [2, 2], [3, 4, 3], 1, "lsn", dict(orthogonal=True, cap_Bp_ylow_xpoint=True), fpol="quad", psi_sign=-1.0))
_add(_c("cdn_orth", "CDN", [2, 2], [3, 3, 3, 3, 3, 3], 1, "cdn", dict(orthogonal=True, **DN), fpol="quad", pressure="quad"))
# gridded as a connected double null (nx_inter_sep = 0) although the X-points are slightly unbalanced (seed C01_leg_sep_contour_own_psi)
_add(_c("cdn_orth_unbal", "CDN", [2, 2], [3, 3, 3, 3, 3, 3], 1, "cdn_unbal", dict(orthogonal=True, **DN), fpol="quad", pressure="quad"))
_add(_c("ldn_orth", "LDN", [2, 1, 2], [3, 3, 3, 3, 3, 3], 1, "ldn", dict(orthogonal=True, **DN), fpol="quad", pressure="quad"))
_add(_c("udn_nonorth", "UDN", [2, 1, 2], [4, 4, 4, 4, 4, 4], 1, "udn", dict(orthogonal=False, **DN), fpol="quad", pressure="quad"))
_add(_c("core_orth", "CORE", [3], [8], 0, None, dict(orthogonal=True)))
_add(_c("lim_orth", "LIM", [3], [8], 0, None, dict(orthogonal=True)))
_add(_c("lsn_orth_x2", "LSN", [4, 4], [6, 8, 6], 1, "lsn", dict(orthogonal=True), fpol="quad", pressure="quad", wall="slanted"))
_add(_c("lsn_orth_g2", "LSN", [2, 2], [3, 4, 3], 2, "lsn", dict(orthogonal=True), fpol="quad"))

# profile given only inside the separatrix, SOL part extrapolated (extrapolate_profiles needs psi_sol and psi_sol_inner given explicitly)
_add(_c("lsn_orth_extrap", "LSN", [2, 2], [3, 4, 3], 1, "lsn", dict(orthogonal=True, extrapolate_profiles=True, psi_sol=0.7074, psi_sol_inner=0.7074),
        fpol="quad", pressure="quad", psi1d_rmax=1.67))

# ---- pairs for C16 (mirror images and field reversals) -----------------------------------
_add(_c("m_lsn", "LSN", [2, 3], [3, 4, 5], 1, "lsn", dict(orthogonal=True), fpol="quad", wall="slanted"))
_add(_c("m_usn", "USN", [2, 3], [5, 4, 3], 1, "lsn", dict(orthogonal=True), fpol="quad", wall="slanted", mirror=True))
# ... with a different target spacing per leg (lower/upper option names exchanged in the mirror image: seed C16_usn_uses_lower_target_options)
_add(_c("m_lsn_t", "LSN", [2, 3], [3, 4, 5], 1, "lsn", dict(orthogonal=True, target_inner_lower_poloidal_spacing_length=0.2, target_outer_lower_poloidal_spacing_length=0.45),
        fpol="quad", wall="slanted"))
_add(_c("m_usn_t", "USN", [2, 3], [5, 4, 3], 1, "lsn", dict(orthogonal=True, target_inner_upper_poloidal_spacing_length=0.2, target_outer_upper_poloidal_spacing_length=0.45),
        fpol="quad", wall="slanted", mirror=True))
_add(_c("m_ldn", "LDN", [2, 1, 2], [3, 3, 3, 3, 4, 3], 1, "ldn", dict(orthogonal=True, **DN), fpol="quad"))
_add(_c("m_udn", "UDN", [2, 1, 2], [3, 3, 3, 3, 4, 3], 1, "ldn", dict(orthogonal=True, **DN), fpol="quad", mirror=True))
_add(_c("r_base", "LSN", [2, 2], [3, 4, 3], 1, "lsn", dict(orthogonal=True), fpol="quad"))
_add(_c("r_negpsi", "LSN", [2, 2], [3, 4, 3], 1, "lsn", dict(orthogonal=True), fpol="quad", psi_sign=-1.0))
_add(_c("r_revcur", "LSN", [2, 2], [3, 4, 3], 1, "lsn", dict(orthogonal=True, reverse_current=True), fpol="quad", psi_sign=-1.0))
_add(_c("r_revbt", "LSN", [2, 2], [3, 4, 3], 1, "lsn", dict(orthogonal=True, reverse_Bt=True), fpol="quad"))
_add(_c("r_twopi", "LSN", [2, 2], [3, 4, 3], 1, "lsn", dict(orthogonal=True, psi_divide_twopi=True), fpol="quad", psi_scale=6.283185307179586))
_add(_c("rn_base", "LSN", [2, 2], [3, 4, 3], 1, "lsn", dict(orthogonal=False), fpol="quad"))
_add(_c("rn_negpsi", "LSN", [2, 2], [3, 4, 3], 1, "lsn", dict(orthogonal=False), fpol="quad", psi_sign=-1.0))
_add(_c("rn_revbt", "LSN", [2, 2], [3, 4, 3], 1, "lsn", dict(orthogonal=False, reverse_Bt=True), fpol="quad"))
# non-orthogonal mirror pair, and a disconnected double null whose two private-flux limits differ (exchanged in the mirror image)
_add(_c("mn_lsn", "LSN", [2, 2], [3, 4, 4], 1, "lsn", dict(orthogonal=False), fpol="quad", wall="slanted"))
_add(_c("mn_usn", "USN", [2, 2], [4, 4, 3], 1, "lsn", dict(orthogonal=False), fpol="quad", wall="slanted", mirror=True))
_add(_c("m_ldn_pf", "LDN", [2, 1, 2], [3, 3, 3, 3, 3, 3], 1, "ldn", dict(orthogonal=True, psinorm_pf_lower=0.93, psinorm_pf_upper=0.97, **DN), fpol="quad"))
_add(_c("m_udn_pf", "UDN", [2, 1, 2], [3, 3, 3, 3, 3, 3], 1, "ldn", dict(orthogonal=True, psinorm_pf_lower=0.97, psinorm_pf_upper=0.93, **DN), fpol="quad", mirror=True))
# the same equilibria through a geqdsk file (tokamak.read_geqdsk: profiles between axis and separatrix, simagx / sibdry carried by the file) - seed C03_btaxis_gfile_revcur
_add(_c("r_gf_base", "LSN", [2, 2], [3, 4, 3], 1, "lsn", dict(orthogonal=True), fpol="quad", pressure="quad", gfile=True))
_add(_c("r_gf_revcur", "LSN", [2, 2], [3, 4, 3], 1, "lsn", dict(orthogonal=True, reverse_current=True), fpol="quad", pressure="quad", psi_sign=-1.0, gfile=True))
_add(_c("r_gf_twopi", "LSN", [2, 2], [3, 4, 3], 1, "lsn", dict(orthogonal=True, psi_divide_twopi=True), fpol="quad", pressure="quad", psi_scale=6.283185307179586, gfile=True))
_add(_c("r_gf_revbt", "LSN", [2, 2], [3, 4, 3], 1, "lsn", dict(orthogonal=True, reverse_Bt=True, reverse_current=True), fpol="quad", pressure="quad", psi_sign=-1.0, gfile=True))
GFILE_GRIDS = ["r_gf_base", "r_gf_revcur", "r_gf_twopi", "r_gf_revbt"]
# (m_ldn ny is mirrored below: region i of the mirrored double null is the mirror of region 4-i / 10-i)
CONFIGS["m_udn"]["ny"] = [3, 3, 3, 3, 4, 3][2::-1] + [3, 3, 3, 3, 4, 3][:2:-1]
# in-out asymmetric flux function (the X-point lobe is displaced in R): the two legs are not images of one another, so anything carried from the
# tracing of one leg to the next (seed C16_leg_first_step_carried_over: the legs are traced inner-outer below, outer-inner above) shows
_add(_c("m_lsn_tilt", "LSN", [2, 3], [3, 4, 5], 1, "lsn_tilt", dict(orthogonal=True), fpol="quad", wall="slanted"))
_add(_c("m_usn_tilt", "USN", [2, 3], [5, 4, 3], 1, "lsn_tilt", dict(orthogonal=True), fpol="quad", wall="slanted", mirror=True))
_add(_c("mn_lsn_tilt", "LSN", [2, 2], [3, 4, 4], 1, "lsn_tilt", dict(orthogonal=False), fpol="quad", wall="slanted"))
_add(_c("mn_usn_tilt", "USN", [2, 2], [4, 4, 3], 1, "lsn_tilt", dict(orthogonal=False), fpol="quad", wall="slanted", mirror=True))
_add(_c("m_lsn_tilt_w", "LSN", [2, 2], [3, 4, 3], 1, "lsn_tilt", dict(orthogonal=True), fpol="quad"))
_add(_c("m_usn_tilt_w", "USN", [2, 2], [3, 4, 3], 1, "lsn_tilt", dict(orthogonal=True), fpol="quad", mirror=True))
C16_PAIRS = [("m_lsn_tilt", "m_usn_tilt", "mirror"), ("mn_lsn_tilt", "mn_usn_tilt", "mirror"), ("m_lsn_tilt_w", "m_usn_tilt_w", "mirror"), ("m_lsn", "m_usn", "mirror"), ("m_lsn_t", "m_usn_t", "mirror"), ("m_ldn", "m_udn", "mirror"), ("cdn_orth", "cdn_orth", "mirror"),
             ("r_base", "r_negpsi", "negpsi"), ("r_base", "r_revcur", "same"), ("r_base", "r_revbt", "revbt"), ("r_base", "r_twopi", "same"),
             ("rn_base", "rn_negpsi", "negpsi"),
             ("r_gf_base", "r_gf_revcur", "same"), ("r_gf_base", "r_gf_twopi", "same"), ("r_gf_base", "r_gf_revbt", "revbt"),
             ("ldn_orth_wide", "ldn_wide_revcur", "negpsi"),
             ("rn_base", "rn_revbt", "revbt"), ("mn_lsn", "mn_usn", "mirror"), ("m_ldn_pf", "m_udn_pf", "mirror")]

# ---- the same grids generated with worker processes (C13: identical, value for value, to the serial grid; seed C01_parallel_refine_result_dropped)
_add(_c("lsn_orth_np2", "LSN", [2, 2], [3, 4, 3], 1, "lsn", dict(orthogonal=True, number_of_processors=2), fpol="quad", pressure="quad", wall="slanted"))
_add(_c("cdn_orth_np3", "CDN", [2, 2], [3, 3, 3, 3, 3, 3], 1, "cdn", dict(orthogonal=True, number_of_processors=3, **DN), fpol="quad", pressure="quad"))
_add(_c("lsn_nonorth_np2", "LSN", [2, 2], [3, 4, 3], 1, "lsn", dict(orthogonal=False, number_of_processors=2), fpol="quad"))
C13_PAIRS = [("lsn_orth", "lsn_orth_np2"), ("cdn_orth", "cdn_orth_np3"), ("lsn_nonorth", "lsn_nonorth_np2")]

# ---- pairs for C10 (all ny doubled, nx unchanged: every face of the coarse grid must be a face of the fine grid)
_add(_c("lsn_orth_y2", "LSN", [2, 2], [6, 8, 6], 1, "lsn", dict(orthogonal=True), fpol="quad", pressure="quad", wall="slanted"))
_add(_c("cdn_orth_y2", "CDN", [2, 2], [6, 6, 6, 6, 6, 6], 1, "cdn", dict(orthogonal=True, **DN), fpol="quad"))
_add(_c("lsn_nonorth_y2", "LSN", [2, 2], [6, 8, 6], 1, "lsn", dict(orthogonal=False), fpol="quad"))
_add(_c("udn_orth_y2", "UDN", [2, 1, 2], [6, 6, 6, 6, 6, 6], 1, "udn", dict(orthogonal=True, **DN), fpol="quad"))
C10_PAIRS = [("lsn_orth", "lsn_orth_y2"), ("cdn_orth", "cdn_orth_y2"), ("lsn_nonorth", "lsn_nonorth_y2"), ("udn_orth", "udn_orth_y2")]

# ---- wall variants for C11: slanted targets, anticlockwise input (the default lists are clockwise), many vertices, guard counts 0..2
_add(_c("w_lsn_nonorth_sl", "LSN", [2, 2], [3, 4, 3], 1, "lsn", dict(orthogonal=False), fpol="quad", wall="slanted"))
_add(_c("w_lsn_nonorth_sl_acw_g2", "LSN", [2, 2], [3, 4, 3], 2, "lsn", dict(orthogonal=False), fpol="quad", wall="slanted", wall_clockwise=True))
_add(_c("w_lsn_nonorth_many_g0", "LSN", [2, 2], [3, 4, 3], 0, "lsn", dict(orthogonal=False), fpol="quad", wall="many"))
_add(_c("w_usn_nonorth_sl", "USN", [2, 2], [3, 4, 3], 1, "lsn", dict(orthogonal=False), fpol="quad", wall="slanted", mirror=True))
_add(_c("w_cdn_nonorth_sl", "CDN", [2, 2], [4, 4, 4, 4, 4, 4], 1, "cdn", dict(orthogonal=False, **DN), fpol="quad", wall="slanted"))
_add(_c("w_lsn_orth_many_acw", "LSN", [2, 2], [3, 4, 3], 1, "lsn", dict(orthogonal=True), fpol="quad", wall="many", wall_clockwise=True))
_add(_c("w_cdn_orth_sl_g2", "CDN", [2, 2], [3, 3, 3, 3, 3, 3], 2, "cdn", dict(orthogonal=True, **DN), fpol="quad", wall="slanted"))
# the rectangular wall started at its outboard corners (a long closing edge at large R), open and explicitly closed input
_add(_c("w_lsn_orth_cw_s3", "LSN", [2, 2], [3, 4, 3], 1, "lsn", dict(orthogonal=True), fpol="quad", wall_start=3))
_add(_c("w_lsn_orth_acw_s1", "LSN", [2, 2], [3, 4, 3], 1, "lsn", dict(orthogonal=True), fpol="quad", wall_clockwise=True, wall_start=1))
_add(_c("w_lsn_orth_sl_closed_s5", "LSN", [2, 2], [3, 4, 3], 1, "lsn", dict(orthogonal=True), fpol="quad", wall="slanted", wall_start=5, wall_closed=True))
# a limiter on the outboard midplane reaching into the main-chamber SOL: cells of the core region's SOL part are cut by the wall, penalty_mask
# must say so there too (seed C11_penalty_skip_inner_regions)
_add(_c("w_lsn_orth_limiter", "LSN", [2, 2], [3, 10, 3], 1, "lsn", dict(orthogonal=True), fpol="quad", wall="limiter"))
_add(_c("w_lsn_nonorth_limiter", "LSN", [2, 2], [3, 10, 3], 2, "lsn", dict(orthogonal=False), fpol="quad", wall="limiter", wall_clockwise=True))
# a wall that is not convex: an inboard baffle hides part of the inner leg from the centre of the domain (seed C11_penalty_any_crossing)
_add(_c("w_lsn_orth_baffle", "LSN", [2, 2], [4, 4, 3], 2, "lsn", dict(orthogonal=True), fpol="quad", wall="baffle"))
_add(_c("w_lsn_nonorth_baffle", "LSN", [2, 2], [4, 4, 3], 1, "lsn", dict(orthogonal=False), fpol="quad", wall="baffle", wall_clockwise=True))
C11_WALLS_QUICK = ["w_lsn_orth_baffle", "w_lsn_nonorth_baffle", "w_lsn_orth_limiter", "w_lsn_nonorth_limiter", "w_lsn_nonorth_sl", "w_lsn_nonorth_sl_acw_g2", "w_lsn_nonorth_many_g0", "w_usn_nonorth_sl", "w_lsn_orth_many_acw",
                   "w_lsn_orth_cw_s3", "w_lsn_orth_acw_s1", "w_lsn_orth_sl_closed_s5"]
C11_WALLS = C11_WALLS_QUICK + ["w_cdn_nonorth_sl", "w_cdn_orth_sl_g2"]

# ---- weak poloidal field (psi of order 1e-2 Wb: dR/dpsi large far from the X-point): C04, seeded change C04_clip_direction
_add(_c("lsn_orth_weak", "LSN", [2, 2], [3, 4, 3], 1, "lsn", dict(orthogonal=True, xpoint_refine_atol=1e-14), fpol="quad", psi_scale=0.01))
_add(_c("cdn_orth_weak", "CDN", [2, 2], [3, 3, 3, 3, 3, 3], 1, "cdn", dict(orthogonal=True, xpoint_refine_atol=1e-14, **DN), fpol="quad", psi_scale=0.01))
# a loosened point-refinement tolerance must not loosen the perpendicular following (seed C04_follow_atol_tied_to_refine); C04 campaign only,
# since the positions of this grid are on their surfaces to 1e-5 only
_add(_c("lsn_orth_loose_refine", "LSN", [2, 2], [3, 4, 3], 1, "lsn", dict(orthogonal=True, refine_atol=1.0e-5), fpol="quad"))
C04_EXTRA = ["lsn_orth_weak", "cdn_orth_weak", "lsn_orth_loose_refine"]

# ---- a disconnected double null with a wide inter-separatrix segment (three cells): its second private-flux segment is where psi0 sits at
# the far end of the radial list (seed C04_reverse_without_unreverse)
_add(_c("ldn_orth_wide", "LDN", [2, 3, 2], [3, 3, 3, 3, 3, 3], 1, "ldn", dict(orthogonal=True, **DN), fpol="quad"))
# ... and the same with the current reversed (psi decreasing outwards: the two-sided radial spacing between the separatrices must not depend on the
# sign of psi - seed C16_abs_lost_both_grads)
_add(_c("ldn_wide_revcur", "LDN", [2, 3, 2], [3, 3, 3, 3, 3, 3], 1, "ldn", dict(orthogonal=True, reverse_current=True, **DN), fpol="quad"))

# ---- tilted X-point: region joins oblique to the R / Z axes (seed C01_corner_row_mixed is second order on the symmetric families)
_add(_c("lsn_tilt_orth", "LSN", [2, 2], [3, 4, 3], 1, "lsn_tilt", dict(orthogonal=True), fpol="quad", pressure="quad"))
_add(_c("lsn_tilt_nonorth", "LSN", [2, 2], [3, 4, 3], 1, "lsn_tilt", dict(orthogonal=False), fpol="quad"))

# ---- the isolated X-point (TORPEX, shipped coil set) at a small size
_add(_c("xpt_orth", "XPT", [2, 2], [3, 3, 3, 3], 1, None, dict(orthogonal=True)))
_add(_c("xpt_nonorth", "XPT", [2, 2], [3, 3, 3, 3], 1, None, dict(orthogonal=False), yaml="torpex-coils-nonorth.yaml"))

# ---- C07: the x-y-derivative form of the curvature on orthogonal grids, at two resolutions
XY = {"curvature_type": "curl(b/B) with x-y derivatives"}
_add(_c("lsn_orth_xy", "LSN", [2, 2], [3, 4, 3], 1, "lsn", dict(orthogonal=True, **XY), fpol="quad", pressure="quad", wall="slanted"))
_add(_c("lsn_orth_x2_xy", "LSN", [4, 4], [6, 8, 6], 1, "lsn", dict(orthogonal=True, **XY), fpol="quad", pressure="quad", wall="slanted"))
_add(_c("lsn_orth_x4", "LSN", [8, 8], [12, 16, 12], 1, "lsn", dict(orthogonal=True), fpol="quad", pressure="quad", wall="slanted"))
_add(_c("lsn_orth_x4_xy", "LSN", [8, 8], [12, 16, 12], 1, "lsn", dict(orthogonal=True, **XY), fpol="quad", pressure="quad", wall="slanted"))
_add(_c("cdn_orth_xy", "CDN", [2, 2], [3, 3, 3, 3, 3, 3], 1, "cdn", dict(orthogonal=True, **DN, **XY), fpol="quad"))
C07_PAIRS = [("lsn_orth", "lsn_orth_xy"), ("lsn_orth_x2", "lsn_orth_x2_xy"), ("lsn_orth_x4", "lsn_orth_x4_xy"), ("cdn_orth", "cdn_orth_xy")]

# ---- envelope configurations (C12): in and around the supported envelope; refusal is an accepted outcome, a hang or a bad file is not
_add(_c("env_ny1", "LSN", [2, 2], [1, 2, 1], 1, "lsn", dict(orthogonal=True), fpol="quad"))
_add(_c("env_g4", "LSN", [2, 2], [3, 4, 3], 4, "lsn", dict(orthogonal=True), fpol="quad"))
_add(_c("env_nfine5", "LSN", [2, 2], [3, 4, 3], 1, "lsn", dict(orthogonal=True, finecontour_Nfine=5), fpol="quad"))
_add(_c("env_sol_wide", "LSN", [2, 2], [3, 4, 3], 1, "lsn", dict(orthogonal=True, psinorm_sol=1.6), fpol="quad"))
_add(_c("env_len_small", "LSN", [2, 2], [3, 4, 3], 1, "lsn", dict(orthogonal=True, target_all_poloidal_spacing_length=1e-3, xpoint_poloidal_spacing_length=1e-3), fpol="quad"))
_add(_c("env_len_big", "LSN", [2, 2], [3, 4, 3], 1, "lsn", dict(orthogonal=True, target_all_poloidal_spacing_length=10.0, xpoint_poloidal_spacing_length=10.0), fpol="quad"))
_add(_c("env_core_deep", "LSN", [2, 2], [3, 4, 3], 1, "lsn", dict(orthogonal=True, psinorm_core=0.2), fpol="quad"))
_add(_c("env_cdn_second_inside", "CDN", [2, 2], [3, 3, 3, 3, 3, 3], 1, "udn2", dict(orthogonal=True, psinorm_sol=1.02, psinorm_sol_inner=1.02), fpol="quad"))
_add(_c("env_nonorth_n50", "LSN", [2, 2], [3, 4, 3], 1, "lsn", dict(orthogonal=False, finecontour_Nfine=50), fpol="quad"))
_add(_c("env_nx1", "LSN", [1, 1], [3, 4, 3], 1, "lsn", dict(orthogonal=True), fpol="quad"))
_add(_c("env_sepmult", "LSN", [3, 3], [3, 4, 3], 1, "lsn", dict(orthogonal=True, psi_spacing_separatrix_multiplier=3.0), fpol="quad"))
_add(_c("env_lim", "LIM", [3], [8], 1, None, dict(orthogonal=True)))
# separatrix closed inside the wall: before the fix 07c1bc8 findLegs looped forever (a hang); must end in an explicit error
_add(_c("env_closed_sep", "LSN", [2, 2], [3, 4, 3], 1, "closed", dict(orthogonal=True), fpol="quad"))
# no toroidal field given (fpol1D = [], as the shipped tokamak_example.py does): Bt_axis is exactly zero and must still be in the file
_add(_c("env_nofpol", "LSN", [2, 2], [3, 4, 3], 1, "lsn", dict(orthogonal=True)))
# a non-finite entry in a profile array given through the API: refused, or a file without undocumented NaNs (seed C12_jacobian_check_nan_blind)
_add(_c("env_fpol_nan", "LSN", [2, 2], [3, 4, 3], 1, "lsn", dict(orthogonal=True), fpol="nan"))
_add(_c("env_fpol_inf", "LSN", [2, 2], [3, 4, 3], 1, "lsn", dict(orthogonal=True), fpol="inf"))
_add(_c("env_fpol_huge", "LSN", [2, 2], [3, 4, 3], 1, "lsn", dict(orthogonal=True), fpol="huge"))      # finite input, the metric overflows
_add(_c("env_pressure_nan", "LSN", [2, 2], [3, 4, 3], 1, "lsn", dict(orthogonal=True), fpol="quad", pressure="nan"))
ENVELOPE_QUICK = ["env_ny1", "env_g4", "env_nfine5", "env_len_small", "env_nx1", "env_closed_sep", "env_nofpol", "env_fpol_nan", "env_fpol_inf", "env_pressure_nan", "env_fpol_huge"]
ENVELOPE = ENVELOPE_QUICK + ["env_sol_wide", "env_len_big", "env_core_deep", "env_cdn_second_inside", "env_nonorth_n50", "env_sepmult", "env_lim"]

CORE_CAMPAIGN = ["lsn_orth", "usn_orth", "lsn_orth_rev", "lsn_nonorth", "lsn_nonorth_rev", "cdn_orth", "ldn_orth",
                 "udn_nonorth", "core_orth", "lim_orth", "lsn_orth_x2", "lsn_orth_g2", "lsn_orth_extrap", "udn_orth", "xpt_orth", "lsn_tilt_orth", "lsn_orth_dct", "cdn_orth_unbal"]

# ---- extended campaign (thorough tier) ------------------------------------------------
_add(_c("usn_nonorth", "USN", [2, 2], [3, 4, 3], 1, "usn", dict(orthogonal=False), fpol="quad"))
_add(_c("cdn_nonorth", "CDN", [2, 2], [4, 4, 4, 4, 4, 4], 1, "cdn", dict(orthogonal=False, **DN), fpol="quad"))
_add(_c("udn_orth", "UDN", [2, 1, 2], [3, 3, 3, 3, 3, 3], 1, "udn", dict(orthogonal=True, **DN), fpol="quad", pressure="quad"))
_add(_c("ldn_nonorth", "LDN", [2, 1, 2], [4, 4, 4, 4, 4, 4], 1, "ldn", dict(orthogonal=False, **DN), fpol="quad"))
_add(_c("lsn_orth_dct", "LSN", [2, 2], [3, 4, 3], 1, "lsn", dict(orthogonal=True, psi_interpolation_method="dct"), fpol="quad"))
_add(_c("lsn_orth_g0", "LSN", [2, 2], [3, 4, 3], 0, "lsn", dict(orthogonal=True), fpol="quad"))
_add(_c("lsn_orth_lop", "LSN", [2, 3], [3, 4, 9], 2, "lsn", dict(orthogonal=True), fpol="quad"))
_add(_c("cdn_orth_uo", "CDN_UO", [2, 2], [3, 3, 3, 3, 3, 3], 1, "cdn", dict(orthogonal=True, **DN), fpol="quad"))
_add(_c("ldn_orth_uo", "LDN_UO", [2, 1, 2], [3, 3, 3, 3, 3, 3], 1, "ldn", dict(orthogonal=True, **DN), fpol="quad"))
_add(_c("core_nonorth", "CORE", [3], [8], 0, None, dict(orthogonal=False)))
_add(_c("lim_orth_g2", "LIM", [3], [8], 2, None, dict(orthogonal=True)))
_add(_c("lsn_orth_wide", "LSN", [3, 3], [4, 6, 4], 1, "lsn", dict(orthogonal=True, psinorm_core=0.8, psinorm_sol=1.2, psinorm_pf=0.9), fpol="quad"))
_add(_c("lsn_orth_n50", "LSN", [2, 2], [3, 4, 3], 1, "lsn", dict(orthogonal=True, finecontour_Nfine=50), fpol="quad", pressure="quad", wall="slanted"))
_add(_c("lsn_orth_n200", "LSN", [2, 2], [3, 4, 3], 1, "lsn", dict(orthogonal=True, finecontour_Nfine=200), fpol="quad", pressure="quad", wall="slanted"))

# the second method of the default refinement chain on its own ('line' and 'newton' alone are refused on these equilibria: SolutionError)
_add(_c("lsn_orth_integrate", "LSN", [2, 2], [3, 4, 3], 1, "lsn", dict(orthogonal=True, refine_methods="integrate"), fpol="quad"))
_add(_c("lsn_nonorth_integrate", "LSN", [2, 2], [3, 4, 3], 1, "lsn", dict(orthogonal=False, refine_methods="integrate"), fpol="quad"))
REFINE_GRIDS = ["lsn_orth_integrate", "lsn_nonorth_integrate"]
EXTENDED_CAMPAIGN = CORE_CAMPAIGN + REFINE_GRIDS + ["usn_nonorth", "cdn_nonorth", "ldn_nonorth", "lsn_orth_g0", "lsn_orth_lop",
                                     "cdn_orth_uo", "ldn_orth_uo", "core_nonorth", "lim_orth_g2", "lsn_orth_wide", "lsn_orth_n50", "lsn_orth_n200", "lsn_orth_weak", "xpt_nonorth", "lsn_tilt_nonorth", "ldn_orth_wide"]


def campaign(tier):
    return CORE_CAMPAIGN if tier == "quick" else EXTENDED_CAMPAIGN


_gridkey = None


def gridkey():
    """hash of /repo's sources and the generating drivers"""
    global _gridkey
    if _gridkey is not None:
        return _gridkey
    h = hashlib.sha256()
    files = []
    for root, dirs, fs in os.walk(REPO):
        dirs[:] = sorted(d for d in dirs if d not in (".git", "__pycache__", "doc", "integrated_tests") and not d.endswith(".egg-info"))
        for f in sorted(fs):
            if f.endswith((".py", ".yaml", ".yml")):
                files.append(os.path.join(root, f))
    files += [os.path.join(VERIF, f) for f in GEN_FILES]
    for p in files:
        h.update(p.encode())
        with open(p, "rb") as fh:
            h.update(hashlib.sha256(fh.read()).digest())
    _gridkey = h.hexdigest()[:20]
    return _gridkey


def griddir(name, cfg=None):
    cfg = cfg or CONFIGS[name]
    ch = hashlib.sha256(json.dumps(cfg, sort_keys=True).encode()).hexdigest()[:10]
    return os.path.join(CACHE, "grids-" + gridkey(), "%s-%s" % (name, ch))


def prune_grids(keep=2):
    if not os.path.isdir(CACHE):
        return
    cur = "grids-" + gridkey()
    ents = sorted(((os.path.getmtime(os.path.join(CACHE, e)), e) for e in os.listdir(CACHE) if e.startswith("grids-") and e != cur), reverse=True)
    for _, e in ents[keep - 1:]:
        shutil.rmtree(os.path.join(CACHE, e), ignore_errors=True)


def generate(cfg, d, timeout=900):
    os.makedirs(d, exist_ok=True)
    with FileLock(d + ".lock"):
        st = os.path.join(d, "status.json")
        if os.path.exists(st):
            with open(st) as fh:
                return json.load(fh)
        cf = os.path.join(d, "config.json")
        with open(cf, "w") as fh:
            json.dump(cfg, fh)
        t0 = time.time()
        rc, out, err = run_group([PY, "-B", os.path.join(VERIF, "harness/drivers/gridrun.py"), cf, d], timeout=timeout,
                                 env=repo_env(), stdout_path=os.path.join(d, "log.txt"))
        if not os.path.exists(st):
            status = {"name": cfg.get("name"), "outcome": "hang" if rc is None else "crash", "rc": rc, "wall_s": round(time.time() - t0, 1),
                      "log_tail": out[-1500:]}
            with open(st, "w") as fh:
                json.dump(status, fh)
        with open(st) as fh:
            return json.load(fh)


def ensure(names, extra_cfgs=None, timeout=900):
    """Generate (or fetch from the cache) the named grids; returns {name: (dir, status)}"""
    prune_grids()
    cfgs = dict((n, CONFIGS[n]) for n in names if n in CONFIGS)
    for c in (extra_cfgs or []):
        cfgs[c["name"]] = c
    jobs = []
    order = list(cfgs)
    for n in order:
        jobs.append(lambda n=n: (n, griddir(n, cfgs[n]), generate(cfgs[n], griddir(n, cfgs[n]), timeout)))
    res = {}
    for n, d, st in parallel_jobs(jobs, nproc=max(2, NCPU - 2)):
        res[n] = (d, st)
    return res
