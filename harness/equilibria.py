"""Equilibria used by the drivers: the analytic Gaussian families of
examples/tokamak/tokamak_example.py and test_tokamak.py, their mirror images,
circular and TORPEX X-point cases.  Imported inside driver subprocesses (needs
hypnotoad on sys.path)."""
import io
import contextlib

import numpy as np

R0 = 1.5
Z0 = 0.3


def psi_function(geometry):
    r0, z0 = R0, Z0

    def g(R, Z, zc):
        return np.exp(-((R - r0) ** 2 + (Z - zc) ** 2) / 0.3**2)

    fs = {
        "lsn": lambda R, Z: g(R, Z, 0.3 - z0) + g(R, Z, -0.3 - z0),
        "usn": lambda R, Z: g(R, Z, z0 + 0.3) + g(R, Z, z0 - 0.3),
        "cdn": lambda R, Z: g(R, Z, 0.0) + g(R, Z, -2 * z0) + g(R, Z, 2 * z0),
        "udn": lambda R, Z: g(R, Z, 0.0) + g(R, Z, -2 * z0 - 0.002) + g(R, Z, 2 * z0),
        "ldn": lambda R, Z: -g(R, Z, 0.0) - g(R, Z, -2 * z0) - g(R, Z, 2 * z0 + 0.003),
        # mirror images of udn / ldn (same sign conventions)
        "ldn_m": lambda R, Z: g(R, Z, 0.0) + g(R, Z, 2 * z0 + 0.002) + g(R, Z, -2 * z0),
        "udn_m": lambda R, Z: -g(R, Z, 0.0) - g(R, Z, 2 * z0) - g(R, Z, -2 * z0 - 0.003),
        # a connected double null as met in practice: the two X-points are not exactly balanced (psi differs by 2.5e-4 of the range)
        "cdn_unbal": lambda R, Z: g(R, Z, 0.0) + g(R, Z, -2 * z0 - 0.0001) + g(R, Z, 2 * z0),
        "udn2": lambda R, Z: g(R, Z, 0.0) + g(R, Z, -2 * z0 - 0.02) + g(R, Z, 2 * z0),
        # a lower single null whose X-point is tilted (lower lobe shifted in R): region joins oblique to the R and Z axes
        "lsn_tilt": lambda R, Z: g(R, Z, 0.3 - z0) + np.exp(-((R - (r0 + 0.08)) ** 2 + (Z - (-0.3 - z0)) ** 2) / 0.3**2),
        # a second lobe wholly inside the wall: the separatrix closes round it and the divertor legs never reach the wall
        "closed": lambda R, Z: (np.exp(-((R - 1.5) ** 2 + (Z - 0.1) ** 2) / 0.2**2) + np.exp(-((R - 1.5) ** 2 + (Z + 0.3) ** 2) / 0.2**2)
                               + 0.8 * np.exp(-((R - 1.82) ** 2 + (Z + 0.32) ** 2) / 0.13**2)),
    }
    return fs[geometry]


TOPO_GEOM = {"LSN": "lsn", "USN": "usn", "CDN": "cdn", "LDN": "ldn", "UDN": "udn",
             "CDN_UO": "cdn", "LDN_UO": "ldn", "UDN_UO": "udn"}

ORDER = {
    "LSN": ["inner_lower_divertor", "core", "outer_lower_divertor"],
    "USN": ["outer_upper_divertor", "core", "inner_upper_divertor"],
    "DN": ["inner_lower_divertor", "inner_core", "inner_upper_divertor", "outer_upper_divertor", "outer_core", "outer_lower_divertor"],
    "DN_UO": ["outer_upper_divertor", "outer_core", "outer_lower_divertor", "inner_lower_divertor", "inner_core", "inner_upper_divertor"],
    "XPT": ["inner_lower_divertor", "inner_upper_divertor", "outer_upper_divertor", "outer_lower_divertor"],
    "CORE": ["circular"], "LIM": ["circular"],
}


def order_of(topo):
    if topo in ("LSN", "USN", "XPT", "CORE", "LIM"):
        return ORDER[topo]
    return ORDER["DN_UO"] if topo.endswith("_UO") else ORDER["DN"]


def size_options(topo, nx, ny, G):
    """hypnotoad options realising the (nx per segment, ny per region in order, guards) of a Topology.tla configuration"""
    o = {"y_boundary_guards": G}
    names = order_of(topo)
    if topo in ("LSN", "USN"):
        o.update(nx_core=nx[0], nx_pf=nx[0], nx_sol=nx[1])
        for n, v in zip(names, ny):
            if n == "core":
                o["ny_sol"] = v
            else:
                o["ny_" + n] = v
    elif topo in ("CORE", "LIM"):
        o.update(nx=nx[0], ny=ny[0], limiter=(topo == "LIM"))
    elif topo == "XPT":
        o.update(nx_core=nx[0], nx_sol=nx[1])
        for n, v in zip(names, ny):
            o["ny_" + n] = v
    else:
        o.update(nx_core=nx[0], nx_pf=nx[0], nx_sol=nx[-1], nx_sol_inner=nx[-1], nx_sol_outer=nx[-1])
        o["nx_inter_sep"] = nx[1] if len(nx) == 3 else 0
        for n, v in zip(names, ny):
            key = {"inner_core": "ny_inner_sol", "outer_core": "ny_outer_sol"}.get(n, "ny_" + n)
            o[key] = v
        if topo.endswith("_UO"):
            o["start_at_upper_outer"] = True
    return o


def tokamak_arrays(geometry, nR=65, nZ=65, mirror=False, psi_sign=1.0, psi_offset=0.0, psi1d_rmax=None, psi_scale=1.0):
    r1d = np.linspace(1.0, 2.0, nR)
    z1d = np.linspace(-0.7, 0.7, nZ)
    r2d, z2d = np.meshgrid(r1d, z1d, indexing="ij")
    f = psi_function(geometry)
    if mirror:
        psi2d = f(r2d, -z2d)
    else:
        psi2d = f(r2d, z2d)
    psi1d = f(np.linspace(R0, 1.2 * R0 if psi1d_rmax is None else psi1d_rmax, nR), 0.0)
    return r1d, z1d, psi_scale * psi_sign * psi2d + psi_offset, psi_scale * psi_sign * psi1d + psi_offset


def default_wall(inset=0.2, slanted=False, mirror=False, clockwise=False):
    rmin, rmax, zmin, zmax = 1.0 + inset, 2.0 - inset, -0.7 + inset, 0.7 - inset
    if slanted:
        # slanted lower targets, extra vertices
        w = [(rmin, zmin + 0.10), (rmin, 0.0), (rmin, zmax), (1.5, zmax + 0.04), (rmax, zmax), (rmax, 0.1), (rmax, zmin + 0.06), (1.5, zmin + 0.03)]
    else:
        w = [(rmin, zmin), (rmin, zmax), (rmax, zmax), (rmax, zmin)]
    if slanted == "many":
        # the slanted wall with every edge cut into five collinear pieces (many vertices)
        w2 = []
        for k in range(len(w)):
            a, b = w[k], w[(k + 1) % len(w)]
            for j in range(5):
                w2.append((a[0] + (b[0] - a[0]) * j / 5.0, a[1] + (b[1] - a[1]) * j / 5.0))
        w = w2
    if mirror:
        w = [(r, -z) for r, z in w][::-1]
    if clockwise != False:  # noqa: E712  (the list above is clockwise: up the inboard side first)
        pass
    return w


def limiter_wall(face=1.664):
    """the rectangular wall with a limiter on the outboard midplane whose face lies inside the main-chamber scrape-off layer of the
    lsn family (the outermost cell-centre surface of the campaign grids reaches R = 1.672 there): flux surfaces beyond the face are cut between the X-point ends of
    the core region, far from the targets"""
    rmin, rmax, zmin, zmax = 1.2, 1.8, -0.5, 0.5
    return [(rmin, zmin), (rmin, zmax), (rmax, zmax), (rmax, 0.30), (face, 0.25), (face, -0.22), (rmax, -0.27), (rmax, zmin)]


def baffle_wall(nose=1.43):
    """the rectangular wall with an inboard baffle whose nose points at the lower X-point of the lsn family (1.5, -0.3): not convex, and the
    lower part of the inner leg is hidden from the centre of the domain behind it (a line of sight from there crosses the wall twice)"""
    rmin, rmax, zmin, zmax = 1.2, 1.8, -0.5, 0.5
    return [(rmin, zmin), (rmin, -0.36), (nose, -0.30), (rmin, -0.24), (rmin, zmax), (rmax, zmax), (rmax, zmin)]


def quiet():
    return contextlib.redirect_stdout(io.StringIO())


def gfile_psi_range(geometry, nR=65, nZ=65, mirror=False, psi_sign=1.0, psi_scale=1.0):
    """(psi on the axis, psi on the separatrix) of the sampled arrays, in the units of the arrays: what an EFIT file would carry as simagx / sibdry"""
    from hypnotoad.utils import critical

    r1d, z1d, psi2d, _ = tokamak_arrays(geometry, nR, nZ, mirror=mirror, psi_sign=psi_sign, psi_scale=psi_scale)
    R2, Z2 = np.meshgrid(r1d, z1d, indexing="ij")
    with quiet():
        op, xp = critical.find_critical(R2, Z2, psi2d, 1e-6, 1000)
    return float(op[0][2]), float(xp[0][2]), (float(op[0][0]), float(op[0][1]))


def make_tokamak_gfile(geometry, options, *, fpol=None, pressure=None, wall=None, nR=65, nZ=65, mirror=False, psi_sign=1.0, psi_scale=1.0, nonorth=None):
    """the same equilibrium through the route a user with an EFIT file takes: the arrays are written as geqdsk text (profiles on the uniform psi grid
    between axis and separatrix, as the format prescribes) and read back with tokamak.read_geqdsk"""
    from hypnotoad.cases import tokamak
    from hypnotoad.geqdsk import _geqdsk

    r1d, z1d, psi2d, _ = tokamak_arrays(geometry, nR, nZ, mirror=mirror, psi_sign=psi_sign, psi_scale=psi_scale)
    simagx, sibdry, (rm, zm) = gfile_psi_range(geometry, nR, nZ, mirror, psi_sign, psi_scale)
    psi1d = np.linspace(simagx, sibdry, nR)
    if wall is None:
        wall = default_wall(mirror=mirror)
    data = {"nx": nR, "ny": nZ, "rdim": float(r1d[-1] - r1d[0]), "zdim": float(z1d[-1] - z1d[0]), "rcentr": 1.5, "bcentr": 1.0, "rleft": float(r1d[0]),
            "zmid": float(0.5 * (z1d[0] + z1d[-1])), "rmagx": rm, "zmagx": zm, "simagx": simagx, "sibdry": sibdry, "cpasma": 1e6,
            "fpol": np.zeros(nR) if fpol is None else fpol(psi1d / psi_scale), "pres": np.zeros(nR) if pressure is None else pressure(psi1d / psi_scale),
            "qpsi": np.zeros(nR), "psi": psi2d, "rlim": [p[0] for p in wall], "zlim": [p[1] for p in wall]}
    buf = io.StringIO()
    _geqdsk.write(data, buf)
    buf.seek(0)
    with quiet():
        eq = tokamak.read_geqdsk(buf, settings=dict(options), nonorthogonal_settings=dict(options if nonorth is None else nonorth))
    if isinstance(eq, tuple):       # read_geqdsk returns (partial object, exception) when the constructor raised
        raise eq[1]
    return eq, {"r1d": r1d, "z1d": z1d, "psi2d": psi2d, "psi1d": psi1d, "fpol1d": data["fpol"], "gfile": buf.getvalue()}


def make_tokamak(geometry, options, *, fpol=None, pressure=None, wall=None, nR=65, nZ=65, mirror=False,
                 psi_sign=1.0, make_regions=True, nonorth=None, psi1d_rmax=None, psi_scale=1.0):
    from hypnotoad.cases import tokamak

    r1d, z1d, psi2d, psi1d = tokamak_arrays(geometry, nR, nZ, mirror=mirror, psi_sign=psi_sign, psi1d_rmax=psi1d_rmax, psi_scale=psi_scale)
    psi1d_unscaled = psi1d / (psi_scale * psi_sign)
    if wall is None:
        wall = default_wall(mirror=mirror)
    kw = {}
    if fpol is None:
        fpol1d = []
    else:
        fpol1d = fpol(psi1d_unscaled * psi_sign)
    if pressure is not None:
        kw["pressure"] = pressure(psi1d_unscaled * psi_sign)
    arrays = {"r1d": r1d, "z1d": z1d, "psi2d": psi2d, "psi1d": psi1d, "fpol1d": fpol1d}
    with quiet():
        eq = tokamak.TokamakEquilibrium(r1d, z1d, psi2d, psi1d, fpol1d, wall=wall, settings=dict(options),
                                        nonorthogonal_settings=dict(options if nonorth is None else nonorth),
                                        make_regions=make_regions, **kw)
    return eq, arrays


def make_circular(options):
    from hypnotoad.cases.circular import CircularEquilibrium

    base = {"R0": 2.3, "B0": 3.2, "poloidal_spacing_method": "linear", "q_coefficients": [4.1], "r_inner": 0.1,
            "r_outer": 1.4, "refine_methods": "line", "refine_width": 1.0e-3}
    base.update(options)
    with quiet():
        eq = CircularEquilibrium(base, base)
    return eq, base
