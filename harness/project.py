"""Projection of a generated grid (file + recorded tables) to quantised integer
observations for TLC.  Runs in a driver subprocess (needs hypnotoad): the
equilibrium object is rebuilt from the same configuration to evaluate psi and the
field functions at the file's positions (these ARE the property's definitions);
everything else is read from the file.

usage: project.py <griddir> <prop> [<prop> ...]   -> writes <griddir>/gt_<prop>.json
"""
import json
import os
import sys
import warnings

import numpy as np

NANV = 2000000000
CLIP = 1000000000


def Q(a, quantum):
    a = np.asarray(a, dtype=float)
    with np.errstate(invalid="ignore", over="ignore"):
        q = np.rint(a / quantum)
    q = np.clip(q, -CLIP, CLIP)
    out = np.where(np.isnan(a), NANV, q)
    return out.astype(np.int64).tolist()


def Qs(v, quantum):
    if v is None or (isinstance(v, float) and np.isnan(v)):
        return NANV
    return int(np.clip(np.rint(v / quantum), -CLIP, CLIP))


class Grid:
    def __init__(self, d):
        self.d = d
        with open(os.path.join(d, "config.json")) as fh:
            self.cfg = json.load(fh)
        with open(os.path.join(d, "extra.json")) as fh:
            self.extra = json.load(fh)
        self.reg = np.load(os.path.join(d, "regions.npz"))
        from netCDF4 import Dataset

        self.ds = Dataset(os.path.join(d, "grid.nc"))
        self.v = {}
        self.missing = set()      # variables asked for that the file does not have
        self._eq = None

    def var(self, name):
        if name not in self.v:
            if name not in self.ds.variables:
                self.missing.add(name)
                return None
            self.v[name] = np.array(self.ds.variables[name][...], dtype=float) if getattr(self.ds.variables[name].dtype, "kind", "S") in "fiu" else self.ds.variables[name][...]
        return self.v[name]

    def loc(self, name, loc):
        return self.var(name if loc == "centre" else name + "_" + loc)

    @property
    def eq(self):
        if self._eq is None:
            from harness.drivers.gridrun import build_equilibrium

            warnings.simplefilter("ignore")
            self._eq = build_equilibrium(self.cfg)[0]
        return self._eq

    def header(self):
        t = dict(self.extra["tables"])
        ints = {}
        for k in ("nx", "ny", "ixseps1", "ixseps2", "jyseps1_1", "jyseps2_1", "ny_inner", "jyseps1_2", "jyseps2_2", "y_boundary_guards"):
            ints[k] = int(self.var(k))
        t["ints"] = ints
        th, yc, thl = self.var("theta"), self.var("y-coord"), self.var("theta_ylow")
        dy = float(self.var("dy")[0, 0])
        t["fileshape"] = list(th.shape)
        t["theta2"] = [int(round(v)) for v in 2 * th[0, :] / dy]
        t["ycoord2"] = [int(round(v)) for v in 2 * yc[0, :] / dy]
        t["thetalow2"] = [int(round(v)) for v in 2 * thl[0, :] / dy]
        dev = max(np.max(np.abs(2 * th / dy - np.round(2 * th / dy))), np.max(np.abs(th - th[0:1, :])) / dy,
                  np.max(np.abs(2 * yc / dy - np.round(2 * yc / dy))))
        t["thetadev"] = int(min(dev * 1e6, 10**9))
        t["dy_core"] = int(round(2 * np.pi / dy))
        topo, nx, ny = self.realised()
        t.update({"name": self.cfg["name"], "topo": topo, "nx": nx, "ny": ny, "G": self.extra["G"],
                  "orth": 1 if self.extra["orthogonal"] else 0, "NX": int(th.shape[0]), "NY": int(th.shape[1])})
        # per mesh region quantised psi values (index k <-> psi_vals[k])
        return t

    def realised(self):
        """(topology, nx per segment, ny per region) of the mesh that was actually built: it differs from the configuration when the
        code decides for another topology (a double-null input whose second X-point lies beyond psinorm_sol is gridded as a single null)"""
        topo, nx, ny = self.cfg["topo"], self.cfg["nx"], self.cfg["ny"]
        regs = sorted(self.extra.get("regions", []), key=lambda r: r["id"])
        names = []
        for r in regs:
            if r["eqname"] not in names:
                names.append(r["eqname"])
        sn = {("inner_lower_divertor", "core", "outer_lower_divertor"): "LSN", ("outer_upper_divertor", "core", "inner_upper_divertor"): "USN"}
        if tuple(names) in sn and topo not in ("LSN", "USN"):
            topo = sn[tuple(names)]
            first = [r for r in regs if r["eqname"] == names[0]]
            nx = [r["nx"] for r in sorted(first, key=lambda r: r["radialIndex"])]
            ny = [[r for r in regs if r["eqname"] == n][0]["ny_noguards"] for n in names]
        return topo, nx, ny

    def psi_scale(self):
        pv = [v for r in self.extra["regions"] for v in r["psi_vals"]]
        return max(1.0, abs(max(pv) - min(pv)))

    def xpoint_corner_positions(self):
        return self.extra["x_points"]


LOCS = ("centre", "xlow", "ylow", "corners")


def fileloc(g, name, loc):
    """file array at a location; corners = lower-left corners"""
    if loc == "corners":
        return g.var(name + "_corners")
    return g.loc(name, loc)


# ----------------------------------------------------------------------------
def obs_C01(g, out):
    """psi of the interpolated equilibrium at every file position; psixy; radial psi grid"""
    q = 1e-8 * g.psi_scale()
    out["quantum_psi"] = q
    out["psivals"] = [Q(r["psi_vals"], q) for r in sorted(g.extra["regions"], key=lambda r: r["id"])]
    psi_at = {}
    for loc in LOCS + ("lower_right_corners", "upper_right_corners", "upper_left_corners"):
        R = fileloc(g, "Rxy", loc) if loc in LOCS else g.var("Rxy_" + loc)
        Z = fileloc(g, "Zxy", loc) if loc in LOCS else g.var("Zxy_" + loc)
        psi_at[loc] = Q(g.eq.psi(R, Z), q)
    out["psi_at"] = psi_at
    out["psixy"] = {loc: Q(g.loc("psixy", loc), q) for loc in ("centre", "xlow", "ylow")}
    # positions of corners relative to the X-points (quantum 1e-8 m): distance to nearest X-point
    xp = np.array(g.extra["x_points"]) if g.extra["x_points"] else np.zeros((0, 2))
    dist = {}
    for loc in ("corners", "lower_right_corners", "upper_right_corners", "upper_left_corners"):
        R, Z = g.var("Rxy_" + loc), g.var("Zxy_" + loc)
        if len(xp):
            dd = np.min(np.stack([np.hypot(R - x[0], Z - x[1]) for x in xp]), axis=0)
        else:
            dd = np.full(R.shape, 1.0)
        dist[loc] = Q(dd, 1e-8)
    out["xpt_dist"] = dist


def obs_C12(g, out):
    """names, shapes, NaN masks of every numeric variable; positivity; cell orientation"""
    names = sorted(g.ds.variables.keys())
    out["vars"] = names
    shapes = {}
    nan2d, nan1d, nan0d = {}, {}, {}
    for n in names:
        v = g.ds.variables[n]
        if getattr(v.dtype, "kind", "S") in "fiu":
            a = np.array(v[...], dtype=float)
            shapes[n] = list(a.shape)
            if a.ndim == 2:
                nan2d[n] = (~np.isfinite(a)).astype(int).tolist()
            elif a.ndim == 1:
                nan1d[n] = (~np.isfinite(a)).astype(int).tolist()
            else:
                nan0d[n] = 0 if np.isfinite(a) else 1
        else:
            shapes[n] = [-1]
    out["shapes"] = shapes
    out["names2d"] = sorted(nan2d)
    out["nan2d"] = nan2d
    out["names1d"] = sorted(nan1d)
    out["nan1d"] = nan1d
    out["names0d"] = sorted(nan0d)
    out["nan0d"] = nan0d
    out["nwall"] = int(len(g.var("closed_wall_R"))) if g.var("closed_wall_R") is not None else -1
    out["has_pressure"] = 1 if g.cfg.get("pressure") else 0
    pos = {}
    for n in ("hy", "hy_xlow", "hy_ylow", "dy", "dy_xlow", "dy_ylow"):
        pos[n] = (np.array(g.var(n)) > 0).astype(int).tolist()
    out["positive"] = pos
    # orientation of every cell from its four corners (sign of the cross product of its two edges at the lower-left corner
    # and at the upper-right corner): a folded cell has different signs
    R = {k: g.var("Rxy_" + k) for k in ("corners", "lower_right_corners", "upper_right_corners", "upper_left_corners")}
    Z = {k: g.var("Zxy_" + k) for k in ("corners", "lower_right_corners", "upper_right_corners", "upper_left_corners")}
    c1 = (R["lower_right_corners"] - R["corners"]) * (Z["upper_left_corners"] - Z["corners"]) - (Z["lower_right_corners"] - Z["corners"]) * (R["upper_left_corners"] - R["corners"])
    c2 = (R["upper_left_corners"] - R["upper_right_corners"]) * (Z["lower_right_corners"] - Z["upper_right_corners"]) - (Z["upper_left_corners"] - Z["upper_right_corners"]) * (R["lower_right_corners"] - R["upper_right_corners"])
    out["orient"] = {"ll": np.sign(c1).astype(int).tolist(), "ur": np.sign(c2).astype(int).tolist()}
    out["text_ok"] = {}
    import yaml
    try:
        y = yaml.safe_load(str(g.ds.variables["hypnotoad_inputs_yaml"][...]))
        out["text_ok"]["yaml"] = 1 if isinstance(y, dict) and len(y) > 10 else 0
    except Exception:
        out["text_ok"]["yaml"] = 0


OBS = {"C01": obs_C01, "C12": obs_C12}
OBS_PAIR = {}


# variables whose absence the observation functions handle themselves
OPTIONAL_VARS = {"closed_wall_R", "closed_wall_Z", "pressure", "psi_axis", "psi_bdry"}


def _has_none(o):
    if o is None:
        return True
    if isinstance(o, dict):
        return any(_has_none(v) for v in o.values())
    if isinstance(o, (list, tuple)):
        return any(_has_none(v) for v in o)
    return False


def observe(fn, header, prop, grids):
    """run an observation function; a variable the file lacks is an observation (clause Present_<prop>), not a crash"""
    out = dict(header)
    out["prop"] = prop
    try:
        fn(out)
        # (a missing array may also have been quantised to a scalar NaN code: any required variable that is absent counts)
        bad = _has_none(out) or any(g.missing - OPTIONAL_VARS for g in grids)
    except Exception:
        bad = True
        if not any(g.missing - OPTIONAL_VARS for g in grids):
            raise
    if bad:
        miss = sorted(set().union(*[g.missing - OPTIONAL_VARS for g in grids]))
        if not miss:
            raise RuntimeError("observation %s has empty values although no variable is missing" % prop)
        out = dict(header)
        out["prop"] = prop
        out["missing"] = miss
    return out


def main():
    d = sys.argv[1]
    props = sys.argv[2:]
    g = Grid(d)
    from harness import project_more  # noqa: F401  (registers further observation functions)

    if len(props) >= 2 and props[1] == "--pair":
        # project.py <dirA> <prop> --pair <dirB> <kind> <outfile>
        gB = Grid(props[2])
        out = observe(lambda o: OBS_PAIR[props[0]](g, gB, props[3], o), g.header(), props[0], [g, gB])
        with open(props[4], "w") as fh:
            json.dump(out, fh)
        return

    for p in props:
        g.missing = set()
        out = observe(lambda o: OBS[p](g, o), g.header(), p, [g])
        with open(os.path.join(d, "gt_%s.json" % p), "w") as fh:
            json.dump(out, fh)


if __name__ == "__main__":
    from harness import project as _self  # one module instance, so that project_more registers into the OBS used here

    _self.main()
