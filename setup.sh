#!/bin/sh
# Offline setup: unpack pure-Python helper packages from the wheelhouse and syntax-check the specifications.
set -e
cd "$(dirname "$0")"
if [ ! -d .deps/jsonschema ]; then
  /venv/bin/pip install -q --no-index --find-links /opt/veriftools/wheels --target .deps jsonschema sympy >/dev/null 2>&1 || echo "warning: could not install helper packages (evidence is then written unvalidated)"
fi
mkdir -p .cache/tmp evidence
fail=0
for f in spec/*.tla; do
  out=$(cd spec && java -cp /opt/veriftools/tla/tla2tools.jar:/opt/veriftools/tla/CommunityModules-deps.jar tla2sany.SANY "$(basename "$f")" 2>&1) || true
  if echo "$out" | grep -q "Semantic errors\|Parse Error\|Fatal error\|Could not find module"; then
    echo "SANY: $f FAILED"; echo "$out" | tail -15; fail=1
  fi
done
[ $fail -eq 0 ] && echo "setup ok: all specifications parse"
exit $fail
