----------------------------- MODULE MC_Geqdsk -----------------------------
EXTENDS Geqdsk

Dg(s) == s        \* digits given as a 10-tuple
Palette == <<Val(FALSE, <<1,0,0,0,0,0,0,0,0,0>>, FALSE, 0),
             Val(TRUE,  <<9,9,9,9,9,9,9,9,9,9>>, TRUE, 99),
             Val(FALSE, <<0,0,0,0,0,0,0,0,0,0>>, FALSE, 0),
             Val(FALSE, <<1,2,3,4,5,6,7,8,9,0>>, FALSE, 5),
             Val(TRUE,  <<1,0,0,0,0,0,0,0,0,0>>, TRUE, 10),
             Val(FALSE, <<9,9,9,9,9,9,9,9,9,9>>, FALSE, 99),
             Val(TRUE,  <<5,0,0,0,0,0,0,0,0,1>>, FALSE, 0),
             Val(FALSE, <<2,5,0,0,0,0,0,0,0,0>>, TRUE, 1)>>
NP == Len(Palette)

\* a distinguishable value for position tag n (Level B: order matters, not magnitude)
Md(a, b) == a - b * (a \div b)
TagV(n) == Val(Md(n, 2) = 1, <<1 + Md(n \div 1000, 9), Md(n \div 100, 10), Md(n \div 10, 10), Md(n, 10), 0, 0, 0, 0, 0, 7>>, FALSE, 0)

CONSTANT MaxN
VARIABLE m
\* Level A states: a line of n values with a layout each.  Level B states: a data-set shape.
\* (the leading-zero form needs exponent + 1, which must still have two digits)
LayoutFits(v, lay) == lay = "leadzero" => (v.eneg \/ v.e < 99)
InitA == \E n \in 1..MaxN : \E vs \in [1..n -> 1..NP] : \E ls \in [1..n -> Layouts] :
           /\ \A k \in 1..n : LayoutFits(Palette[vs[k]], ls[k])
           /\ m' = [lvl |-> "A", vs |-> vs, ls |-> ls]
InitI == \E a \in {0, 1, 9, 10, 123} : \E b \in {0, 3, 99, 1000} : m' = [lvl |-> "I", a |-> a, b |-> b]
InitH == \E nx \in {1, 9, 33, 65, 129, 999, 1000, 2049} : \E ny \in {1, 65, 999, 1025} : \E pre \in {0, 1, 2} : m' = [lvl |-> "H", nx |-> nx, ny |-> ny, pre |-> pre]
InitB == \E nx \in 1..6 : \E ny \in 1..3 : \E nb \in 0..3 : \E nl \in 0..3 : \E ff \in BOOLEAN : \E pp \in BOOLEAN :
           m' = [lvl |-> "B", nx |-> nx, ny |-> ny, nb |-> nb, nl |-> nl, ff |-> ff, pp |-> pp]
\* one start state, then one step picks the case (so that TLC's workers share the evaluation)
MCInit == m = [lvl |-> "start"]
MCNext == m.lvl = "start" /\ (InitA \/ InitI \/ InitH \/ InitB)
MCSpec == MCInit /\ [][MCNext]_m

LineA == Concat([k \in 1..Len(m.vs) |-> FieldAs(Palette[m.vs[k]], m.ls[k])])
TokensOK == m.lvl = "A" => Tokens(LineA) = [k \in 1..Len(m.vs) |-> <<"f", Palette[m.vs[k]]>>]
IntsOK == m.lvl = "I" => /\ Tokens(IntField(m.a, 5) \o IntField(m.b, 5)) = <<<<"i", m.a>>, <<"i", m.b>>>>
                          /\ Tokens(IntToken(m.a) \o IntToken(m.b)) = <<<<"i", m.a>>, <<"i", m.b>>>>

\* header variants: label / date / shot / time words before the three integers
Prefix(k) == CASE k = 0 -> <<70, 82, 69, 69, 71, 83, SP, SP, SP, SP, SP, 50, 55, 47, 48, 57, 47, 50, 48, 50, 54, SP, SP, SP, SP, SP, SP, SP, 35, SP, 48, SP, SP, 48, 109, 115>> \o [i \in 1..11 |-> SP]
               [] k = 1 -> <<69, 70, 73, 84, 68, SP, SP, SP, SP, 48, 49, 47, 50, 51, 47, 50, 48, 48, 50, SP, SP, SP, SP, 35, 49, 52, 55, 49, 51, 49, SP, SP, 52, 53, 48, 48, 109, 115, SP, SP, SP, SP, SP, SP, SP, SP, SP, SP>>
               [] OTHER -> <<SP, SP, 88, SP, 49, 50, SP, 51>> \o [i \in 1..40 |-> SP]
\* a free-format header (not fixed width): the reader falls back to the last three words
FreeHeaderOK == m.lvl = "H" => (m.nx >= 1000 \/ m.ny >= 1000 \/
   HeaderParse(<<88, SP>> \o DecDigits(3) \o <<SP>> \o DecDigits(m.nx) \o <<SP>> \o DecDigits(m.ny)) = <<m.nx, m.ny>>)
HeaderOK == m.lvl = "H" => HeaderParse(Prefix(m.pre) \o HeaderTail([nx |-> m.nx, ny |-> m.ny])) = <<m.nx, m.ny>>

DataB == LET nx == m.nx  ny == m.ny IN
  [nx |-> nx, ny |-> ny,
   sc |-> [n \in ScalarNames |-> TagV(CHOOSE k \in 1..20 : ScalarOrder[k] = n)],
   fpol |-> [k \in 1..nx |-> TagV(100 + k)], pres |-> [k \in 1..nx |-> TagV(200 + k)],
   ffprime |-> [k \in 1..nx |-> TagV(300 + k)], pprime |-> [k \in 1..nx |-> TagV(400 + k)],
   qpsi |-> [k \in 1..nx |-> TagV(500 + k)],
   psi |-> [x \in 1..nx |-> [y \in 1..ny |-> TagV(1000 + 10 * x + y)]],
   hasff |-> m.ff, haspp |-> m.pp,
   bdry |-> [k \in 1..m.nb |-> <<TagV(600 + k), TagV(650 + k)>>], lim |-> [k \in 1..m.nl |-> <<TagV(700 + k), TagV(750 + k)>>]]

RoundTrip == m.lvl = "B" => ReadBack(Stream(DataB), m.nx, m.ny) = Expected(DataB)
\* at character level: tokenising the printed body gives back the value stream (hence Parse(Print(d)) = d)
CharRoundTrip == m.lvl = "B" =>
  LET ls == BodyLines(DataB) IN Concat([k \in 1..Len(ls) |-> Tokens(ls[k])]) = Stream(DataB)
LinesAtMost5 == m.lvl = "B" => \A k \in 1..Len(BodyLines(DataB)) : Len(BodyLines(DataB)[k]) \in {10} \cup {16 * j : j \in 1..5}
=============================================================================
