--------------------------- MODULE Trace_Stencil ---------------------------
(***************************************************************************)
(* C->S for StencilDefs.tla: the REAL MeshRegion.DDX / DDY evaluated on an   *)
(* integer test field on stub meshes of every topology; TLC recomputes every  *)
(* output value from the specification's stencil and the specification's own  *)
(* neighbour relation (Topology.tla), after the three pipeline actions of     *)
(* Trace_Topology have judged the layout itself.                              *)
(***************************************************************************)
EXTENDS Trace_Topology, StencilDefs

LocC(loc) == CASE loc = "centre" -> 0 [] loc = "xlow" -> 300 [] loc = "ylow" -> 700 [] loc = "corners" -> 1100
TestF(r, s1, loc, i, j) == 1009 * IdOf(r, s1) + 53 * i * i + 17 * j * j + 5 * i * j + LocC(loc)
ClauseL(name, ok, loc) == IF ok THEN TRUE ELSE PrintT(<<"CLAUSE-FAILED", name, JT[tid].id, loc>>)

ObserveStencil ==
  /\ stage = "file"
  /\ \A loc \in Locs4 :
       /\ ClauseL("StencilDDX", \A r \in 1..NR(T) : \A s1 \in 1..NSeg(T) :
            LET o == Obs.sten[IdOf(r, s1) + 1].ddx[loc] IN
            /\ Len(o) = NI(s1, loc)
            /\ \A i \in 0..(NI(s1, loc) - 1) : /\ Len(o[i + 1]) = NJ(r, loc)
                                               /\ \A j \in 0..(NJ(r, loc) - 1) : o[i + 1][j + 1] = ExpDDX(TestF, r, s1, loc, i, j), loc)
       /\ ClauseL("StencilDDY", \A r \in 1..NR(T) : \A s1 \in 1..NSeg(T) :
            LET o == Obs.sten[IdOf(r, s1) + 1].ddy[loc] IN
            /\ Len(o) = NI(s1, loc)
            /\ \A i \in 0..(NI(s1, loc) - 1) : /\ Len(o[i + 1]) = NJ(r, loc)
                                               /\ \A j \in 0..(NJ(r, loc) - 1) : o[i + 1][j + 1] = ExpDDY(TestF, r, s1, loc, i, j), loc)
  /\ ClauseL("StencilExact", \A k \in 1..Len(Obs.sten) : Obs.sten[k].exact = 1, "all")
  /\ stage' = "observed"
  /\ UNCHANGED <<cfg, conn, rects, ygroups, ints, tid>>

StencilNext == TraceNext \/ ObserveStencil
StencilSpec == TraceInit /\ [][StencilNext]_ttvars
=============================================================================
