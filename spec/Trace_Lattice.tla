--------------------------- MODULE Trace_Lattice ---------------------------
(***************************************************************************)
(* C->S for Lattice.tla: recorded results of the real find_intersections,   *)
(* Equilibrium.wallIntersection, polygons.area/clockwise/intersect and       *)
(* closest_approach on lattice inputs, judged against the exact predicates.  *)
(* One trace per call; the single action `Judge' evaluates the clauses.      *)
(* Reported points are recorded in two limbs: x = (hi + lo*1e-6) * 1e-6.     *)
(***************************************************************************)
EXTENDS Lattice, Json, IOUtils

JT == JsonDeserialize(IOEnv.TRACE_FILE).traces
NTr == Len(JT)
VARIABLES tid, done
lvars == <<q4, tid, done>>

Obs == JT[tid]
Clause(name, ok) == IF ok THEN TRUE ELSE PrintT(<<"CLAUSE-FAILED", name, JT[tid].id>>)

P2(l) == <<l[1], l[2]>>
Poly == [i \in 1..Len(Obs.poly) |-> P2(Obs.poly[i])]
S == P2(Obs.s)
E == P2(Obs.e)

M == 1000000
\* recorded coordinate (hi, lo) equals the exact rational n/d to 1e-11
CoordIs(hi, lo, n, d) ==
  LET dd == AbsD(d)  nn == n * Sgn(d)
      A == hi * dd - nn * M
  IN AbsD(A) <= dd /\ AbsD(A * M + lo * dd) <= 10 * dd
PointIs(p, m) == CoordIs(p[1], p[2], m[1], m[3]) /\ CoordIs(p[3], p[4], m[2], m[3])

EdgesOf == EdgeSeq(Poly)
NonDegenerate == S # E /\ \A i \in 1..Len(EdgesOf) : EdgesOf[i][1] # EdgesOf[i][2]
NoParallelEdge == \A i \in 1..Len(EdgesOf) : ~Parallel(S, E, EdgesOf[i][1], EdgesOf[i][2])
MeetingEdges == {i \in 1..Len(EdgesOf) : SegMeet(S, E, EdgesOf[i][1], EdgesOf[i][2])}
MeetPts == {MeetPoint(S, E, EdgesOf[i][1], EdgesOf[i][2]) : i \in MeetingEdges}
JudgeFind ==
  (NonDegenerate /\ NoParallelEdge) =>
    /\ Clause("HitIffMeets", (Obs.rk = "points") = (MeetingEdges # {}))
    /\ Clause("NoException", Obs.rk # "exception")
    /\ Clause("CountIsMeetingEdges", Obs.rk # "points" \/ Len(Obs.pts) = Cardinality(MeetingEdges))
    /\ Clause("PointsOnBoth", Obs.rk # "points" \/
          /\ \A k \in 1..Len(Obs.pts) : \E i \in MeetingEdges : PointIs(Obs.pts[k], MeetPoint(S, E, EdgesOf[i][1], EdgesOf[i][2]))
          /\ \A i \in MeetingEdges : \E k \in 1..Len(Obs.pts) : PointIs(Obs.pts[k], MeetPoint(S, E, EdgesOf[i][1], EdgesOf[i][2])))

\* wallIntersection on a closed polygon: no crossing -> None; crossings at one point (possibly a shared vertex,
\* found on two edges) -> that point; crossings at two or more distinct points -> refused with an exception
NDistinct == Cardinality({i \in MeetingEdges : \A j \in MeetingEdges :
                 SamePt(MeetPoint(S, E, EdgesOf[i][1], EdgesOf[i][2]), MeetPoint(S, E, EdgesOf[j][1], EdgesOf[j][2])) => i <= j})
\* a wall is a simple closed polygon: non-adjacent edges are disjoint, adjacent edges share only their common vertex
NE == Len(EdgesOf)
Adjacent(i, j) == j = i + 1 \/ (i = 1 /\ j = NE)
SimpleWall ==
  /\ Poly[1] = Poly[Len(Poly)]
  /\ \A i \in 1..NE : \A j \in (i + 1)..NE :
       IF Adjacent(i, j)
         THEN LET sh == IF j = i + 1 THEN EdgesOf[i][2] ELSE EdgesOf[i][1]
                  oi == IF j = i + 1 THEN EdgesOf[i][1] ELSE EdgesOf[i][2]
                  oj == IF j = i + 1 THEN EdgesOf[j][2] ELSE EdgesOf[j][1]
              IN ~OnSeg(oi, EdgesOf[j][1], EdgesOf[j][2]) /\ ~OnSeg(oj, EdgesOf[i][1], EdgesOf[i][2])
         ELSE ~SegMeet(EdgesOf[i][1], EdgesOf[i][2], EdgesOf[j][1], EdgesOf[j][2])
JudgeWall ==
  (NonDegenerate /\ NoParallelEdge /\ SimpleWall) =>
    /\ Clause("WallNoneIffNoCrossing", (Obs.rk = "none") = (MeetingEdges = {}))
    /\ Clause("WallOnePoint", NDistinct = 1 =>
          (Obs.rk = "points" /\ Len(Obs.pts) = 1
           /\ \E i \in MeetingEdges : PointIs(Obs.pts[1], MeetPoint(S, E, EdgesOf[i][1], EdgesOf[i][2]))))
    /\ Clause("WallRefusesSeveral", NDistinct >= 2 => Obs.rk = "exception")

JudgeArea ==
  /\ Clause("AreaIsExact", Obs.area2 = Trap2(Poly) /\ Obs.area2 = -Shoe2(Poly))
  /\ Clause("ClockwiseIsOrientation", Shoe2(Poly) # 0 => ((Obs.clockwise = 1) = (Shoe2(Poly) < 0)))

\* polygons.intersect: strict crossing; judged only when no pair of edges touches without crossing properly
PolyB == [i \in 1..Len(Obs.polyb) |-> P2(Obs.polyb[i])]
Closed(poly) == Append(poly, poly[1])
EA == EdgeSeq(Closed(Poly))
EB == EdgeSeq(Closed(PolyB))
Touching == \E i \in 1..Len(EA) : \E j \in 1..Len(EB) :
              SegMeet(EA[i][1], EA[i][2], EB[j][1], EB[j][2]) /\ ~Proper(EA[i][1], EA[i][2], EB[j][1], EB[j][2])
JudgeIntersect ==
  ~Touching => Clause("PolygonsIntersect", (Obs.flag = 1) = (\E i \in 1..Len(EA) : \E j \in 1..Len(EB) : Proper(EA[i][1], EA[i][2], EB[j][1], EB[j][2])))

JudgeClosest ==
  LET c == Closest2(P2(Obs.p), S, E) IN
  S # E => Clause("ClosestApproach", AbsD(Obs.d2q * c[2] - c[1] * M) <= 2 * c[2])

Judge ==
  /\ done = FALSE
  /\ CASE Obs.kind = "find" -> JudgeFind
       [] Obs.kind = "wall" -> JudgeWall
       [] Obs.kind = "area" -> JudgeArea
       [] Obs.kind = "intersect" -> JudgeIntersect
       [] Obs.kind = "closest" -> JudgeClosest
       [] OTHER -> Clause("UnknownKind", FALSE)
  /\ done' = TRUE
  /\ UNCHANGED <<q4, tid>>

TLInit == tid \in 1..NTr /\ done = FALSE /\ q4 = <<<<0, 0>>, <<0, 0>>, <<0, 0>>, <<0, 0>>>>
TLSpec == TLInit /\ [][Judge]_lvars
=============================================================================
