SPECIFICATION PSpec
CONSTANTS
  Configs = {}
INVARIANT XEndsUseXpointOption
INVARIANT JoinContinuity
CHECK_DEADLOCK FALSE
