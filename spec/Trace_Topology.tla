--------------------------- MODULE Trace_Topology ---------------------------
(***************************************************************************)
(* C->S for Topology.tla.  Each trace is what the real index code produced  *)
(* for one (topology, sizes, guards): makeRegions' regions and connections, *)
(* Mesh/BoutMesh numbering, index ranges and groups, the integers, y-coord  *)
(* and theta of the written file.  The trace takes the three pipeline       *)
(* actions; the state variables are bound to the OBSERVED values and every  *)
(* clause compares them with what the specification derives.  A failing     *)
(* clause is reported by name (and the behaviour continues, so that all     *)
(* clauses of all traces are judged in one run).                            *)
(***************************************************************************)
EXTENDS Topology, Json, IOUtils, SequencesExt

JT == JsonDeserialize(IOEnv.TRACE_FILE).traces
NTr == Len(JT)

VARIABLE tid
ttvars == <<tvars, tid>>

Obs == JT[tid]
CfgOf(t) == [topo |-> JT[t].topo, nx |-> JT[t].nx, ny |-> JT[t].ny, G |-> JT[t].G]

Clause(name, ok) == IF ok THEN TRUE ELSE PrintT(<<"CLAUSE-FAILED", name, JT[tid].id>>)

TraceInit ==
  /\ tid \in 1..NTr
  /\ cfg = CfgOf(tid)
  /\ stage = "start" /\ conn = <<>> /\ rects = <<>> /\ ygroups = {} /\ ints = {}

T == cfg.topo
ObsConnOK == /\ Len(Obs.conn) = NR(T)
             /\ \A r \in 1..NR(T) : Len(Obs.conn[r]) = NSeg(T) /\ \A s1 \in 1..NSeg(T) : Obs.conn[r][s1] \in 0..NR(T)

TraceMakeRegions ==
  /\ stage = "start"
  /\ Clause("RegionOrder", Obs.order = Order(T))
  /\ Clause("SegmentCount", \A r \in 1..Len(Obs.nseg) : Obs.nseg[r] = NSeg(T))
  /\ Clause("RegionSizes", /\ Len(Obs.regny) = NR(T) /\ \A r \in 1..NR(T) : Obs.regny[r] = cfg.ny[r] /\ Obs.regnx[r] = cfg.nx)
  /\ Clause("Kinds", Len(Obs.kinds) = NR(T) /\ \A r \in 1..NR(T) :
                       LET k == Kind(T, Order(T)[r]) IN Obs.kinds[r] = (IF k = "closed" THEN "X.X" ELSE k))
  /\ Clause("ConnWellFormed", ObsConnOK)
  /\ Clause("ConnIsPhysical", ObsConnOK => Obs.conn = PhysConn(T))
  /\ Clause("ConnSymmetric", ObsConnOK =>
        \A r \in 1..NR(T) : \A s1 \in 1..NSeg(T) :
           /\ (Obs.conn[r][s1] # 0 => Obs.connlow[Obs.conn[r][s1]][s1] = r)
           /\ (Obs.connlow[r][s1] # 0 => Obs.conn[Obs.connlow[r][s1]][s1] = r))
  /\ Clause("ConnSameSegment", \A r \in 1..Len(Obs.segsame) : \A s1 \in 1..Len(Obs.segsame[r]) : Obs.segsame[r][s1] = 1)
  \* the state follows the implementation when it is well formed, so that later clauses judge the
  \* index code against the connections it was actually given
  /\ conn' = IF ObsConnOK THEN Obs.conn ELSE PhysConn(T)
  /\ stage' = "regions"
  /\ UNCHANGED <<cfg, rects, ygroups, ints, tid>>

IdOf(r, s1) == (r - 1) * NSeg(T) + (s1 - 1)
ObsRect(r, s1) == Obs.rects[IdOf(r, s1) + 1]
MC(r, s1) == Obs.meshconn[IdOf(r, s1) + 1]     \* <<inner, outer, lower, upper>> ids, -1 = none
SetOfSeq(q) == {q[k] : k \in 1..Len(q)}

TraceMakeMesh ==
  /\ stage = "regions"
  /\ Clause("Numbering", \A r \in 1..NR(T) : \A s1 \in 1..NSeg(T) : Obs.ids[r][s1] = IdOf(r, s1))
  /\ Clause("MeshConn", \A r \in 1..NR(T) : \A s1 \in 1..NSeg(T) :
        /\ MC(r, s1)[1] = (IF s1 = 1 THEN -1 ELSE IdOf(r, s1 - 1))
        /\ MC(r, s1)[2] = (IF s1 = NSeg(T) THEN -1 ELSE IdOf(r, s1 + 1))
        /\ MC(r, s1)[4] = (IF conn[r][s1] = 0 THEN -1 ELSE IdOf(conn[r][s1], s1))
        /\ MC(r, s1)[3] = (IF LowerOf(conn, s1, r) = {} THEN -1 ELSE IdOf(CHOOSE r2 \in LowerOf(conn, s1, r) : TRUE, s1)))
  /\ Clause("GlobalSize", Obs.meshnx = NxTot(cfg.nx) /\ Obs.meshny = NyTot(conn, cfg.ny, cfg.G)
                           /\ Obs.meshny_noguards = SumSeq(cfg.ny, Len(cfg.ny)))
  /\ Clause("Indices", \A r \in 1..NR(T) : \A s1 \in 1..NSeg(T) : ObsRect(r, s1) = Rect(conn, cfg.nx, cfg.ny, cfg.G, r, s1))
  /\ Clause("Tiling", \A x \in 0..(Obs.meshnx - 1) : \A y \in 0..(Obs.meshny - 1) :
        Cardinality({k \in 1..Len(Obs.rects) : /\ Obs.rects[k][1] <= x /\ x < Obs.rects[k][2]
                                               /\ Obs.rects[k][3] <= y /\ y < Obs.rects[k][4]}) = 1)
  /\ Clause("XGroups", {SetOfSeq(g) : g \in SetOfSeq(Obs.xgroups)} = {{IdOf(r, s1) : s1 \in 1..NSeg(T)} : r \in 1..NR(T)}
                       /\ \A k \in 1..Len(Obs.xgroups) : \A n \in 1..(Len(Obs.xgroups[k]) - 1) : Obs.xgroups[k][n + 1] = Obs.xgroups[k][n] + 1)
  \* y groups: the same partition into chains, each in connection order (any rotation of a closed chain)
  /\ Clause("YGroupsMembers",
        {SetOfSeq(g) : g \in SetOfSeq(Obs.ygroups)}
          = UNION {{{IdOf(g[k], s1) : k \in 1..Len(g)} : g \in YGroupsOfSeg(conn, s1)} : s1 \in 1..NSeg(T)})
  /\ Clause("YGroupsOrder", \A k \in 1..Len(Obs.ygroups) : \A n \in 1..(Len(Obs.ygroups[k]) - 1) :
        LET a == Obs.ygroups[k][n]  b == Obs.ygroups[k][n + 1] IN Obs.meshconn[a + 1][4] = b)
  \* documented start of a closed chain: its first member in region order (C05/C06: where poloidal_distance and zShift start)
  /\ Clause("YGroupsStart",
        SetOfSeq(Obs.ygroups)
          = UNION {{[k \in 1..Len(g) |-> IdOf(g[k], s1)] : g \in YGroupsOfSeg(conn, s1)} : s1 \in 1..NSeg(T)})
  /\ rects' = [r \in 1..NR(T) |-> [s1 \in 1..NSeg(T) |-> IF IdOf(r, s1) + 1 <= Len(Obs.rects) THEN ObsRect(r, s1) ELSE <<0, 0, 0, 0>>]]
  /\ ygroups' = [s1 \in 1..NSeg(T) |-> YGroupsOfSeg(conn, s1)]
  /\ stage' = "mesh"
  /\ UNCHANGED <<cfg, conn, ints, tid>>

ObsT == [nx |-> Obs.ints.nx, ny |-> Obs.ints.ny, ix1 |-> Obs.ints.ixseps1, ix2 |-> Obs.ints.ixseps2,
         j11 |-> Obs.ints.jyseps1_1, j21 |-> Obs.ints.jyseps2_1, nyInner |-> Obs.ints.ny_inner,
         j12 |-> Obs.ints.jyseps1_2, j22 |-> Obs.ints.jyseps2_2, G |-> Obs.ints.y_boundary_guards]

NYF == NyTot(conn, cfg.ny, cfg.G)

TraceWriteFile ==
  /\ stage = "mesh"
  /\ Clause("FileDims", Obs.fileshape = <<NxTot(cfg.nx), NYF>> /\ ObsT.nx = NxTot(cfg.nx)
                        /\ ObsT.ny = SumSeq(cfg.ny, Len(cfg.ny)) /\ ObsT.G = cfg.G)
  /\ Clause("IntsOrdered", IntsOrdered(ObsT))
  /\ Clause("LoaderAccepts", LoadOK(ObsT))
  \* (ny_inner has no meaning for a single null: compared only for double nulls)
  /\ Clause("IntsAsDocumented", T \in {"CORE", "LIM"}
        \/ (IF IsSN(T) THEN [ObsT EXCEPT !.nyInner = 0] ELSE ObsT) \in SpecIntsSet(T, cfg.nx, cfg.ny, cfg.G))
  \* the integers, read with BOUT++'s meaning, give the adjacency the layout has
  /\ Clause("AdjacencyFromInts",
        LoadOK(ObsT) =>
          /\ (T # "CORE" => NFile(Load(ObsT)) = NYF)
          /\ \A x \in 0..(NxTot(cfg.nx) - 1) : \A y \in 0..(NYF - 1) :
               IF T = "CORE" THEN LayoutUp(conn, cfg.nx, cfg.ny, cfg.G, x, y) = BoutUp(Load(ObsT), x, y)
               ELSE LayoutUp(conn, cfg.nx, cfg.ny, cfg.G, x, y) = BoutUpFile(Load(ObsT), x, y))
  /\ Clause("YCoord", Len(Obs.ycoord2) = NYF /\ \A y \in 1..NYF : Obs.ycoord2[y] = 2 * (y - 1))
  /\ Clause("DyIsTwoPiOverCore",
        Obs.dy_core = (LET nc == SumSeq([r \in 1..NR(T) |-> IF Kind(T, Order(T)[r]) \in {"X.X", "closed"} THEN cfg.ny[r] ELSE 0], NR(T))
                       IN IF nc > 0 THEN nc ELSE SumSeq(cfg.ny, Len(cfg.ny))))
  /\ Clause("Theta", T = "XPT" \/ (Len(Obs.theta2) = NYF /\ \A y \in 1..NYF :
                        Obs.theta2[y] = Theta2(T, conn, cfg.nx, cfg.ny, cfg.G, y - 1) /\ Obs.thetalow2[y] = Obs.theta2[y] - 1))
  /\ Clause("ThetaExact", Obs.thetadev <= 10)
  /\ ints' = {ObsT}
  /\ stage' = "file"
  /\ UNCHANGED <<cfg, conn, rects, ygroups, tid>>

TraceNext == TraceMakeRegions \/ TraceMakeMesh \/ TraceWriteFile
TraceSpec == TraceInit /\ [][TraceNext]_ttvars

\* every trace must reach the last stage: checked by counting distinct states (4 per trace)
=============================================================================
