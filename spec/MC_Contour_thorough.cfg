SPECIFICATION Spec
CONSTANTS
  MinN = 6
  MaxN = 9
  Radius = 2
  Thick = {0, 12, 27}
INVARIANT TypeOK
INVARIANT TargetsAtWall
INVARIANT OtherEndKept
INVARIANT InDomainBetweenTargets
INVARIANT NeverFails
INVARIANT CountOK
CHECK_DEADLOCK FALSE
