SPECIFICATION TBSpec
CONSTANTS
  Inputs = {"I1", "I2"}
  EqOpts = {"plain", "revcur", "twopi", "revbt"}
  SignOpts = {"revcur", "twopi", "revbt"}
  Settings = {"A"}
  DefaultSetting = "A"
  MaxFiles = 1
  MaxSteps = 40
  Mode = "Intended"
CHECK_DEADLOCK FALSE
