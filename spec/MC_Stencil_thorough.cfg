SPECIFICATION MCSpec
CONSTANTS
  Configs = {}
  Tier = "quick"
INVARIANT LinearExactX
INVARIANT LinearExactY
CHECK_DEADLOCK FALSE
