------------------------------ MODULE Lattice ------------------------------
(***************************************************************************)
(* Exact integer geometry on the lattice (0..K)^2 (C20): the predicates the  *)
(* wall-intersection routine, the polygon utilities and closest_approach     *)
(* are supposed to compute, with no rounding.  Points are <<r, z>>.          *)
(***************************************************************************)
EXTENDS Integers, Sequences, FiniteSets, TLC

CONSTANT K
Pts == (0..K) \X (0..K)

Cross(o, a, b) == (a[1] - o[1]) * (b[2] - o[2]) - (a[2] - o[2]) * (b[1] - o[1])
Dot(o, a, b) == (a[1] - o[1]) * (b[1] - o[1]) + (a[2] - o[2]) * (b[2] - o[2])
Sgn(n) == IF n > 0 THEN 1 ELSE IF n < 0 THEN -1 ELSE 0
AbsD(d) == IF d < 0 THEN -d ELSE d
MinI(a, b) == IF a < b THEN a ELSE b
MaxI(a, b) == IF a > b THEN a ELSE b

InBox(p, a, b) == /\ MinI(a[1], b[1]) <= p[1] /\ p[1] <= MaxI(a[1], b[1])
                  /\ MinI(a[2], b[2]) <= p[2] /\ p[2] <= MaxI(a[2], b[2])
OnSeg(p, a, b) == Cross(a, b, p) = 0 /\ InBox(p, a, b)

\* closed segments [s, e] and [a, b] have a point in common
SegMeet(s, e, a, b) ==
  LET d1 == Sgn(Cross(a, b, s))  d2 == Sgn(Cross(a, b, e))
      d3 == Sgn(Cross(s, e, a))  d4 == Sgn(Cross(s, e, b))
  IN \/ (d1 * d2 < 0 /\ d3 * d4 < 0)
     \/ (d1 = 0 /\ InBox(s, a, b)) \/ (d2 = 0 /\ InBox(e, a, b))
     \/ (d3 = 0 /\ InBox(a, s, e)) \/ (d4 = 0 /\ InBox(b, s, e))
\* they cross at a point interior to both
Proper(s, e, a, b) == Sgn(Cross(a, b, s)) * Sgn(Cross(a, b, e)) < 0 /\ Sgn(Cross(s, e, a)) * Sgn(Cross(s, e, b)) < 0
Den(s, e, a, b) == (e[1] - s[1]) * (b[2] - a[2]) - (e[2] - s[2]) * (b[1] - a[1])      \* (e-s) x (b-a)
Parallel(s, e, a, b) == Den(s, e, a, b) = 0
\* intersection point of the two LINES as exact rationals <<numR, numZ, den>> (den # 0)
MeetPoint(s, e, a, b) ==
  LET D == Den(s, e, a, b)
      N == (a[1] - s[1]) * (b[2] - a[2]) - (a[2] - s[2]) * (b[1] - a[1])            \* (a-s) x (b-a)
  IN <<s[1] * D + (e[1] - s[1]) * N, s[2] * D + (e[2] - s[2]) * N, D>>
SamePt(p, q) == p[1] * q[3] = q[1] * p[3] /\ p[2] * q[3] = q[2] * p[3]

\* a polyline is a sequence of points; its edges
Edges(poly) == {<<poly[i], poly[i + 1]>> : i \in 1..(Len(poly) - 1)}
EdgeSeq(poly) == [i \in 1..(Len(poly) - 1) |-> <<poly[i], poly[i + 1]>>]

\* twice the signed area: the trapezium form used by polygons.area and the shoelace form
Trap2(poly) == LET n == Len(poly) IN
  LET S[i \in 0..n] == IF i = 0 THEN 0 ELSE
        S[i - 1] + (poly[(i % n) + 1][1] - poly[i][1]) * (poly[i][2] + poly[(i % n) + 1][2]) IN S[n]
Shoe2(poly) == LET n == Len(poly) IN
  LET S[i \in 0..n] == IF i = 0 THEN 0 ELSE
        S[i - 1] + poly[i][1] * poly[(i % n) + 1][2] - poly[(i % n) + 1][1] * poly[i][2] IN S[n]

\* squared distance from p to the closed segment [a, b] as a rational <<num, den>>
Closest2(p, a, b) ==
  LET mm == Dot(a, b, b)
      t == Dot(a, b, p)
  IN IF mm = 0 \/ t <= 0 THEN <<Dot(p, a, a), 1>>
     ELSE IF t >= mm THEN <<Dot(p, b, b), 1>>
     ELSE <<Cross(a, b, p) * Cross(a, b, p), mm>>

--------------------------------------------------------------------------
(* internal consistency of the predicates, checked by TLC over the whole lattice *)
VARIABLE q4          \* a quadruple of lattice points
LInit == q4 \in Pts \X Pts \X Pts \X Pts
LNext == UNCHANGED q4
LSpec == LInit /\ [][LNext]_q4
s0 == q4[1]
e0 == q4[2]
a0 == q4[3]
b0 == q4[4]
Tr(p) == <<p[2], p[1]>>
MeetSymmetric == SegMeet(s0, e0, a0, b0) = SegMeet(a0, b0, s0, e0)
MeetReversal == SegMeet(s0, e0, a0, b0) = SegMeet(e0, s0, a0, b0) /\ SegMeet(s0, e0, a0, b0) = SegMeet(s0, e0, b0, a0)
MeetTranspose == SegMeet(s0, e0, a0, b0) = SegMeet(Tr(s0), Tr(e0), Tr(a0), Tr(b0))
ProperImpliesMeet == Proper(s0, e0, a0, b0) => (SegMeet(s0, e0, a0, b0) /\ ~Parallel(s0, e0, a0, b0))
\* for non-parallel segments: they meet iff the intersection point of the lines lies in both boxes
MeetPointOnBoth ==
  (~Parallel(s0, e0, a0, b0) /\ s0 # e0 /\ a0 # b0) =>
     LET m == MeetPoint(s0, e0, a0, b0)
         inb(u, v) == LET d == m[3] IN
                        /\ MinI(u[1], v[1]) * AbsD(d) <= m[1] * Sgn(d) /\ m[1] * Sgn(d) <= MaxI(u[1], v[1]) * AbsD(d)
                        /\ MinI(u[2], v[2]) * AbsD(d) <= m[2] * Sgn(d) /\ m[2] * Sgn(d) <= MaxI(u[2], v[2]) * AbsD(d)
     IN SegMeet(s0, e0, a0, b0) = (inb(s0, e0) /\ inb(a0, b0))
TrapIsMinusShoe == LET poly == <<s0, e0, a0, b0>> IN Trap2(poly) = -Shoe2(poly)
=============================================================================
