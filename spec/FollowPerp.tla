----------------------------- MODULE FollowPerp -----------------------------
(***************************************************************************)
(* The list algebra of followPerpendicular (C04): given the radial list of   *)
(* psi values of a region (strictly monotone, either direction) and the psi   *)
(* of the start point (anywhere: below, above, inside, equal to an element),  *)
(* the code splits, reverses and concatenates calls of an integrator that     *)
(* can only march monotonically away from the start value.  Every operator    *)
(* transcribes one branch of hypnotoad/core/mesh.py:followPerpendicular; the  *)
(* integrator is abstract: it returns, for each requested psi, the point of   *)
(* the integral curve with that psi (its label is the psi value itself) and   *)
(* fails when a requested value is not between the start and the last value,  *)
(* or the values are not in marching order (solve_ivp's t_eval contract).     *)
(***************************************************************************)
EXTENDS Integers, Sequences, FiniteSets, TLC

CONSTANTS MaxLen, MaxVal

Rev(s) == [k \in 1..Len(s) |-> s[Len(s) + 1 - k]]
AbsV(a) == IF a < 0 THEN -a ELSE a
SelectSeq2(s, T(_)) == SelectSeq(s, T)
MinOf(s) == CHOOSE v \in {s[k] : k \in 1..Len(s)} : \A k \in 1..Len(s) : v <= s[k]
MaxOf(s) == CHOOSE v \in {s[k] : k \in 1..Len(s)} : \A k \in 1..Len(s) : v >= s[k]
Err == <<-999>>
IsErr(s) == s = Err
Cat(a, b) == IF IsErr(a) \/ IsErr(b) THEN Err ELSE a \o b
RevE(a) == IF IsErr(a) THEN Err ELSE Rev(a)

\* solve_ivp(t_span = (psi0, last), t_eval = psivals): values must lie in the span and be sorted in the marching direction
Integrate(psivals, psi0) ==
  LET last == psivals[Len(psivals)]
      up == last - psi0 > 0
      inspan == \A k \in 1..Len(psivals) : IF up THEN psi0 <= psivals[k] /\ psivals[k] <= last ELSE last <= psivals[k] /\ psivals[k] <= psi0
      sorted == \A k \in 1..(Len(psivals) - 1) : IF up THEN psivals[k] <= psivals[k + 1] ELSE psivals[k] >= psivals[k + 1]
  IN IF last = psi0 THEN Err          \* zero-length span: solve_ivp returns no points and the code raises (only a one-element list can get here)
     ELSE IF inspan /\ sorted THEN psivals ELSE Err

RECURSIVE Follow(_, _)
Follow(psivals, psi0) ==
  IF MinOf(psivals) < psi0 /\ psi0 < MaxOf(psivals)
    THEN LET lt(v) == v < psi0
             ge(v) == v >= psi0
             left == IF psivals[1] < psi0 THEN SelectSeq(psivals, lt) ELSE SelectSeq(psivals, ge)
             right == IF psivals[1] < psi0 THEN SelectSeq(psivals, ge) ELSE SelectSeq(psivals, lt)
         IN Cat(RevE(Follow(Rev(left), psi0)), Follow(right, psi0))
  ELSE IF AbsV(psivals[Len(psivals)] - psi0) < AbsV(psivals[1] - psi0)
    THEN RevE(Follow(Rev(psivals), psi0))
  ELSE Integrate(psivals, psi0)

\* MeshRegion.__init__: a region inside the separatrix follows from its last psi value to its first and reverses the result
RegionFollow(psivals, inside, psi0) ==
  LET temp == IF inside THEN Rev(psivals) ELSE psivals
      pts == Follow(temp, psi0)
  IN IF inside THEN RevE(pts) ELSE pts

--------------------------------------------------------------------------
VARIABLES pv, p0, ins
fvars == <<pv, p0, ins>>
StrictMono(s) == (\A k \in 1..(Len(s) - 1) : s[k] < s[k + 1]) \/ (\A k \in 1..(Len(s) - 1) : s[k] > s[k + 1])
\* psi values are even numbers so that an odd psi0 is strictly between / beyond them and an even one may equal an element
FInit == /\ pv \in UNION {[1..n -> {2 * v : v \in 1..MaxVal}] : n \in 1..MaxLen}
         /\ StrictMono(pv)
         /\ p0 \in 0..(2 * MaxVal + 2)
         /\ ins \in BOOLEAN
         /\ ~(Len(pv) = 1 /\ pv[1] = p0)        \* degenerate (a region has at least three radial values): refused, see Integrate
FNext == UNCHANGED fvars
FSpec == FInit /\ [][FNext]_fvars
\* contour k of the region is the point of the integral curve at psi_vals[k], for every psi0 and orientation
FollowReturnsEachValueInOrder == Follow(pv, p0) = pv
RegionContourKIsPsiK == RegionFollow(pv, ins, p0) = pv

=============================================================================
