SPECIFICATION Spec
CONSTANTS
  S = 8
  Forms <- FormsQuick
  Centres <- CentresQuick
  AtolQ <- AtolQuick
  Band = 20
  MaxIter = 8
INVARIANT OkOnlyForSaddleInside
INVARIANT FoundWhenGentle
INVARIANT Accurate
INVARIANT OnePassOnQuadratics
INVARIANT NeverExhausted
INVARIANT DenSmall
PROPERTY Terminates
CHECK_DEADLOCK FALSE
