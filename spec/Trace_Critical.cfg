SPECIFICATION TSpec
CONSTANTS
  NO = 1
  NX = 1
CHECK_DEADLOCK FALSE
