SPECIFICATION TGSpec
CHECK_DEADLOCK FALSE
