SPECIFICATION SSpec
INVARIANT BranchTotal
INVARIANT SwitchMonotone
CHECK_DEADLOCK FALSE
