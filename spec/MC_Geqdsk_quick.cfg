SPECIFICATION MCSpec
CONSTANT MaxN = 2
INVARIANT TokensOK
INVARIANT IntsOK
INVARIANT HeaderOK
INVARIANT FreeHeaderOK
INVARIANT RoundTrip
INVARIANT CharRoundTrip
INVARIANT LinesAtMost5
CHECK_DEADLOCK FALSE
