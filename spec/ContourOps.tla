---------------------------- MODULE ContourOps ----------------------------
(***************************************************************************)
(* The index-keeping primitives of PsiContour, transcribed method by method  *)
(* (0-based Python indices kept as they are; Norm converts to 1-based).      *)
(* A contour value is [p: sequence of positions, s: startInd, e: endInd].    *)
(***************************************************************************)
EXTENDS Integers, Sequences, FiniteSets, TLC

Norm(s, i) == IF i < 0 THEN Len(s) + i + 1 ELSE i + 1            \* Python index -> 1-based
At(s, i) == s[Norm(s, i)]
Valid(s, i) == Norm(s, i) \in 1..Len(s)
AbsV(a) == IF a < 0 THEN -a ELSE a
InsertSeq(s, k, v) == SubSeq(s, 1, k) \o <<v>> \o SubSeq(s, k + 1, Len(s))      \* v becomes element k+1 (0-based index k)
Between(a, w, b) == (a < w /\ w < b) \/ (b < w /\ w < a)
Ordered(s) == \A k \in 1..(Len(s) - 1) : s[k] < s[k + 1]

(* PsiContour primitives: each returns [p, s, e] = (points, startInd, endInd) *)
Rec(p, s, e) == [p |-> p, s |-> s, e |-> e]

\* PsiContour.insert(index, point)
PInsert(c, index, v) ==
  LET i0 == IF index < 0 THEN (IF index + Len(c.p) < 0 THEN 0 ELSE index + Len(c.p)) ELSE index
      i == IF i0 > Len(c.p) THEN Len(c.p) ELSE i0              \* list.insert clamps
      p2 == InsertSeq(c.p, i, v)
      s2 == IF i0 <= c.s THEN c.s + 1 ELSE c.s
      e2 == IF i0 <= c.e THEN c.e + 1 ELSE c.e
      e3 == IF e2 < 0 /\ i0 >= Len(p2) + e2 THEN e2 - 1 ELSE e2
  IN Rec(p2, s2, e3)
\* PsiContour.replace(index, point)
PReplace(c, index, v) == Rec([c.p EXCEPT ![Norm(c.p, index)] = v], c.s, c.e)
\* PsiContour.temporaryExtend(extend_lower=1): prepend + index correction
PExtendLower(c, v) == Rec(<<v>> \o c.p, IF c.s >= 0 THEN c.s + 1 ELSE c.s, IF c.e >= 0 THEN c.e + 1 ELSE c.e)
\* PsiContour.temporaryExtend(extend_upper=1): append + index correction
PExtendUpper(c, v) == Rec(Append(c.p, v), c.s, IF c.e < 0 THEN c.e - 1 ELSE c.e)
\* PsiContour.reverse()
RevSeq(s) == [k \in 1..Len(s) |-> s[Len(s) + 1 - k]]
PReverse(c) == Rec(RevSeq(c.p), Len(c.p) - 1 - c.e, Len(c.p) - 1 - c.s)
\* bare append / prepend (no correction): used by insertFindPosition on scratch copies only
PAppend(c, v) == Rec(Append(c.p, v), c.s, c.e)
PPrepend(c, v) == Rec(<<v>> \o c.p, c.s, c.e)

=============================================================================
