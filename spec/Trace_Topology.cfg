SPECIFICATION TraceSpec
CONSTANTS
  Configs = {}
CHECK_DEADLOCK FALSE
