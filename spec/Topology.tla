------------------------------ MODULE Topology ------------------------------
(***************************************************************************)
(* The block structure of a hypnotoad grid, described three independent     *)
(* ways, and the build pipeline that produces it.                           *)
(*                                                                         *)
(*  1. Physical view: arcs of flux surface (regions) whose ends are targets *)
(*     or X-points, and at each X-point the local picture of a magnetic     *)
(*     saddle.  PhysUp is DERIVED from that picture; nothing is copied from *)
(*     the connection lists in the code.                                    *)
(*  2. hypnotoad view: ordered region list, nx per radial segment, ny per   *)
(*     region, guard cells at targets, the global index rectangle, x/y      *)
(*     groups.                                                              *)
(*  3. BOUT++ view: the adjacency that ixseps1/2, jyseps*, ny_inner and      *)
(*     y_boundary_guards MEAN to BOUT++ (doc/grid-file.rst, BoutMesh        *)
(*     topology rules and the loader's index repairs).                      *)
(*                                                                         *)
(* Pipeline actions (one per public step of the code):                      *)
(*   MakeRegions   Equilibrium.makeRegions: regions, segments, connections  *)
(*   MakeMesh      Mesh.__init__/BoutMesh.__init__: numbering, index ranges, *)
(*                 x and y groups                                           *)
(*   WriteFile     BoutMesh.writeGridfile: topology integers, theta          *)
(***************************************************************************)
EXTENDS Integers, Sequences, FiniteSets, TLC

IL == "inner_lower_divertor"
OL == "outer_lower_divertor"
IU == "inner_upper_divertor"
OU == "outer_upper_divertor"
CO == "core"
IC == "inner_core"
OC == "outer_core"
CI == "circular"
NoReg == "none"

Topos == {"LSN", "USN", "CDN", "LDN", "UDN", "CDN_UO", "LDN_UO", "UDN_UO", "CORE", "LIM", "XPT"}
Base(t) == CASE t = "CDN_UO" -> "CDN" [] t = "LDN_UO" -> "LDN" [] t = "UDN_UO" -> "UDN" [] OTHER -> t
IsUO(t) == t \in {"CDN_UO", "LDN_UO", "UDN_UO"}
IsDN(t) == Base(t) \in {"CDN", "LDN", "UDN"}
IsSN(t) == t \in {"LSN", "USN"}

--------------------------------------------------------------------------
(* 1. Physical view *)

\* An X-point: two arcs arrive (in the direction of increasing y), two leave.
\* Lin/Lout are the private-flux pair, Cin/Cout the pair on the other side.
\* sep = number of radial segments inside this X-point's separatrix.
\* y runs clockwise in the poloidal plane starting from the inner lower target.
LowerX(sep, cin, cout) == [Lin |-> IL, Lout |-> OL, Cin |-> cin, Cout |-> cout, sep |-> sep]
UpperX(sep, cin, cout) == [Lin |-> OU, Lout |-> IU, Cin |-> cin, Cout |-> cout, sep |-> sep]

XPoints(t) ==
  CASE Base(t) = "LSN" -> {LowerX(1, CO, CO)}
    [] Base(t) = "USN" -> {UpperX(1, CO, CO)}
    [] Base(t) = "CDN" -> {LowerX(1, OC, IC), UpperX(1, IC, OC)}
    [] Base(t) = "LDN" -> {LowerX(1, OC, IC), UpperX(2, IC, OC)}
    [] Base(t) = "UDN" -> {LowerX(2, OC, IC), UpperX(1, IC, OC)}
    [] Base(t) = "XPT" -> {[Lin |-> IL, Lout |-> OL, Cin |-> OU, Cout |-> IU, sep |-> 1]}
    [] OTHER -> {}

Closed(t) == IF t = "CORE" THEN {CI} ELSE {}       \* arcs joined to themselves

NSeg(t) == CASE Base(t) \in {"LDN", "UDN"} -> 3 [] Base(t) \in {"CORE", "LIM"} -> 1 [] OTHER -> 2

\* the saddle rule: inside the separatrix private pair and core pair stay apart,
\* outside it a leg continues into the core-side arc and vice versa
PhysUp(t, r, s) ==
  IF r \in Closed(t) THEN r
  ELSE IF \E X \in XPoints(t) : X.Lin = r
    THEN LET X == CHOOSE X \in XPoints(t) : X.Lin = r IN IF s < X.sep THEN X.Lout ELSE X.Cout
  ELSE IF \E X \in XPoints(t) : X.Cin = r
    THEN LET X == CHOOSE X \in XPoints(t) : X.Cin = r IN IF s < X.sep THEN X.Cout ELSE X.Lout
  ELSE NoReg

PhysDown(t, r, s) ==
  IF r \in Closed(t) THEN r
  ELSE IF \E X \in XPoints(t) : X.Lout = r
    THEN LET X == CHOOSE X \in XPoints(t) : X.Lout = r IN IF s < X.sep THEN X.Lin ELSE X.Cin
  ELSE IF \E X \in XPoints(t) : X.Cout = r
    THEN LET X == CHOOSE X \in XPoints(t) : X.Cout = r IN IF s < X.sep THEN X.Cin ELSE X.Lin
  ELSE NoReg

\* region kinds as hypnotoad names them
Kind(t, r) ==
  LET up == PhysUp(t, r, NSeg(t) - 1) # NoReg \/ PhysUp(t, r, 0) # NoReg
      dn == PhysDown(t, r, NSeg(t) - 1) # NoReg \/ PhysDown(t, r, 0) # NoReg
  IN IF r \in Closed(t) THEN "closed"
     ELSE IF dn /\ up THEN "X.X" ELSE IF up THEN "wall.X" ELSE IF dn THEN "X.wall" ELSE "wall.wall"

--------------------------------------------------------------------------
(* 2. hypnotoad view *)

\* documented region order (createRegionObjects): clockwise from the inner lower
\* target; with start_at_upper_outer from the outer upper target
Order(t) ==
  CASE t = "LSN" -> <<IL, CO, OL>>
    [] t = "USN" -> <<OU, CO, IU>>
    [] t \in {"CDN", "LDN", "UDN"} -> <<IL, IC, IU, OU, OC, OL>>
    [] IsUO(t) -> <<OU, OC, OL, IL, IC, IU>>
    [] t = "XPT" -> <<IL, IU, OU, OL>>
    [] OTHER -> <<CI>>

NR(t) == Len(Order(t))
Pos(t, name) == IF name = NoReg THEN 0 ELSE CHOOSE i \in 1..NR(t) : Order(t)[i] = name

\* connection table in index form: conn[r][s+1] = index of the region above, 0 = boundary
PhysConn(t) == [r \in 1..NR(t) |-> [s1 \in 1..NSeg(t) |-> Pos(t, PhysUp(t, Order(t)[r], s1 - 1))]]

SumSeq(q, n) == LET S[k \in 0..n] == IF k = 0 THEN 0 ELSE S[k - 1] + q[k] IN S[n]

\* A layout: everything the index code derives from (order, nx, ny, G, conn)
HasLower(conn, r) == \E r2 \in 1..Len(conn) : \E s1 \in 1..Len(conn[r2]) : conn[r2][s1] = r
HasUpper(conn, r) == \E s1 \in 1..Len(conn[r]) : conn[r][s1] # 0
NyG(conn, ny, G, r) == ny[r] + (IF HasLower(conn, r) THEN 0 ELSE G) + (IF HasUpper(conn, r) THEN 0 ELSE G)
Y0(conn, ny, G, r) == SumSeq([k \in 1..Len(ny) |-> NyG(conn, ny, G, k)], r - 1)
X0(nx, s1) == SumSeq(nx, s1 - 1)
NxTot(nx) == SumSeq(nx, Len(nx))
NyTot(conn, ny, G) == SumSeq([k \in 1..Len(ny) |-> NyG(conn, ny, G, k)], Len(ny))

\* index rectangle of region r, segment s1 (1-based): [x0, x1) x [y0, y1)
Rect(conn, nx, ny, G, r, s1) ==
  <<X0(nx, s1), X0(nx, s1) + nx[s1], Y0(conn, ny, G, r), Y0(conn, ny, G, r) + NyG(conn, ny, G, r)>>

RegOfY(conn, ny, G, y) == CHOOSE r \in 1..Len(ny) : Y0(conn, ny, G, r) <= y /\ y < Y0(conn, ny, G, r) + NyG(conn, ny, G, r)
SegOfX(nx, x) == CHOOSE s1 \in 1..Len(nx) : X0(nx, s1) <= x /\ x < X0(nx, s1) + nx[s1]

\* adjacency of cells in the global rectangle implied by a layout: the y index above (x, y), -1 at a boundary
LayoutUp(conn, nx, ny, G, x, y) ==
  LET r == RegOfY(conn, ny, G, y)
      s1 == SegOfX(nx, x)
  IN IF y + 1 < Y0(conn, ny, G, r) + NyG(conn, ny, G, r) THEN y + 1
     ELSE IF conn[r][s1] = 0 THEN -1 ELSE Y0(conn, ny, G, conn[r][s1])

\* y groups: maximal chains of the `upper' relation of one radial segment.  Open chains
\* start at the region without a lower neighbour; a closed chain starts at its first
\* member in region order (the first core cell in y-index order).
ChainFrom(conn, s1, r0) ==
  LET F[n \in 0..Len(conn)] ==
        IF n = 0 THEN <<r0>>
        ELSE LET q == F[n - 1]
                 nxt == conn[q[Len(q)]][s1]
             IN IF nxt = 0 \/ (\E k \in 1..Len(q) : q[k] = nxt) THEN q ELSE Append(q, nxt)
  IN F[Len(conn)]
LowerOf(conn, s1, r) == {r2 \in 1..Len(conn) : conn[r2][s1] = r}
ReachableFromOpenStart(conn, s1, r) ==
  \E r0 \in 1..Len(conn) : LowerOf(conn, s1, r0) = {} /\ \E k \in 1..Len(ChainFrom(conn, s1, r0)) : ChainFrom(conn, s1, r0)[k] = r
YGroupsOfSeg(conn, s1) ==
    {ChainFrom(conn, s1, r0) : r0 \in {r \in 1..Len(conn) : LowerOf(conn, s1, r) = {}}}
    \cup
    {ChainFrom(conn, s1, r0) : r0 \in {r \in 1..Len(conn) :
          /\ ~ReachableFromOpenStart(conn, s1, r)
          /\ \A k \in 1..Len(ChainFrom(conn, s1, r)) : ChainFrom(conn, s1, r)[k] >= r}}
IsPeriodic(conn, s1, chain) == conn[chain[Len(chain)]][s1] = chain[1]

--------------------------------------------------------------------------
(* 3. BOUT++ view *)

\* T = [nx, ny, ix1, ix2, j11, j21, nyInner, j12, j22, G]; ny excludes guard cells.

\* the index repairs BOUT++'s loader applies before using the indices (BoutMesh::load)
LoadOK(T) == ~(T.j12 >= T.ny /\ (IF T.j22 >= T.ny THEN T.ny - 1 ELSE T.j22) < T.j12)
Load(T) ==
  LET a == [T EXCEPT !.j11 = IF T.j11 < -1 THEN -1 ELSE T.j11]
      b == [a EXCEPT !.j21 = IF a.j21 < a.j11 THEN a.j11 + 1 ELSE a.j21]
      c == [b EXCEPT !.j12 = IF b.j12 < b.j21 THEN b.j21 ELSE b.j12]
      d == [c EXCEPT !.j22 = IF c.j22 >= c.ny THEN c.ny - 1 ELSE c.j22]
      e == [d EXCEPT !.j22 = IF d.j22 < d.j12 THEN d.j12 ELSE d.j22]
  IN e

IntsOrdered(T) == -1 <= T.j11 /\ T.j11 <= T.j21 /\ T.j21 <= T.j12 /\ T.j12 <= T.j22

BoutSN(T) == T.j21 = T.j12
\* neighbour in +y of BOUT++ cell (x, y), y in 0..ny-1 without guard cells; -1 = target
BoutUp(T, x, y) ==
  IF BoutSN(T) THEN
         IF x < T.ix1 /\ y = T.j11 THEN T.j22 + 1          \* private flux: leg -> leg
    ELSE IF x < T.ix1 /\ y = T.j22 THEN T.j11 + 1          \* core closes on itself
    ELSE IF y = T.ny - 1 THEN -1 ELSE y + 1
  ELSE   IF x < T.ix1 /\ y = T.j11 THEN T.j22 + 1          \* PFR of the first X-point
    ELSE IF x < T.ix1 /\ y = T.j22 THEN T.j11 + 1          \* core, round the first X-point
    ELSE IF x < T.ix2 /\ y = T.j21 THEN T.j12 + 1          \* core, round the second X-point
    ELSE IF x < T.ix2 /\ y = T.j12 THEN T.j21 + 1          \* PFR of the second X-point
    ELSE IF y = T.nyInner - 1 \/ y = T.ny - 1 THEN -1 ELSE y + 1

\* a neighbour index ny (one past the end) can arise from j22 = ny - 1 with no outer leg: treat as wrap error
NFile(T) == IF BoutSN(T) THEN T.ny + 2 * T.G ELSE T.ny + 4 * T.G
FileY(T, y) == IF BoutSN(T) \/ y < T.nyInner THEN y + T.G ELSE y + 3 * T.G
\* file index -> <<kind, bout y>>; kind "cell" | "lowguard" (before a target start) | "upguard" (after a target end)
FileCell(T, yf) ==
  IF BoutSN(T) THEN
       IF yf < T.G THEN <<"lowguard", 0>> ELSE IF yf >= T.ny + T.G THEN <<"upguard", T.ny - 1>> ELSE <<"cell", yf - T.G>>
  ELSE IF yf < T.G THEN <<"lowguard", 0>>
       ELSE IF yf < T.nyInner + T.G THEN <<"cell", yf - T.G>>
       ELSE IF yf < T.nyInner + 2 * T.G THEN <<"upguard", T.nyInner - 1>>
       ELSE IF yf < T.nyInner + 3 * T.G THEN <<"lowguard", T.nyInner>>
       ELSE IF yf < T.ny + 3 * T.G THEN <<"cell", yf - 3 * T.G>>
       ELSE <<"upguard", T.ny - 1>>
\* adjacency on file indices (guard cells included) that the integers mean to BOUT++
BoutUpFile(T, x, yf) ==
  LET c == FileCell(T, yf) IN
  IF c[1] = "lowguard" THEN yf + 1
  ELSE IF c[1] = "upguard" THEN (IF yf + 1 < NFile(T) /\ FileCell(T, yf + 1)[1] = "upguard" THEN yf + 1 ELSE -1)
  ELSE LET u == BoutUp(T, x, c[2]) IN
       IF u = -1 THEN (IF T.G > 0 THEN yf + 1 ELSE -1) ELSE FileY(T, u)

\* what the documentation prescribes for the integers, given the layout
SpecIx(t, nx) ==
  CASE t = "CORE" -> <<NxTot(nx), NxTot(nx)>>
    [] t = "LIM" -> <<-1, -1>>
    [] IsSN(t) -> <<nx[1], NxTot(nx)>>
    [] Base(t) \in {"CDN", "XPT"} -> <<nx[1], nx[1]>>
    \* ixseps1 belongs to the X-point met first and last in y (jyseps1_1 / jyseps2_2),
    \* ixseps2 to the one met in the middle (jyseps2_1 / jyseps1_2)
    [] t \in {"LDN", "UDN_UO"} -> <<nx[1], nx[1] + nx[2]>>
    [] t \in {"UDN", "LDN_UO"} -> <<nx[1] + nx[2], nx[1]>>

\* set of admissible integer records (single null: the middle index is free between the X-point indices)
SpecIntsSet(t, nx, ny, G) ==
  LET n == SumSeq(ny, Len(ny))
      ix == SpecIx(t, nx)
      mk(j11, j21, nyi, j12, j22) == [nx |-> NxTot(nx), ny |-> n, ix1 |-> ix[1], ix2 |-> ix[2], j11 |-> j11, j21 |-> j21,
                                       nyInner |-> nyi, j12 |-> j12, j22 |-> j22, G |-> G]
  IN CASE t \in {"CORE", "LIM"} -> {mk(-1, m, nyi, m, j22) : m \in -1..(n - 1), nyi \in {0, n}, j22 \in {n - 1, n}}
       [] IsSN(t) -> {mk(ny[1] - 1, m, nyi, m, ny[1] + ny[2] - 1) : m \in (ny[1] - 1)..(ny[1] + ny[2] - 1), nyi \in {0}}
       [] t = "XPT" -> {mk(ny[1] - 1, ny[1] - 1, ny[1] + ny[2], ny[1] + ny[2] + ny[3] - 1, ny[1] + ny[2] + ny[3] - 1)}
       [] OTHER -> {mk(ny[1] - 1, ny[1] + ny[2] - 1, ny[1] + ny[2] + ny[3], ny[1] + ny[2] + ny[3] + ny[4] - 1,
                       ny[1] + ny[2] + ny[3] + ny[4] + ny[5] - 1)}

\* theta in units of dy/2 at the centre of file cell yf, as documented: 0 at the start of the core,
\* increasing by dy per cell round the core, legs continuous with the SOL they belong to.
\* Defined through the SOL chain (outermost radial segment); None (-99999) where undocumented.
NoTheta == -99999
CoreStart(t, ny, r) ==      \* number of core cells before core region r going round from the first core region in order
  LET cores == {k \in 1..NR(t) : Kind(t, Order(t)[k]) \in {"X.X", "closed"}} IN
  IF Base(t) \in {"CDN", "LDN", "UDN"} THEN (IF r = CHOOSE k \in cores : \A k2 \in cores : k <= k2 THEN 0
                                             ELSE ny[CHOOSE k \in cores : \A k2 \in cores : k <= k2])
  ELSE 0
Theta2(t, conn, nx, ny, G, yf) ==
  LET r == RegOfY(conn, ny, G, yf)
      k == yf - Y0(conn, ny, G, r)              \* cell number inside the region, guard cells included
      kind == Kind(t, Order(t)[r])
      sl == Len(nx)
  IN IF t = "XPT" THEN NoTheta
     ELSE IF t = "LIM" THEN 2 * (k - G) + 1
     ELSE IF kind \in {"X.X", "closed"} THEN 2 * (CoreStart(t, ny, r) + k) + 1
     ELSE IF kind = "wall.X" THEN 2 * CoreStart(t, ny, conn[r][sl]) - 2 * (NyG(conn, ny, G, r) - k) + 1
     ELSE LET c == CHOOSE c \in 1..Len(conn) : conn[c][sl] = r IN 2 * (CoreStart(t, ny, c) + ny[c]) + 2 * k + 1

--------------------------------------------------------------------------
(* Mirror (C16): reflection in the midplane reverses y and exchanges lower/upper *)
MirrorName(n) == CASE n = IL -> IU [] n = IU -> IL [] n = OL -> OU [] n = OU -> OL [] OTHER -> n
MirrorTopo(t) == CASE t = "LSN" -> "USN" [] t = "USN" -> "LSN" [] t = "LDN" -> "UDN" [] t = "UDN" -> "LDN" [] OTHER -> t
\* reflecting a clockwise path gives an anticlockwise one; reversing it gives the clockwise order of
\* the mirrored machine.  In a double null the two index ranges [0, ny_inner) and [ny_inner, ny)
\* are reversed separately (inner stays inner).
MirrorRegion(t, i) == IF IsDN(t) THEN (IF i <= 3 THEN 4 - i ELSE 10 - i) ELSE NR(t) + 1 - i

--------------------------------------------------------------------------
(* The pipeline as a state machine *)
CONSTANT Configs      \* set of [topo, nx, ny, G]; nx has NSeg(topo) entries, ny has NR(topo) entries

VARIABLES cfg, stage, conn, rects, ygroups, ints

tvars == <<cfg, stage, conn, rects, ygroups, ints>>

TInit ==
  /\ cfg \in Configs
  /\ stage = "start" /\ conn = <<>> /\ rects = <<>> /\ ygroups = {} /\ ints = {}

MakeRegions ==
  /\ stage = "start"
  /\ conn' = PhysConn(cfg.topo)
  /\ stage' = "regions"
  /\ UNCHANGED <<cfg, rects, ygroups, ints>>

MakeMesh ==
  /\ stage = "regions"
  /\ rects' = [r \in 1..NR(cfg.topo) |-> [s1 \in 1..NSeg(cfg.topo) |-> Rect(conn, cfg.nx, cfg.ny, cfg.G, r, s1)]]
  /\ ygroups' = [s1 \in 1..NSeg(cfg.topo) |-> YGroupsOfSeg(conn, s1)]
  /\ stage' = "mesh"
  /\ UNCHANGED <<cfg, conn, ints>>

WriteFile ==
  /\ stage = "mesh"
  /\ ints' = SpecIntsSet(cfg.topo, cfg.nx, cfg.ny, cfg.G)
  /\ stage' = "file"
  /\ UNCHANGED <<cfg, conn, rects, ygroups>>

Finished == stage = "file" /\ UNCHANGED tvars

TNext == MakeRegions \/ MakeMesh \/ WriteFile \/ Finished
TSpec == TInit /\ [][TNext]_tvars

--------------------------------------------------------------------------
(* Theorems checked by TLC for every configuration of the box (C08) *)

AfterRegions == stage \in {"regions", "mesh", "file"}
AfterMesh == stage \in {"mesh", "file"}

\* connections are symmetric and join segments of the same radial index (equal nx)
ConnSymmetric ==
  AfterRegions =>
    \A r \in 1..NR(cfg.topo) : \A s \in 0..(NSeg(cfg.topo) - 1) :
      LET u == PhysUp(cfg.topo, Order(cfg.topo)[r], s) IN
        u # NoReg => PhysDown(cfg.topo, u, s) = Order(cfg.topo)[r]

\* every region is a target end or not uniformly over its segments (needed for a rectangular block)
GuardsUniform ==
  AfterRegions =>
    \A r \in 1..NR(cfg.topo) :
      /\ (\A s1 \in 1..NSeg(cfg.topo) : conn[r][s1] = 0) \/ (\A s1 \in 1..NSeg(cfg.topo) : conn[r][s1] # 0)
      /\ (\A s1 \in 1..NSeg(cfg.topo) : LowerOf(conn, s1, r) = {}) \/ (\A s1 \in 1..NSeg(cfg.topo) : LowerOf(conn, s1, r) # {})

\* the rectangles tile the global index rectangle exactly once
Tiling ==
  AfterMesh =>
    \A x \in 0..(NxTot(cfg.nx) - 1) : \A y \in 0..(NyTot(conn, cfg.ny, cfg.G) - 1) :
      Cardinality({<<r, s1>> \in (1..NR(cfg.topo)) \X (1..NSeg(cfg.topo)) :
                      /\ rects[r][s1][1] <= x /\ x < rects[r][s1][2]
                      /\ rects[r][s1][3] <= y /\ y < rects[r][s1][4]}) = 1

\* the integers the documentation prescribes, read with BOUT++'s meaning (after the loader's
\* repairs), give exactly the adjacency of the layout; they are ordered and the loader keeps them
AdjacencyAgrees ==
  stage = "file" =>
    \A T \in ints :
      /\ LoadOK(T)
      /\ NFile(Load(T)) = NyTot(conn, cfg.ny, cfg.G) \/ cfg.topo = "CORE"
      /\ \A x \in 0..(NxTot(cfg.nx) - 1) : \A y \in 0..(NyTot(conn, cfg.ny, cfg.G) - 1) :
           IF cfg.topo = "CORE"
             THEN LayoutUp(conn, cfg.nx, cfg.ny, cfg.G, x, y) = BoutUp(Load(T), x, y)
             ELSE LayoutUp(conn, cfg.nx, cfg.ny, cfg.G, x, y) = BoutUpFile(Load(T), x, y)

SpecIntsOrdered == stage = "file" => \A T \in ints : (cfg.topo \in {"CORE", "LIM"} \/ IntsOrdered(T)) /\ (IntsOrdered(T) => Load(T) = [T EXCEPT !.j22 = IF T.j22 >= T.ny THEN T.ny - 1 ELSE T.j22])

\* every region belongs to exactly one y group per segment; closed groups start at their first member
YGroupsPartition ==
  AfterMesh =>
    \A s1 \in 1..NSeg(cfg.topo) : \A r \in 1..NR(cfg.topo) :
      Cardinality({g \in ygroups[s1] : \E k \in 1..Len(g) : g[k] = r}) = 1

\* theta is continuous along the SOL chains and spans exactly the core cells on closed surfaces
ThetaContinuous ==
  (stage = "file" /\ cfg.topo \notin {"XPT", "LIM"}) =>
    LET sl == NSeg(cfg.topo)
        n == NyTot(conn, cfg.ny, cfg.G)
        th(y) == Theta2(cfg.topo, conn, cfg.nx, cfg.ny, cfg.G, y)
    IN \A y \in 0..(n - 1) :
         LET u == LayoutUp(conn, cfg.nx, cfg.ny, cfg.G, NxTot(cfg.nx) - 1, y) IN
           (u # -1 /\ cfg.topo # "CORE") => th(u) = th(y) + 2

\* mirror: the reflected machine's connection table is the reflected table
MirrorConn ==
  AfterRegions =>
    LET t == cfg.topo  m == MirrorTopo(cfg.topo) IN
    (~IsUO(t) /\ t \notin {"XPT"}) =>
      \A r \in 1..NR(t) : \A s \in 0..(NSeg(t) - 1) :
        LET u == PhysUp(t, Order(t)[r], s) IN
          \* r -> u in t  <=>  mirror(u) -> mirror(r) in m, and positions reverse
          /\ (u # NoReg => PhysUp(m, MirrorName(u), s) = MirrorName(Order(t)[r]))
          /\ Order(m)[MirrorRegion(t, r)] = MirrorName(Order(t)[r])
=============================================================================
