SPECIFICATION MCSpec
CONSTANTS
  Configs = {}
  Tier = "small"
INVARIANT LinearExactX
INVARIANT LinearExactY
CHECK_DEADLOCK FALSE
