----------------------------- MODULE Lifecycle -----------------------------
(***************************************************************************)
(* The public life cycle of hypnotoad objects in one interpreter (C12, C14, *)
(* C15): build an equilibrium from caller arrays, build a mesh, compute      *)
(* positions, redistribute points (non-orthogonal), compute geometry, write. *)
(* The GUI drives exactly these calls in whatever order the user clicks.     *)
(*                                                                         *)
(* Content of a written file is abstracted to a key: the input, the state    *)
(* of the caller's arrays when the equilibrium was built, the options, and   *)
(* the non-orthogonal settings the positions / geometry were computed for.   *)
(*                                                                         *)
(* Mode = "Intended": the design the properties describe.                    *)
(* Mode = "AsFound":  two behaviours of the code as first found, kept so     *)
(*   that TLC exhibits the histories that break the properties:              *)
(*   - sign/scale options modify the caller's arrays in place;               *)
(*   - redistributePoints leaves previously computed positions in place and  *)
(*     geometry() only recomputes positions when there are none.             *)
(***************************************************************************)
EXTENDS Integers, Sequences, FiniteSets, TLC

CONSTANTS Inputs,        \* caller array sets
          EqOpts,        \* option sets for the equilibrium; SignOpts \subseteq EqOpts modify/scale the input
          SignOpts,
          Settings,      \* non-orthogonal settings
          DefaultSetting,
          MaxFiles, MaxSteps,
          Mode

VARIABLES arr,      \* arr[i] \in {"orig", "modified"}: state of the caller's arrays
          eq,       \* "none" | [input, opts, arrAtBuild]
          mesh,     \* "none" | [nn: settings in force, pos: settings the positions were computed for | "none",
                    \*           geo: settings the geometry was computed for | "none", ngeom]
          files,    \* sequence of keys
          last,     \* outcome of the last action: "ok" | "refused"
          steps

vars == <<arr, eq, mesh, files, last, steps>>
None == "none"
NoObj == [k |-> "none"]

Init == /\ arr = [i \in Inputs |-> "orig"] /\ eq = NoObj /\ mesh = NoObj /\ files = <<>> /\ last = "ok" /\ steps = 0

Step == steps < MaxSteps /\ steps' = steps + 1

BuildEq(i, o) ==
  /\ Step
  /\ eq' = [k |-> "eq", input |-> i, opts |-> o, arrAtBuild |-> arr[i]]
  /\ arr' = IF Mode = "AsFound" /\ o \in SignOpts THEN [arr EXCEPT ![i] = "modified"] ELSE arr
  /\ mesh' = NoObj /\ last' = "ok"
  /\ UNCHANGED files

BuildMesh ==
  /\ Step /\ eq.k # "none"
  /\ mesh' = [k |-> "mesh", orth |-> (eq.opts = "orth"), nn |-> DefaultSetting, pos |-> None, geo |-> None, ngeom |-> 0]
  /\ last' = "ok"
  /\ UNCHANGED <<arr, eq, files>>

CalculateRZ ==
  /\ Step /\ mesh.k # "none"
  /\ mesh' = [mesh EXCEPT !.pos = mesh.nn]
  /\ last' = "ok"
  /\ UNCHANGED <<arr, eq, files>>

Redistribute(s) ==
  /\ Step /\ mesh.k # "none"
  /\ IF mesh.orth
       THEN last' = "refused" /\ UNCHANGED mesh           \* nothing to redistribute on an orthogonal grid
       ELSE /\ mesh' = [mesh EXCEPT !.nn = s,
                               !.pos = IF Mode = "AsFound" THEN mesh.pos ELSE None,     \* intended: positions are stale, recompute
                               !.geo = IF Mode = "AsFound" THEN mesh.geo ELSE None]
            /\ last' = "ok"
  /\ UNCHANGED <<arr, eq, files>>

\* geometry(): computes positions if there are none, then the geometry from the positions.
\* (A second geometry() on the same mesh may be refused by the code; refusal is an allowed outcome.)
Geometry ==
  /\ Step /\ mesh.k # "none"
  /\ \/ /\ LET p == IF mesh.pos = None THEN mesh.nn ELSE mesh.pos IN
             mesh' = [mesh EXCEPT !.pos = p, !.geo = p, !.ngeom = mesh.ngeom + 1]
        /\ last' = "ok"
     \/ /\ mesh.ngeom >= 1 /\ last' = "refused" /\ UNCHANGED mesh
  /\ UNCHANGED <<arr, eq, files>>

Write ==
  /\ Step /\ mesh.k # "none" /\ mesh.geo # None /\ Len(files) < MaxFiles
  /\ files' = Append(files, [input |-> eq.input, opts |-> eq.opts, arrAtBuild |-> eq.arrAtBuild, nonorth |-> mesh.geo, wanted |-> mesh.nn])
  /\ last' = "ok"
  /\ UNCHANGED <<arr, eq, mesh>>

Next == \/ \E i \in Inputs : \E o \in EqOpts : BuildEq(i, o)
        \/ BuildMesh \/ CalculateRZ \/ Geometry \/ Write
        \/ \E s \in Settings : Redistribute(s)

Spec == Init /\ [][Next]_vars

--------------------------------------------------------------------------
\* C14: building an equilibrium does not modify the caller's arrays
CallerArraysUnchanged == \A i \in Inputs : arr[i] = "orig"
\* C14: a file is a function of (input, options, settings) only: never built from arrays an earlier build changed
Deterministic == \A k \in 1..Len(files) : files[k].arrAtBuild = "orig"
\* C15: whatever the history, positions and geometry are those of the settings in force
Fresh == \A k \in 1..Len(files) : files[k].nonorth = files[k].wanted
GeometryFresh == (mesh.k # "none" /\ mesh.geo # None) => (mesh.geo = mesh.nn /\ mesh.pos = mesh.nn)
=============================================================================
