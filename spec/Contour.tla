------------------------------ MODULE Contour ------------------------------
(***************************************************************************)
(* Index bookkeeping of a PsiContour (C11, C10, C15): the list of points,   *)
(* startInd / endInd (Python semantics: endInd may be negative = counted     *)
(* from the end), and the procedure MeshRegion.addPointAtWallToContours /    *)
(* _find_intersection that puts a point on the wall and makes it the start   *)
(* or end of the in-domain part of the contour.                              *)
(*                                                                         *)
(* A contour is abstracted to the poloidal positions of its points along one *)
(* flux surface (integers, 10 apart when first built); the wall crosses the  *)
(* surface at position wlo (lower target) and/or whi (upper target).         *)
(* Every operator below is a transcription of one method of the code, with   *)
(* 0-based Python indices kept as they are (Norm converts to 1-based).       *)
(***************************************************************************)
EXTENDS ContourOps

CONSTANTS MinN, MaxN,  \* contours of MinN..MaxN points (the cubic extrapolations of the real code need a few points beyond the reference)
          Radius,      \* wall_point_exclude_radius in position units
          Thick        \* thicknesses of the wall where the surface meets it: 0 = solid beyond the first crossing; t > 0 = a plate (baffle) of
                       \* thickness t, behind which the surface is inside the vessel again (a second crossing at distance t)

VARIABLES pts,         \* positions of the points
          sI, eI,      \* startInd, endInd as stored
          lw, uw,      \* is there a wall at the lower / upper end
          wlo, whi,    \* where the wall crosses (the face on the side of the domain)
          tlo, thi,    \* thickness of a plate-like wall there (0: solid)
          lidx, uidx,  \* lower_intersect_index, upper_intersect_index
          stage,       \* "findLower" | "findUpper" | "insertLower" | "insertUpper" | "done" | "failed"
          startLbl, endLbl,   \* ghost: position of the point the start / end index designated when the contour was built
          nlo, nhi            \* ghost: how many points temporaryExtend added

vars == <<pts, sI, eI, lw, uw, wlo, whi, tlo, thi, lidx, uidx, stage, startLbl, endLbl, nlo, nhi>>


--------------------------------------------------------------------------
Cur == Rec(pts, sI, eI)
Set(c) == pts' = c.p /\ sI' = c.s /\ eI' = c.e

--------------------------------------------------------------------------
(* _find_intersection *)
Step10 == 10
\* lower end: scan segments (i, i-1) from starti down to 1; first hit gives index i-1; otherwise extend below until (0, 1) is hit
LowerStart == IF uw THEN Len(pts) \div 2 ELSE Len(pts) - 1
\* a segment meets the wall where it crosses the front face or, for a plate, its back face; the scan runs from the domain outwards, so the
\* first hit is the face on the side of the domain (seeded change C11_lower_search_from_far_end scanned from the far end)
CrossLo(a, b) == Between(a, wlo, b) \/ (tlo > 0 /\ Between(a, wlo - tlo, b))
CrossHi(a, b) == Between(a, whi, b) \/ (thi > 0 /\ Between(a, whi + thi, b))
LowerHits == {i \in 1..LowerStart : CrossLo(pts[i + 1], pts[i])}          \* 0-based i: pts[i] is pts[i+1] 1-based
FindLower ==
  /\ stage = "findLower"
  /\ IF ~lw THEN stage' = "findUpper" /\ UNCHANGED <<pts, sI, eI, lidx, nlo>>
     ELSE IF LowerHits # {}
       THEN /\ lidx' = (CHOOSE i \in LowerHits : \A j \in LowerHits : j <= i) - 1
            /\ stage' = "findUpper" /\ UNCHANGED <<pts, sI, eI, nlo>>
     ELSE IF nlo >= 4 THEN stage' = "failed" /\ UNCHANGED <<pts, sI, eI, lidx, nlo>>     \* (max_extend = 100 in the code)
     ELSE \* temporaryExtend(extend_lower=1); then test (contour[1], contour[0]); lower_intersect_index stays 0
          /\ Set(PExtendLower(Cur, pts[1] - Step10)) /\ nlo' = nlo + 1
          /\ IF CrossLo(pts[1] - Step10, pts[1]) THEN lidx' = 0 /\ stage' = "findUpper"
             ELSE UNCHANGED <<lidx, stage>>
  /\ UNCHANGED <<lw, uw, wlo, whi, tlo, thi, uidx, startLbl, endLbl, nhi>>

UpperStart == IF lw THEN Len(pts) \div 2 ELSE 0
UpperHits == {i \in UpperStart..(Len(pts) - 2) : CrossHi(pts[i + 1], pts[i + 2])}
FindUpper ==
  /\ stage = "findUpper"
  /\ IF ~uw THEN stage' = "insertLower" /\ UNCHANGED <<pts, sI, eI, uidx, nhi>>
     ELSE IF nhi = 0 /\ UpperHits # {}
       THEN /\ uidx' = CHOOSE i \in UpperHits : \A j \in UpperHits : i <= j
            /\ stage' = "insertLower" /\ UNCHANGED <<pts, sI, eI, nhi>>
     ELSE IF nhi >= 4 THEN stage' = "failed" /\ UNCHANGED <<pts, sI, eI, uidx, nhi>>
     ELSE /\ Set(PExtendUpper(Cur, pts[Len(pts)] + Step10)) /\ nhi' = nhi + 1
          /\ IF CrossHi(pts[Len(pts)], pts[Len(pts)] + Step10) THEN uidx' = -2 /\ stage' = "insertLower"
             ELSE UNCHANGED <<uidx, stage>>
  /\ UNCHANGED <<lw, uw, wlo, whi, tlo, thi, lidx, startLbl, endLbl, nlo>>

--------------------------------------------------------------------------
(* addPointAtWallToContours *)
InsertLower ==
  /\ stage = "insertLower"
  /\ IF ~lw THEN UNCHANGED <<pts, sI, eI, lidx, uidx>>
     ELSE IF AbsV(At(pts, lidx) - wlo) < Radius
       THEN /\ pts' = PReplace(Cur, lidx, wlo).p /\ sI' = lidx /\ UNCHANGED <<eI, lidx, uidx>>
     ELSE IF AbsV(At(pts, lidx + 1) - wlo) < Radius
       THEN /\ pts' = PReplace(Cur, lidx + 1, wlo).p /\ sI' = lidx + 1 /\ lidx' = lidx + 1 /\ UNCHANGED <<eI, uidx>>
     ELSE LET c == PInsert(Cur, lidx + 1, wlo) IN
          /\ pts' = c.p /\ eI' = c.e /\ sI' = lidx + 1 /\ lidx' = lidx + 1
          /\ uidx' = IF uw /\ uidx >= 0 THEN uidx + 1 ELSE uidx
  /\ stage' = "insertUpper"
  /\ UNCHANGED <<lw, uw, wlo, whi, tlo, thi, startLbl, endLbl, nlo, nhi>>

InsertUpper ==
  /\ stage = "insertUpper"
  /\ IF ~uw THEN UNCHANGED <<pts, sI, eI, uidx>>
     ELSE IF AbsV(At(pts, uidx) - whi) < Radius
       THEN /\ pts' = PReplace(Cur, uidx, whi).p /\ eI' = uidx /\ UNCHANGED <<sI, uidx>>
     ELSE IF AbsV(At(pts, uidx + 1) - whi) < Radius
       THEN /\ pts' = PReplace(Cur, uidx + 1, whi).p /\ eI' = uidx + 1 /\ uidx' = uidx + 1 /\ UNCHANGED sI
     ELSE LET c == PInsert(Cur, uidx + 1, whi)
              u2 == IF uidx >= 0 THEN uidx + 1 ELSE uidx IN
          /\ pts' = c.p /\ sI' = c.s /\ eI' = u2 /\ uidx' = u2
  /\ stage' = "done"
  /\ UNCHANGED <<lw, uw, wlo, whi, tlo, thi, lidx, startLbl, endLbl, nlo, nhi>>

Next == FindLower \/ FindUpper \/ InsertLower \/ InsertUpper

--------------------------------------------------------------------------
(* initial configurations: a fresh contour of n points, 10 apart, with the start/end indices a region can hand down *)
Offsets == {1, 5, 9}        \* where in a 10-wide gap the wall crosses: 1 / 9 are within Radius of a point, 5 is not
Init ==
  \E n \in MinN..MaxN : \E l, u \in BOOLEAN : \E s0 \in {0, 1} : \E e0 \in {n - 1, n - 2, -1, -2} :
  \E gl \in -3..(n - 2) : \E gu \in 0..(n + 1) : \E ol, ou \in Offsets : \E tk \in Thick :
    /\ (l \/ u) /\ ~(l /\ u)             \* wall.X and X.wall; wall.wall does not occur in the supported topologies (and the code's
                                          \* scan start `len(contour // 2)' raises TypeError for it - recorded in DESIGN.md)
    /\ pts = [k \in 1..n |-> 10 * (k - 1)]
    /\ sI = s0 /\ eI = e0
    /\ lw = l /\ uw = u
    /\ wlo = IF l THEN 10 * gl + ol ELSE -1000
    /\ whi = IF u THEN 10 * gu + ou ELSE 1000
    /\ tlo = (IF l THEN tk ELSE 0) /\ thi = (IF u THEN tk ELSE 0)
    \* the in-domain part keeps at least four of the contour's points (with fewer the cubic extrapolation of the real code's
    \* FineContour.extend raises IndexError / ValueError: an explicit refusal, outside this model)
    /\ (l => 10 * gl + ol < At(pts, e0) - 30)
    /\ (u => 10 * gu + ou > At(pts, s0) + 30)
    /\ Norm(pts, s0) < Norm(pts, e0)
    /\ lidx = 0 /\ uidx = -2
    /\ stage = "findLower"
    /\ startLbl = At(pts, s0) /\ endLbl = At(pts, e0)
    /\ nlo = 0 /\ nhi = 0

Spec == Init /\ [][Next]_vars

--------------------------------------------------------------------------
(* properties *)
TypeOK == /\ Valid(pts, sI) /\ Valid(pts, eI) /\ Ordered(pts)
Done == stage = "done"
\* C11: after the procedure the start / end of the in-domain part is the wall point ...
TargetsAtWall == Done => ((lw => At(pts, sI) = wlo) /\ (uw => At(pts, eI) = whi))
\* ... the end that is not at a wall is still the point it was (an X-point, C10: region end points do not move) ...
OtherEndKept == Done => ((~lw => At(pts, sI) = startLbl) /\ (~uw => At(pts, eI) = endLbl))
\* ... every point strictly between them is inside the wall, every point outside them beyond it
InDomainBetweenTargets == Done =>
  \A k \in 1..Len(pts) :
    /\ (Norm(pts, sI) < k /\ k < Norm(pts, eI)) => ((lw => pts[k] > wlo) /\ (uw => pts[k] < whi))
    /\ (lw /\ k < Norm(pts, sI)) => pts[k] < wlo          \* (beyond the face on the domain side; behind a plate the surface re-enters the vessel)
    /\ (uw /\ k > Norm(pts, eI)) => pts[k] > whi
NeverFails == stage # "failed"
\* at most one point is removed by the `close to the wall' replacement, none otherwise
CountOK == Done => Len(pts) >= 3

=============================================================================
