SPECIFICATION TSpec
CONSTANTS
  NFine = 8
  NSet = {1}
  MaxSet = {1}
CHECK_DEADLOCK FALSE
