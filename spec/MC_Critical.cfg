SPECIFICATION Spec
CONSTANTS
  NO = 2
  NX = 2
INVARIANT ExactlyOnce
INVARIANT PrimaryIsNearestCentre
INVARIANT XOrderedByPsi
INVARIANT DecisionAsDeclared
CHECK_DEADLOCK FALSE
