SPECIFICATION TSpec
CONSTANTS
  NFine = 12
  NSet = {1}
  MaxSet = {1}
CHECK_DEADLOCK FALSE
