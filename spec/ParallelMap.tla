--------------------------- MODULE ParallelMap ---------------------------
(***************************************************************************)
(* hypnotoad.utils.parallel_map.ParallelMap: one parent (the caller of      *)
(* __call__), NW worker processes, a task queue and a result queue.         *)
(*                                                                         *)
(* One action per shared-state operation of the code:                       *)
(*   ParentPut       task_queue.put((i, function, args, kwargs))            *)
(*   WorkerTake(k)   task_queue.get() in worker_run                         *)
(*   WorkerDone(k)   function(...) returned; result_queue.put((i, result))  *)
(*   WorkerRaise(k)  function(...) raised                                   *)
(*   ParentGet       result_queue.get(); result[i] = this_result            *)
(*   ParentCheckTask task_queue.empty()                                     *)
(*   ParentCheckRes  result_queue.empty()                                   *)
(*   ParentReturn / ParentRaise   the call ends                             *)
(*   SerialStep      the np == 1 list comprehension                         *)
(* Local computation between two shared operations is folded into the       *)
(* earlier one (e.g. the scan for failed tasks after the last get).         *)
(*                                                                         *)
(* Mode = "Handled": a raising task is reported to the parent through the   *)
(* result queue and re-raised by __call__ (the repaired code).              *)
(* Mode = "AsIs": a raising task kills its worker and nothing is enqueued   *)
(* (the code as first found; kept so that TLC exhibits the hang).           *)
(***************************************************************************)
EXTENDS Integers, Sequences, FiniteSets, TLC

CONSTANTS MaxW,      \* largest number of workers in any configuration
          MaxT,      \* largest number of tasks in any call
          MaxC,      \* largest number of successive calls
          Configs,   \* set of [nw, nts, fail]: nw \in 0..MaxW (0 = serial mode),
                     \*   nts \in Seq(0..MaxT), fail \in Seq(SUBSET 1..MaxT), same length
          Mode,      \* "Handled" | "AsIs"
          QueueOrder \* "fifo": the result queue is one FIFO (the replay scheduler's fake queue);
                     \* "perproducer": FIFO per producing worker only - what multiprocessing.Queue
                     \* guarantees (each process has its own feeder thread writing to the pipe)

VARIABLES cfg,       \* the configuration of this behaviour (never changes)
          taskQ,     \* FIFO of [c, i]            (c is a ghost tag: the call that enqueued it)
          resQ,      \* sequence of [c, i, v, k]  v \in {"ok", "exc"}; k = producing worker (ghost)
          w,         \* w[k] = [st, c, i],  st \in {"idle", "run", "dead"}
          pc,        \* parent: "idle" "put" "get" "checkT" "checkR" "ret" "raise" "valerr" "serial" "shut"
          call,      \* number of the current call (0 before the first)
          nput, nget,
          res,       \* res[i] = None or the message stored at position i
          raisedIdx, \* index whose exception the parent is raising (0 = none)
          outcome    \* outcome[c] \in {"none", "ret", "raise", "valerr"}; outIdx below

vars == <<cfg, taskQ, resQ, w, pc, call, nput, nget, res, raisedIdx, outcome>>

None == [c |-> 0, i |-> 0, v |-> "none", k |-> 0]

NC      == Len(cfg.nts)
NT      == IF call \in 1..NC THEN cfg.nts[call] ELSE 0
FailOf(c) == cfg.fail[c] \cap (1..cfg.nts[c])
Workers == 1..cfg.nw
Serial  == cfg.nw = 0

PMin(S) == CHOOSE x \in S : \A y \in S : x <= y

TypeOK ==
  /\ pc \in {"idle", "put", "get", "checkT", "checkR", "ret", "raise", "valerr", "serial", "shut"}
  /\ call \in 0..MaxC
  /\ nput \in 0..MaxT /\ nget \in 0..MaxT
  /\ \A k \in Workers : w[k].st \in {"idle", "run", "dead"}

Init ==
  /\ cfg \in Configs
  /\ taskQ = <<>> /\ resQ = <<>>
  /\ w = [k \in 1..cfg.nw |-> [st |-> "idle", c |-> 0, i |-> 0]]
  /\ pc = "idle" /\ call = 0 /\ nput = 0 /\ nget = 0
  /\ res = [i \in 1..MaxT |-> None]
  /\ raisedIdx = 0
  /\ outcome = [c \in 1..Len(cfg.nts) |-> [o |-> "none", idx |-> 0]]

--------------------------------------------------------------------------
CallStart ==
  /\ pc = "idle" /\ call < NC
  /\ call' = call + 1
  /\ nput' = 0 /\ nget' = 0 /\ raisedIdx' = 0
  /\ res' = [i \in 1..MaxT |-> None]
  /\ pc' = IF Serial THEN (IF cfg.nts[call + 1] = 0 THEN "ret" ELSE "serial")
           ELSE IF cfg.nts[call + 1] = 0 THEN "checkT" ELSE "put"
  /\ UNCHANGED <<cfg, taskQ, resQ, w, outcome>>

\* np == 1: tasks are evaluated in order in the caller; the first failure propagates.
\* One step per task (the call of the task function).
SerialStep ==
  /\ pc = "serial"
  /\ LET i == nput + 1 IN
       IF i \in FailOf(call)
         THEN /\ pc' = "raise" /\ raisedIdx' = i /\ UNCHANGED <<nput, res>>
         ELSE /\ res' = [res EXCEPT ![i] = [c |-> call, i |-> i, v |-> "ok", k |-> 0]]
              /\ nput' = i /\ UNCHANGED raisedIdx
              /\ pc' = IF i = NT THEN "ret" ELSE "serial"
  /\ UNCHANGED <<cfg, taskQ, resQ, w, call, nget, outcome>>

ParentPut ==
  /\ pc = "put"
  /\ taskQ' = Append(taskQ, [c |-> call, i |-> nput + 1])
  /\ nput' = nput + 1
  /\ pc' = IF nput + 1 = NT THEN "get" ELSE "put"
  /\ UNCHANGED <<cfg, resQ, w, call, nget, res, raisedIdx, outcome>>

WorkerTake(k) ==
  /\ k \in Workers
  /\ w[k].st = "idle" /\ taskQ # <<>>
  /\ w' = [w EXCEPT ![k] = [st |-> "run", c |-> Head(taskQ).c, i |-> Head(taskQ).i]]
  /\ taskQ' = Tail(taskQ)
  /\ UNCHANGED <<cfg, resQ, pc, call, nput, nget, res, raisedIdx, outcome>>

WorkerDone(k) ==
  /\ k \in Workers
  /\ w[k].st = "run" /\ w[k].i \notin FailOf(w[k].c)
  /\ resQ' = Append(resQ, [c |-> w[k].c, i |-> w[k].i, v |-> "ok", k |-> k])
  /\ w' = [w EXCEPT ![k] = [st |-> "idle", c |-> 0, i |-> 0]]
  /\ UNCHANGED <<cfg, taskQ, pc, call, nput, nget, res, raisedIdx, outcome>>

WorkerRaise(k) ==
  /\ k \in Workers
  /\ w[k].st = "run" /\ w[k].i \in FailOf(w[k].c)
  /\ IF Mode = "AsIs"
       THEN /\ w' = [w EXCEPT ![k] = [st |-> "dead", c |-> 0, i |-> 0]]   \* uncaught: the process exits
            /\ UNCHANGED resQ
       ELSE /\ w' = [w EXCEPT ![k] = [st |-> "idle", c |-> 0, i |-> 0]]
            /\ resQ' = Append(resQ, [c |-> w[k].c, i |-> w[k].i, v |-> "exc", k |-> k])
  /\ UNCHANGED <<cfg, taskQ, pc, call, nput, nget, res, raisedIdx, outcome>>

\* result_queue.get(); result[i] = this_result.  After the last one the caller scans
\* the list for failed tasks (local) and either raises or goes on to the emptiness tests.
\* which queued results the next result_queue.get() may return
Eligible(n) == IF QueueOrder = "fifo" THEN n = 1
               ELSE \A m \in 1..(n - 1) : resQ[m].k # resQ[n].k
RemoveAt(q, n) == [j \in 1..(Len(q) - 1) |-> IF j < n THEN q[j] ELSE q[j + 1]]

ParentGetAt(n) ==
  /\ pc = "get" /\ n \in 1..Len(resQ) /\ Eligible(n)
  /\ LET m    == resQ[n]
         nres == [res EXCEPT ![m.i] = m]
         bad  == {i \in 1..NT : nres[i].v = "exc"}
     IN /\ resQ' = RemoveAt(resQ, n)
        /\ res'  = nres
        /\ nget' = nget + 1
        /\ IF nget + 1 = NT
             THEN IF bad # {} THEN pc' = "raise" /\ raisedIdx' = PMin(bad)
                              ELSE pc' = "checkT" /\ raisedIdx' = 0
             ELSE pc' = "get" /\ raisedIdx' = 0
  /\ UNCHANGED <<cfg, taskQ, w, call, nput, outcome>>

ParentGet == \E n \in 1..MaxT : ParentGetAt(n)

ParentCheckTask ==
  /\ pc = "checkT"
  /\ pc' = IF taskQ = <<>> THEN "checkR" ELSE "valerr"
  /\ UNCHANGED <<cfg, taskQ, resQ, w, call, nput, nget, res, raisedIdx, outcome>>

ParentCheckRes ==
  /\ pc = "checkR"
  /\ pc' = IF resQ = <<>> THEN "ret" ELSE "valerr"
  /\ UNCHANGED <<cfg, taskQ, resQ, w, call, nput, nget, res, raisedIdx, outcome>>

ParentReturn ==
  /\ pc = "ret"
  /\ outcome' = [outcome EXCEPT ![call] = [o |-> "ret", idx |-> 0]]
  /\ pc' = "idle"
  /\ UNCHANGED <<cfg, taskQ, resQ, w, call, nput, nget, res, raisedIdx>>

ParentRaise ==
  /\ pc \in {"raise", "valerr"}
  /\ outcome' = [outcome EXCEPT ![call] = [o |-> pc, idx |-> raisedIdx]]
  /\ pc' = "idle"
  /\ UNCHANGED <<cfg, taskQ, resQ, w, call, nput, nget, res, raisedIdx>>

\* __del__: terminate and join every worker
Shutdown ==
  /\ pc = "idle" /\ call = NC
  /\ pc' = "shut"
  /\ w' = [k \in Workers |-> [st |-> "dead", c |-> 0, i |-> 0]]
  /\ UNCHANGED <<cfg, taskQ, resQ, call, nput, nget, res, raisedIdx, outcome>>

Terminated == pc = "shut" /\ UNCHANGED vars

Parent == CallStart \/ SerialStep \/ ParentPut \/ ParentGet \/ ParentCheckTask
          \/ ParentCheckRes \/ ParentReturn \/ ParentRaise \/ Shutdown
Worker(k) == WorkerTake(k) \/ WorkerDone(k) \/ WorkerRaise(k)

Next == \/ CallStart \/ SerialStep \/ ParentPut \/ ParentGet \/ ParentCheckTask
        \/ ParentCheckRes \/ ParentReturn \/ ParentRaise \/ Shutdown
        \/ \E k \in 1..MaxW : WorkerTake(k)
        \/ \E k \in 1..MaxW : WorkerDone(k)
        \/ \E k \in 1..MaxW : WorkerRaise(k)
        \/ Terminated

Spec == Init /\ [][Next]_vars /\ WF_vars(Parent) /\ \A k \in 1..MaxW : WF_vars(Worker(k))

--------------------------------------------------------------------------
(* Properties (C13) *)

\* value-for-value equality with the serial map when the call returns
Positions ==
  pc = "ret" => \A i \in 1..NT : res[i].c = call /\ res[i].i = i /\ res[i].v = "ok"

\* a result consumed during call c was produced for call c
NoStale == \A i \in 1..MaxT : res[i] # None => res[i].c = call

\* every finished call ended as the serial map would: returns iff no task fails,
\* otherwise raises the exception of the first failing task in list order
SerialOutcome ==
  \A c \in 1..NC : outcome[c].o # "none" =>
      IF FailOf(c) = {} THEN outcome[c] = [o |-> "ret", idx |-> 0]
                        ELSE outcome[c] = [o |-> "raise", idx |-> PMin(FailOf(c))]

\* nothing is left behind for the next call
CleanBetweenCalls == pc = "idle" => taskQ = <<>> /\ resQ = <<>>

\* every call eventually ends (never blocks forever)
Termination == <>(\A c \in 1..NC : outcome[c].o # "none")

\* each task is executed exactly once per call: at any time a task of the current
\* call is in exactly one place
TaskOnce ==
  (Mode = "Handled" /\ pc \in {"put", "get"}) =>
    \A i \in 1..nput :
      Cardinality({n \in 1..Len(taskQ) : taskQ[n] = [c |-> call, i |-> i]})
      + Cardinality({k \in Workers : w[k].st = "run" /\ w[k].c = call /\ w[k].i = i})
      + Cardinality({n \in 1..Len(resQ) : resQ[n].c = call /\ resQ[n].i = i})
      + (IF res[i] # None THEN 1 ELSE 0) = 1
=============================================================================
