SPECIFICATION Spec
CONSTANTS
  MaxW = 2
  MaxT = 3
  MaxC = 1
  Mode = "AsIs"
  QueueOrder = "perproducer"
  Configs <- AsIsConfigs
INVARIANT TypeOK
INVARIANT SerialOutcome
PROPERTY Termination
CHECK_DEADLOCK TRUE
