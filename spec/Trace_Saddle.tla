---------------------------- MODULE Trace_Saddle ----------------------------
(***************************************************************************)
(* C->S for Saddle.tla: the real Equilibrium.findSaddlePoint called on a     *)
(* stub equilibrium whose psi is the quadratic of the trace, with the box in  *)
(* any position and orientation in the (R, Z) plane.  The specification is    *)
(* run to its end for the trace's form and centre, then the recorded          *)
(* outcome, pass count and answer (box coordinates, thousandths of a lattice  *)
(* unit) are judged.                                                          *)
(***************************************************************************)
EXTENDS Saddle, Json, IOUtils

TraceAtol == <<1, 4>>
JT == JsonDeserialize(IOEnv.TRACE_FILE).traces
VARIABLES tid, judged
tvars == <<vars, tid, judged>>
T == JT[tid]
Clause(name, ok) == IF ok THEN TRUE ELSE PrintT(<<"CLAUSE-FAILED", name, JT[tid].id>>)

TInit == /\ tid \in 1..Len(JT) /\ judged = FALSE
         /\ form = <<JT[tid].form[1], JT[tid].form[2], JT[tid].form[3], JT[tid].form[4], JT[tid].form[5]>>
         /\ ctr = <<JT[tid].ctr[1], JT[tid].ctr[2]>>
         /\ phase = "classify" /\ minL = "none" /\ minT = "none" /\ minR = "none" /\ minB = "none"
         /\ pB = P1c /\ pT = P1c /\ pL = P1c /\ pR = P1c /\ eV = P3c /\ eH = P1c /\ count = 0 /\ outcome = "none"
\* |obs / 1000 - q| <= tol / 1000
NearQ(obs, q, tol) == Abs(obs * q[2] - 1000 * q[1]) <= tol * q[2]
Step == phase # "done" /\ Next /\ UNCHANGED <<tid, judged>>
Judge == /\ phase = "done" /\ ~judged /\ judged' = TRUE /\ UNCHANGED <<vars, tid>>
         /\ PrintT(<<"JUDGED", JT[tid].id>>)
         /\ Clause("OutcomeIsSpec", T.outcome = outcome)
         \* cubicq # 0: the flux function of the call has a cubic perturbation that keeps the critical point and its Hessian (and, for the
         \* perturbations the driver uses, the classification of the edges): same outcome, same answer to within atol, but more passes
         /\ Clause("PassesAreSpec", (outcome = "ok" /\ T.outcome = "ok" /\ T.cubicq = 0) => T.count = count)
         /\ Clause("FewPasses", (T.outcome = "ok" /\ T.cubicq # 0) => T.count \in 1..MaxIter)
         /\ Clause("AnswerIsSpec", (outcome = "ok" /\ T.outcome = "ok") => NearQ(T.res[1], Result[1], T.tol) /\ NearQ(T.res[2], Result[2], T.tol))
         /\ Clause("AnswerIsSaddle", T.outcome = "ok" => T.gradok = 1)
TNext == Step \/ Judge
TSpec == TInit /\ [][TNext]_tvars
=============================================================================
