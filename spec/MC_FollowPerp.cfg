SPECIFICATION FSpec
CONSTANTS
  MaxLen = 5
  MaxVal = 6
INVARIANT FollowReturnsEachValueInOrder
INVARIANT RegionContourKIsPsiK
CHECK_DEADLOCK FALSE
