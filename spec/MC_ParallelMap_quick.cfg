SPECIFICATION Spec
CONSTANTS
  MaxW = 2
  MaxT = 3
  MaxC = 2
  Mode = "Handled"
  QueueOrder = "perproducer"
  Configs <- QuickConfigs
INVARIANT TypeOK
INVARIANT Positions
INVARIANT NoStale
INVARIANT SerialOutcome
INVARIANT CleanBetweenCalls
INVARIANT TaskOnce
PROPERTY Termination
CHECK_DEADLOCK TRUE
