SPECIFICATION MSpec
CONSTANTS
  Rs <- MRs
  Bps <- MBps
  Bts <- MBts
  Hys <- MHys
  Angles <- MAngles
INVARIANT Inverse
INVARIANT JacobianDet
INVARIANT JacobianSign
INVARIANT YZCoupling
INVARIANT YZCouplingCode
INVARIANT OrthogonalInstance
INVARIANT PythagoreanAngles
CHECK_DEADLOCK FALSE
