------------------------------- MODULE Roots -------------------------------
(***************************************************************************)
(* Equilibrium.findRoots_1d(f, n, xmin, xmax, maxintervals) as a state      *)
(* machine: the bracketing search TORPEX uses to find where the separatrix  *)
(* meets the wall (four roots of psi(wall(s)) - psi_sep).                   *)
(*                                                                          *)
(* The function is known by its sign at the points of the finest lattice    *)
(* the search can reach (NFine intervals, a multiple n 2^j of n); between    *)
(* lattice points it changes sign at most once (the driver builds a           *)
(* piecewise-linear f with these node signs).  One Scan per doubling of the  *)
(* number of intervals, one SolveOne per bracketing interval (brentq), then   *)
(* Finish.  Deviations of the code from its docstring are separate actions:   *)
(*   LuckyRoot  - a lattice point that is a root is refused                   *)
(*                (NotImplementedError);                                      *)
(*   WarnMisuse - more brackets than roots asked for: the code means to warn  *)
(*                and return them all, but passes an int as the warning       *)
(*                category, so the call ends in a TypeError (DESIGN 11.28).   *)
(***************************************************************************)
EXTENDS Integers, Sequences, FiniteSets
CONSTANTS NFine,          \* intervals of the finest lattice
          NSet,           \* numbers of roots asked for (each divides NFine by a power of two)
          MaxSet          \* values of maxintervals
VARIABLES sg,             \* [0..NFine -> {-1, 0, 1}] sign of f at the lattice points
          n, maxI,        \* arguments
          level,          \* n_intervals of the current scan
          phase,          \* "scan" | "solve" | "done"
          todo,           \* brackets still to be solved, as <<lo, hi>> fine indices, ascending
          roots,          \* fine interval index (2k+1) or fine node index (2k) of each root returned so far, ascending
          outcome
vars == <<sg, n, maxI, level, phase, todo, roots, outcome>>

Pts(L) == [k \in 0..L |-> k * (NFine \div L)]                   \* linspace(xmin, xmax, L + 1) in fine indices
Brackets(L) == {k \in 0..(L - 1) : sg[Pts(L)[k]] # sg[Pts(L)[k + 1]]}
Lucky(L) == \E k \in 0..L : sg[Pts(L)[k]] = 0
RECURSIVE SortedSeq(_)
SortedSeq(S) == IF S = {} THEN <<>> ELSE LET m == CHOOSE x \in S : \A y \in S : x <= y IN <<m>> \o SortedSeq(S \ {m})
\* positions are doubled: 2j+1 = inside fine interval j, 2j = the fine node j
IsRootAt(pos) == IF pos % 2 = 0 THEN sg[pos \div 2] = 0
                 ELSE LET j == (pos - 1) \div 2 IN sg[j] # 0 /\ sg[j + 1] # 0 /\ sg[j] # sg[j + 1]
RootIn(br, pos) == 2 * br[1] < pos /\ pos < 2 * br[2] /\ IsRootAt(pos)
Usable(L) == NFine % L = 0

Init == /\ \E b \in [0..NFine -> {-1, 1}] : \E z \in (-1)..NFine : sg = [k \in 0..NFine |-> IF k = z THEN 0 ELSE b[k]]   \* at most one lattice point is a root
        /\ n \in NSet /\ maxI \in MaxSet /\ n <= maxI
        /\ level = n /\ phase = "scan" /\ todo = <<>> /\ roots = <<>> /\ outcome = "none"

LuckyRoot == /\ phase = "scan" /\ Lucky(level)
             /\ phase' = "done" /\ outcome' = "not_implemented" /\ UNCHANGED <<sg, n, maxI, level, todo, roots>>
ScanFound == /\ phase = "scan" /\ ~Lucky(level) /\ Cardinality(Brackets(level)) >= n
             /\ phase' = "solve"
             /\ todo' = [k \in 1..Cardinality(Brackets(level)) |->
                            LET b == SortedSeq(Brackets(level))[k] IN <<Pts(level)[b], Pts(level)[b + 1]>>]
             /\ UNCHANGED <<sg, n, maxI, level, roots, outcome>>
ScanDouble == /\ phase = "scan" /\ ~Lucky(level) /\ Cardinality(Brackets(level)) < n /\ 2 * level <= maxI
              /\ level' = 2 * level /\ UNCHANGED <<sg, n, maxI, phase, todo, roots, outcome>>
ScanGiveUp == /\ phase = "scan" /\ ~Lucky(level) /\ Cardinality(Brackets(level)) < n /\ 2 * level > maxI
              /\ phase' = "done" /\ outcome' = "no_roots" /\ UNCHANGED <<sg, n, maxI, level, todo, roots>>
\* brentq returns a root of the bracket; which one, when there are three, is its own business
SolveOne == /\ phase = "solve" /\ todo # <<>>
            /\ \E pos \in 1..(2 * NFine - 1) : RootIn(Head(todo), pos) /\ roots' = Append(roots, pos)
            /\ todo' = Tail(todo) /\ UNCHANGED <<sg, n, maxI, level, phase, outcome>>
Finish == /\ phase = "solve" /\ todo = <<>> /\ Len(roots) = n
          /\ phase' = "done" /\ outcome' = "ok" /\ UNCHANGED <<sg, n, maxI, level, todo, roots>>
WarnMisuse == /\ phase = "solve" /\ todo = <<>> /\ Len(roots) > n
              /\ phase' = "done" /\ outcome' = "type_error" /\ UNCHANGED <<sg, n, maxI, level, todo, roots>>
Next == LuckyRoot \/ ScanFound \/ ScanDouble \/ ScanGiveUp \/ SolveOne \/ Finish \/ WarnMisuse
Spec == Init /\ [][Next]_vars /\ WF_vars(Next)

\* the whole of the solve phase in one step, as the trace specification uses it
SolvedBy(rs) == /\ Len(rs) = Len(todo) /\ \A k \in 1..Len(rs) : RootIn(todo[k], rs[k])

--------------------------------------------------------------------------
TypeOK == /\ level \in {n * m : m \in {1, 2, 4, 8, 16}} /\ phase \in {"scan", "solve", "done"}
          /\ outcome \in {"none", "ok", "no_roots", "not_implemented", "type_error"}
LevelsAreLattice == phase = "scan" => Usable(level) /\ level <= maxI
RootsAscending == \A k \in 1..(Len(roots) - 1) : roots[k] < roots[k + 1]
RootsAreRoots == \A k \in 1..Len(roots) : IsRootAt(roots[k])
\* every bracket has a root to return: SolveOne is never stuck (odd number of sign changes between unequal non-zero signs)
BracketsHaveRoots == phase = "solve" => \A k \in 1..Len(todo) : \E pos \in 1..(2 * NFine - 1) : RootIn(todo[k], pos)
OkIsExactlyN == outcome = "ok" => Len(roots) = n
\* giving up means that at no number of intervals tried were there n brackets (the docstring's "not too close to each other")
GiveUpIsHonest == outcome = "no_roots" => \A m \in {1, 2, 4, 8, 16} : (n * m <= maxI /\ Usable(n * m) /\ ~Lucky(n * m)) => Cardinality(Brackets(n * m)) < n
\* roots the scan cannot see: only in pairs inside one interval
MissedOnlyInPairs == outcome \in {"ok", "type_error"} =>
    \A k \in 0..(level - 1) : (k \notin Brackets(level)) =>
        Cardinality({j \in Pts(level)[k]..(Pts(level)[k + 1] - 1) : sg[j] # 0 /\ sg[j + 1] # 0 /\ sg[j] # sg[j + 1]}) % 2 = 0
            \/ \E j \in (Pts(level)[k] + 1)..(Pts(level)[k + 1] - 1) : sg[j] = 0
Terminates == <>(phase = "done")
=============================================================================
