-------------------------------- MODULE MLA --------------------------------
(***************************************************************************)
(* MultiLocationArray (hypnotoad/core/multilocationarray.py): a container of *)
(* up to four arrays (cell centre, x-face, y-face, corners), "not all have   *)
(* to be filled".  Every metric and field computation goes through its       *)
(* numpy-ufunc protocol, so which locations a result has - and that reading   *)
(* a missing location silently creates it, filled with zeros - is part of     *)
(* the system's behaviour (it is why a field nobody computed at xlow is       *)
(* written as zeros, and why DDX's `if f.xlow is not None' is always true).   *)
(* A location holds NONE or one number (all elements equal in the replays).   *)
(* The reachable graph is compared state by state with the real class.        *)
(***************************************************************************)
EXTENDS Integers, FiniteSets, TLC

CONSTANT MaxDepth
Locs == {"centre", "xlow", "ylow", "corners"}
NONE == -1
VARIABLES a, b, r, depth
mvars == <<a, b, r, depth>>
Empty == [l \in Locs |-> NONE]

Init == /\ \E pa, pb \in SUBSET Locs : a = [l \in Locs |-> IF l \in pa THEN 1 ELSE NONE] /\ b = [l \in Locs |-> IF l \in pb THEN 2 ELSE NONE]
        /\ r = Empty /\ depth = 0
Step == depth < MaxDepth /\ depth' = depth + 1
\* reading a location that is not there creates it, filled with zeros (the property getters)
ReadA(l) == Step /\ a' = [a EXCEPT ![l] = IF a[l] = NONE THEN 0 ELSE a[l]] /\ UNCHANGED <<b, r>>
WriteB(l) == Step /\ b' = [b EXCEPT ![l] = 3] /\ UNCHANGED <<a, r>>
\* a binary ufunc: the result has exactly the locations both operands have
Add == Step /\ r' = [l \in Locs |-> IF a[l] # NONE /\ b[l] # NONE THEN a[l] + b[l] ELSE NONE] /\ UNCHANGED <<a, b>>
\* a ufunc with a scalar: the locations of the array operand
Scale == Step /\ r' = [l \in Locs |-> IF a[l] # NONE THEN 2 * a[l] ELSE NONE] /\ UNCHANGED <<a, b>>
\* copy() reads all four locations: the copy - and the original - have all four afterwards
Copy == Step /\ a' = [l \in Locs |-> IF a[l] = NONE THEN 0 ELSE a[l]] /\ r' = a' /\ UNCHANGED b
Zero == Step /\ b' = [l \in Locs |-> 0] /\ UNCHANGED <<a, r>>
Next == (\E l \in Locs : ReadA(l) \/ WriteB(l)) \/ Add \/ Scale \/ Copy \/ Zero
Spec == Init /\ [][Next]_mvars

Present(x) == {l \in Locs : x[l] # NONE}
\* locations never disappear; a result never has a location one of its operands lacks
Monotone == [][Present(a) \subseteq Present(a') /\ Present(b) \subseteq Present(b')]_mvars
ResultWithinOperands == [][(r' # r) => (Present(r') \subseteq Present(a'))]_mvars
=============================================================================
