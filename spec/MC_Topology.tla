--------------------------- MODULE MC_Topology ---------------------------
EXTENDS Topology

CONSTANT Tier
Seqs(S, n) == [1..n -> S]

Heavy == {"LDN", "UDN", "LDN_UO", "UDN_UO", "CDN_UO", "CDN"}
NXs(t) == IF Tier \in {"quick", "small"} THEN {1, 2}
          ELSE IF t \in Heavy THEN {1, 2} ELSE {1, 2, 3}
NYs(t) == IF Tier = "small" THEN (IF t \in Heavy THEN {2} ELSE {1, 2}) ELSE IF Tier = "quick" THEN (IF t \in Heavy \ {"CDN"} THEN {1, 3} ELSE {1, 2, 4})
          ELSE IF t \in Heavy THEN {1, 2, 5} ELSE {1, 2, 5, 11}
GSs(t) == IF Tier = "small" THEN {0, 1} ELSE IF Tier = "quick" THEN (IF t \in Heavy \ {"CDN"} THEN {0, 1} ELSE {0, 2})
          ELSE IF t \in Heavy \ {"CDN", "CDN_UO"} THEN {0, 2} ELSE {0, 1, 2}

\* nested existentials instead of one big set of records (TLC enumerates these cheaply)
MCInit ==
  /\ \E t \in Topos : \E nx \in Seqs(NXs(t), NSeg(t)) : \E ny \in Seqs(NYs(t), NR(t)) : \E g \in GSs(t) :
        cfg = [topo |-> t, nx |-> nx, ny |-> ny, G |-> g]
  /\ stage = "start" /\ conn = <<>> /\ rects = <<>> /\ ygroups = {} /\ ints = {}

MCSpec == MCInit /\ [][TNext]_tvars
=============================================================================
