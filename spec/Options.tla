------------------------------- MODULE Options -------------------------------
(***************************************************************************)
(* Which settings are rejected where (C12).  Three entry points:            *)
(*   "eq"     building the equilibrium (user and non-orthogonal options)     *)
(*   "mesh"   BoutMesh(equilibrium, settings)                                *)
(*   "script" the hypnotoad-geqdsk command line                              *)
(* A component validates the options it owns (type, allowed values, value    *)
(* checks) and ignores keys it does not own - the same dictionary is handed  *)
(* to the equilibrium and to the mesh, which own different options.  Only    *)
(* the command line, which sees the whole dictionary, can and must reject    *)
(* keys nobody owns.  A mesh must refuse settings that differ from the ones  *)
(* its equilibrium was built with, for the options both own.                 *)
(***************************************************************************)
EXTENDS Integers, Sequences, TLC, Json, IOUtils

Entries == {"eq", "mesh", "script"}
Classes == {"valid", "unknown", "wrongtype", "badvalue", "mismatch"}

\* own: [eq |-> BOOLEAN, mesh |-> BOOLEAN]  (does the component own the perturbed option?)
Expected(entry, class, own) ==
  CASE class = "valid" -> "accept"
    [] class = "unknown" -> IF entry = "script" THEN "reject" ELSE "accept"
    [] class \in {"wrongtype", "badvalue"} ->
         IF entry = "eq" THEN (IF own.eq THEN "reject" ELSE "accept")
         ELSE IF entry = "mesh" THEN (IF own.mesh THEN "reject" ELSE "accept")
         ELSE (IF own.eq \/ own.mesh THEN "reject" ELSE "accept")
    [] class = "mismatch" -> IF entry = "mesh" /\ own.eq /\ own.mesh THEN "reject" ELSE "accept"

\* the table as a (trivial) state machine so that TLC enumerates and checks it
VARIABLES c, tid, done
OInit == c \in [entry : Entries, class : Classes, eq : BOOLEAN, mesh : BOOLEAN] /\ tid = 0 /\ done = TRUE
ONext == UNCHANGED <<c, tid, done>>
OSpec == OInit /\ [][ONext]_<<c, tid, done>>
E(cc) == Expected(cc.entry, cc.class, [eq |-> cc.eq, mesh |-> cc.mesh])
\* sanity of the table: the command line rejects whatever a component would reject; nobody rejects valid settings;
\* an invalid value of an owned option is never accepted by its owner
ScriptAtLeastAsStrict == c.entry = "script" => ((E([c EXCEPT !.entry = "eq"]) = "reject" \/ E([c EXCEPT !.entry = "mesh"]) = "reject") => E(c) = "reject" \/ c.class = "mismatch")
ValidAccepted == c.class = "valid" => E(c) = "accept"
OwnerRejectsInvalid == (c.class \in {"wrongtype", "badvalue"} /\ ((c.entry = "eq" /\ c.eq) \/ (c.entry = "mesh" /\ c.mesh))) => E(c) = "reject"

--------------------------------------------------------------------------
(* C->S: recorded outcomes of the real entry points *)
JT == JsonDeserialize(IOEnv.TRACE_FILE).traces
Clause(name, ok) == IF ok THEN TRUE ELSE PrintT(<<"CLAUSE-FAILED", name, JT[tid].id>>)
TInit == tid \in 1..Len(JT) /\ done = FALSE /\ c = [entry |-> "eq", class |-> "valid", eq |-> FALSE, mesh |-> FALSE]
TJudge == /\ done = FALSE
          /\ LET o == JT[tid] IN
               Clause("Rejection_" \o o.class \o "_" \o o.entry,
                      o.outcome = Expected(o.entry, o.class, [eq |-> o.own_eq = 1, mesh |-> o.own_mesh = 1]))
          /\ done' = TRUE /\ UNCHANGED <<tid, c>>
TSpec == TInit /\ [][TJudge]_<<tid, done, c>>
=============================================================================
