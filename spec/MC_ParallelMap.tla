------------------------- MODULE MC_ParallelMap -------------------------
EXTENDS ParallelMap

\* all configurations in the box: every worker count, every vector of task counts,
\* every set of failing positions (restricted to existing positions)
SeqsUpTo(S, n) == UNION {[1..m -> S] : m \in 1..n}
BoxConfigs(W, T, C) ==
  {[nw |-> nw, nts |-> nts, fail |-> fl] :
      nw \in W, nts \in SeqsUpTo(T, C),
      fl \in UNION {[1..m -> SUBSET (1..MaxT)] : m \in 1..C}} 
ValidConfigs(W, T, C) ==
  {c \in BoxConfigs(W, T, C) :
      /\ Len(c.fail) = Len(c.nts)
      /\ \A n \in 1..Len(c.nts) : c.fail[n] \subseteq 1..c.nts[n]}

QuickConfigs    == ValidConfigs(0..2, 0..3, 2)
ThoroughConfigs == ValidConfigs(0..3, {0, 1, 2, 4}, 2)
\* the code as first found: one call, one failing task is enough to hang
AsIsConfigs     == ValidConfigs({2}, {2, 3}, 1)
S2CConfigs      == ValidConfigs({0, 2}, 0..2, 2) \cup ValidConfigs({3}, {3}, 1)
AllDone == \A c \in 1..NC : outcome[c].o # "none"
=============================================================================
