SPECIFICATION LSpec
CONSTANTS
  K = 3
INVARIANT MeetSymmetric
INVARIANT MeetReversal
INVARIANT MeetTranspose
INVARIANT ProperImpliesMeet
INVARIANT MeetPointOnBoth
INVARIANT TrapIsMinusShoe
CHECK_DEADLOCK FALSE
