SPECIFICATION GridSpec
CONSTANTS
  Configs = {}
CHECK_DEADLOCK FALSE
