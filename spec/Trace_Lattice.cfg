SPECIFICATION TLSpec
CONSTANTS
  K = 3
CHECK_DEADLOCK FALSE
