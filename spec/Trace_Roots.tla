---------------------------- MODULE Trace_Roots ----------------------------
(***************************************************************************)
(* C->S for Roots.tla: calls of the real Equilibrium.findRoots_1d on         *)
(* piecewise-linear functions with prescribed node signs.  The driver logs    *)
(* one "Scan" event per evaluation of f on an array (its length gives the     *)
(* number of intervals) and one "Return" event with the kind of outcome and   *)
(* the roots, located on the doubled fine lattice.  Every event is consumed;  *)
(* what does not fit the specification is named by a clause.                  *)
(***************************************************************************)
EXTENDS Roots, Json, IOUtils, TLC

JT == JsonDeserialize(IOEnv.TRACE_FILE).traces
VARIABLES tid, l
tvars == <<vars, tid, l>>
T == JT[tid]
Tr == T.events
Clause(name, ok) == IF ok THEN TRUE ELSE PrintT(<<"CLAUSE-FAILED", name, JT[tid].id>>)

TInit == /\ tid \in 1..Len(JT) /\ l = 1
         /\ sg = [k \in 0..NFine |-> JT[tid].sg[k + 1]] /\ n = JT[tid].n /\ maxI = JT[tid].maxI
         /\ level = JT[tid].n /\ phase = "scan" /\ todo = <<>> /\ roots = <<>> /\ outcome = "none"
IsEv(e) == l <= Len(Tr) /\ Tr[l].ev = e /\ l' = l + 1 /\ UNCHANGED tid

TScan == /\ IsEv("Scan")
         /\ IF phase = "scan"
            THEN /\ Clause("ScanLevelIsSpec", Tr[l].level = level)
                 /\ (LuckyRoot \/ ScanFound \/ ScanDouble \/ ScanGiveUp)
            ELSE Clause("NoScanAfterBrackets", FALSE) /\ UNCHANGED vars
TReturn == /\ IsEv("Return")
           /\ CASE phase = "done" -> Clause("OutcomeIsSpec", Tr[l].outcome = outcome) /\ UNCHANGED vars
                [] phase = "solve" ->
                     \* (when the call ends in the TypeError the roots are not observable)
                     /\ Clause("RootsSolveBrackets", Tr[l].outcome # "ok" \/ SolvedBy(Tr[l].roots))
                     /\ Clause("ReturnedValuesAreRoots", Tr[l].outcome # "ok" \/ T.resid_ok = 1)
                     /\ Clause("OutcomeIsSpec", Tr[l].outcome = (IF Len(todo) = n THEN "ok" ELSE "type_error"))
                     /\ roots' = Tr[l].roots /\ todo' = <<>> /\ phase' = "done" /\ outcome' = Tr[l].outcome
                     /\ UNCHANGED <<sg, n, maxI, level>>
                [] OTHER -> Clause("ReturnsOnlyAfterScan", FALSE) /\ UNCHANGED vars
TNext == TScan \/ TReturn
TSpec == TInit /\ [][TNext]_tvars
=============================================================================
