SPECIFICATION TSpec
CONSTANTS
  MaxLen = 5
  MaxVal = 6
CHECK_DEADLOCK FALSE
