---------------------------- MODULE Trace_Fields ----------------------------
(***************************************************************************)
(* C->S / S->C for FieldOps.tla (C18).  Kinds of trace:                     *)
(*  exact : the real functions evaluated on a polynomial psi with an integer *)
(*          2-jet at the point (the spline reproduces it): every observed    *)
(*          value, as an integer at scale S, must be the rational FieldOps   *)
(*          defines; the Python evaluator's rationals must be equal to them  *)
(*  evalonly : only the evaluator's rationals against the specification    *)
(*  nodes : the interpolant reproduces the data at the input nodes           *)
(*  fd    : exposed derivatives against central differences of the function  *)
(*          they differentiate, div B = 0, derived functions against the     *)
(*          evaluator on the observed base quantities                        *)
(*  agree : the two methods against each other and the analytic function     *)
(*  shape : the result kind for the kinds of the two arguments               *)
(***************************************************************************)
EXTENDS FieldOps, TLC, Json, IOUtils

JT == JsonDeserialize(IOEnv.TRACE_FILE).traces
VARIABLES tid, done
Obs == JT[tid]
ClauseAt(name, loc, ok) == IF ok THEN TRUE ELSE PrintT(<<"CLAUSE-FAILED", name, JT[tid].id, loc>>)
Clause(name, ok) == ClauseAt(name, "", ok)

\* an observed integer at scale S against a rational: |obs / S - n / d| <= tol / S
\* (an observation so large that the product would leave TLC's 32-bit integers is not near anything the lattice produces)
Near(obs, e, S, tol) == Abs(obs) <= 1000000000 \div e[2] /\ Abs(obs * e[2] - e[1] * S) <= tol * e[2]
Undefined == 2000000000            \* the driver's mark for a non-finite value

\* the Python evaluator used on smooth data (and by C07 for curl(b/B)) is the specification
EvalClauses ==
  LET pt == Obs.pt
      d == Def(pt) IN
  /\ \A k \in 1..Len(Names) : ClauseAt("EvaluatorIsSpec", Names[k], Obs.ev[Names[k]] = d[Names[k]])
  /\ \A k \in 1..Len(FNames) : ClauseAt("EvaluatorIsSpec", FNames[k], IF GradSq(pt) = 0 THEN Obs.ev[FNames[k]] = <<0, 0>> ELSE Obs.ev[FNames[k]] = DefF(pt)[FNames[k]])
  /\ \A k \in 1..Len(CurlNames) : ClauseAt("EvaluatorIsSpec", CurlNames[k],
        IF d.B2[1] = 0 THEN Obs.ev[CurlNames[k]] = <<0, 0>> ELSE Obs.ev[CurlNames[k]] = CurlRec(pt)[CurlNames[k]])

JudgeExact ==
  LET pt == Obs.pt
      d == Def(pt)
      S == Obs.S IN
  /\ Clause("CallSucceeds", Obs.raised = "")
  /\ \A k \in 1..Len(Names) : ClauseAt("CodeIsSpec", Names[k], Near(Obs.obs[Names[k]], d[Names[k]], S, 3))
  /\ \A k \in 1..Len(FNames) : ClauseAt("CodeIsSpec", FNames[k], GradSq(pt) = 0 \/ Near(Obs.obs[FNames[k]], DefF(pt)[FNames[k]], S, 3))
  \* dB/dR = d(B^2)/dR / (2 B) wherever B # 0
  /\ ClauseAt("CodeIsSpec", "dBdR", d.B2[1] = 0 \/ Near(Obs.twoBdBdR, d.dB2dR, S, 5))
  /\ ClauseAt("CodeIsSpec", "dBdZ", d.B2[1] = 0 \/ Near(Obs.twoBdBdZ, d.dB2dZ, S, 5))
  \* nothing defined comes out non-finite
  /\ Clause("DefinedIsFinite", \A k \in 1..Len(Names) : Obs.obs[Names[k]] # Undefined)
  /\ EvalClauses

JudgeNodes ==
  /\ Clause("NodesReproduced", Obs.dev <= 1000 /\ Obs.dev_scalar <= 1000)          \* 1e-9 of the range of psi

FdRels == <<"psiR_is_ddR_psi", "psiZ_is_ddZ_psi", "d2psidR2", "d2psidZ2", "d2psidRdZ_a", "d2psidRdZ_b", "dBRdR", "dBRdZ", "dBZdR", "dBZdZ",
            "dBzetadR", "dBzetadZ", "dB2dR", "dB2dZ", "dBdR", "dBdZ", "f_R", "f_Z", "divB">>
AlgNames == Names \o <<"dBdR", "dBdZ">>
JudgeFd ==
  \* central differences with step 1e-5 m: 1e-5 of the largest value (measured on the unchanged tree: 4e-8)
  /\ \A k \in 1..Len(FdRels) : ClauseAt("DerivativeIsFiniteDifference", FdRels[k], Obs.rel[FdRels[k]].res <= 10000 /\ Obs.rel[FdRels[k]].nonfinite = 0)
  /\ \A k \in 1..Len(FdRels) : ClauseAt("Exercised", FdRels[k], Obs.rel[FdRels[k]].n * 2 >= Obs.npts)
  \* 1e-9 of the largest value (rounding only)
  /\ \A k \in 1..Len(AlgNames) : ClauseAt("AlgebraIsSpec", AlgNames[k], Obs.alg[AlgNames[k]].res <= 1000)

\* interpolation errors relative to the range of psi (scale 1e9) at interior points: the spline is fourth order (halving the
\* spacing divides its error by 16; at least 6 is required), the cosine series second order (its even extension has a kink at the edge)
JudgeAgree ==
  LET c == Obs.coarse f == Obs.fine IN
  /\ Clause("SplineAccurate", c.err_spline <= Obs.cap_spline /\ f.err_spline * 6 <= c.err_spline + 60)
  /\ Clause("DctAccurate", c.err_dct <= Obs.cap_dct /\ f.err_dct * 2 <= c.err_dct + 20)
  /\ Clause("MethodsAgree", c.diff <= c.err_spline + c.err_dct + 10 /\ f.diff <= f.err_spline + f.err_dct + 10 /\ c.diff <= Obs.cap_dct + Obs.cap_spline)
  /\ Clause("GradientsAccurate", c.gerr_spline <= Obs.cap_gspline /\ c.gerr_dct <= Obs.cap_gdct /\ f.gerr_spline * 3 <= c.gerr_spline + 300 /\ f.gerr_dct <= c.gerr_dct + 300)

JudgeShape ==
  LET want == Dispatch(Obs.a1, Obs.a2) IN
  /\ Clause("DispatchAsSpec", want = "unspecified" \/ Obs.result = want)
  /\ Clause("ElementwiseAsScalar", Obs.result = "error" \/ (Obs.shape_ok = 1 /\ Obs.dev <= 1000))

Judge ==
  /\ done = FALSE
  /\ CASE Obs.kind = "exact" -> JudgeExact
       [] Obs.kind = "evalonly" -> EvalClauses
       [] Obs.kind = "nodes" -> JudgeNodes
       [] Obs.kind = "fd" -> JudgeFd
       [] Obs.kind = "agree" -> JudgeAgree
       [] Obs.kind = "shape" -> JudgeShape
  /\ done' = TRUE /\ UNCHANGED tid
TInit == tid \in 1..Len(JT) /\ done = FALSE
TSpec == TInit /\ [][Judge]_<<tid, done>>
=============================================================================
