---------------------------- MODULE Trace_Geqdsk ----------------------------
(***************************************************************************)
(* C->S for Geqdsk.tla.  A trace is one data set (values as decimal digit   *)
(* records), the text the real writer produced for it (character codes),    *)
(* what the real reader returned for that text and for re-laid-out variants  *)
(* of it, and how read_geqdsk mapped it onto R, Z, psi and the wall.         *)
(***************************************************************************)
EXTENDS Geqdsk, Json, IOUtils

JT == JsonDeserialize(IOEnv.TRACE_FILE).traces
NTr == Len(JT)
VARIABLES tid, done
gvars == <<tid, done>>
Obs == JT[tid]
Clause(name, ok) == IF ok THEN TRUE ELSE PrintT(<<"CLAUSE-FAILED", name, JT[tid].id>>)

V(j) == Val(j[1] = 1, j[2], j[3] = 1, j[4])
VS(js) == [k \in 1..Len(js) |-> V(js[k])]
D == [nx |-> Obs.d.nx, ny |-> Obs.d.ny,
      sc |-> [n \in ScalarNames |-> V(Obs.d.sc[n])],
      fpol |-> VS(Obs.d.fpol), pres |-> VS(Obs.d.pres), ffprime |-> VS(Obs.d.ffprime), pprime |-> VS(Obs.d.pprime), qpsi |-> VS(Obs.d.qpsi),
      psi |-> [x \in 1..Obs.d.nx |-> VS(Obs.d.psi[x])],
      hasff |-> Obs.d.hasff = 1, haspp |-> Obs.d.haspp = 1,
      bdry |-> [k \in 1..Len(Obs.d.bdry) |-> <<V(Obs.d.bdry[k][1]), V(Obs.d.bdry[k][2])>>],
      lim |-> [k \in 1..Len(Obs.d.lim) |-> <<V(Obs.d.lim[k][1]), V(Obs.d.lim[k][2])>>]]

\* what the reader returned, in the same shape
RB(r) == [nx |-> r.nx, ny |-> r.ny,
          sc |-> [n \in ScalarNames |-> V(r.sc[n])],
          fpol |-> VS(r.fpol), pres |-> VS(r.pres), ffprime |-> VS(r.ffprime), pprime |-> VS(r.pprime), qpsi |-> VS(r.qpsi),
          psi |-> [x \in 1..Len(r.psi) |-> VS(r.psi[x])],
          bdry |-> [k \in 1..Len(r.bdry) |-> <<V(r.bdry[k][1]), V(r.bdry[k][2])>>],
          lim |-> [k \in 1..Len(r.lim) |-> <<V(r.lim[k][1]), V(r.lim[k][2])>>]]
Want == LET e == Expected(D) IN [nx |-> e.nx, ny |-> e.ny, sc |-> e.sc, fpol |-> e.fpol, pres |-> e.pres, ffprime |-> e.ffprime,
                                  pprime |-> e.pprime, qpsi |-> e.qpsi, psi |-> e.psi, bdry |-> e.bdry, lim |-> e.lim]

Body == SubSeq(Obs.lines, 2, Len(Obs.lines))
HeaderLine == Obs.lines[1]

Judge ==
  /\ done = FALSE
  /\ Clause("DataCanonical", \A n \in ScalarNames : Canonical(D.sc[n]))
  /\ Clause("HeaderTail", Len(HeaderLine) >= 12 /\ SubSeq(HeaderLine, Len(HeaderLine) - 11, Len(HeaderLine)) = HeaderTail(D))
  /\ Clause("HeaderParses", HeaderParse(HeaderLine) = <<D.nx, D.ny>>)
  /\ Clause("TextIsPrint", Body = BodyLines(D))
  /\ \A k \in 1..Len(Obs.reads) :
       LET r == Obs.reads[k] IN
       Clause("ReadBack_" \o r.layout, r.ok = 1 /\ RB(r.data) = Want)
  \* read_geqdsk: axes, profile grid and wall as the format defines (integer micro-units, exact for the chosen scalars)
  /\ Clause("AxesAsFormat", Obs.map.ok = 0 \/
        /\ Obs.map.nR = D.nx /\ Obs.map.nZ = D.ny /\ Obs.map.npsi = D.nx
        \* (an axis of a single point has no far end)
        /\ Obs.map.R0 = Obs.map.u.rleft /\ (D.nx >= 2 => Obs.map.R1 = Obs.map.u.rleft + Obs.map.u.rdim)
        /\ 2 * Obs.map.Z0 = 2 * Obs.map.u.zmid - Obs.map.u.zdim /\ (D.ny >= 2 => 2 * Obs.map.Z1 = 2 * Obs.map.u.zmid + Obs.map.u.zdim)
        /\ Obs.map.p0 = Obs.map.u.simagx /\ (D.nx >= 2 => Obs.map.p1 = Obs.map.u.sibdry)
        /\ Obs.map.uniform = 1)
  /\ Clause("PsiIndexOrder", Obs.map.ok = 0 \/ Obs.map.psi_same = 1)
  /\ Clause("WallIsLimiter", Obs.map.ok = 0 \/ (Obs.map.wall_same = 1 /\ Obs.map.nwall = Len(D.lim)))
  /\ done' = TRUE
  /\ UNCHANGED tid

TGInit == tid \in 1..NTr /\ done = FALSE
TGSpec == TGInit /\ [][Judge]_gvars
=============================================================================
