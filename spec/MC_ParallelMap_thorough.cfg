SPECIFICATION Spec
CONSTANTS
  MaxW = 3
  MaxT = 4
  MaxC = 2
  Mode = "Handled"
  QueueOrder = "perproducer"
  Configs <- ThoroughConfigs
INVARIANT TypeOK
INVARIANT Positions
INVARIANT NoStale
INVARIANT SerialOutcome
INVARIANT CleanBetweenCalls
INVARIANT TaskOnce
PROPERTY Termination
CHECK_DEADLOCK TRUE
