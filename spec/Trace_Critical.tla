--------------------------- MODULE Trace_Critical ---------------------------
(***************************************************************************)
(* C->S for Critical.tla.  Each trace: the critical points of an analytic     *)
(* psi (found by an independent Newton search on the analytic gradient, with   *)
(* their Hessian sign, and the facts `mono', `inwall', `insol', `below'         *)
(* evaluated on the analytic function), the lists critical.find_critical        *)
(* returned for psi sampled on a grid, and what TokamakEquilibrium made of them.*)
(* Truth X-points are listed in increasing |psi - psi_axis|, truth O-points in  *)
(* increasing distance from the centre of the domain.  Positions are integers   *)
(* (1e-6 m), psi in 1e-7 of the psi range.                                      *)
(***************************************************************************)
EXTENDS Critical, Json, IOUtils

JT == JsonDeserialize(IOEnv.TRACE_FILE).traces
VARIABLES tid, done
Obs == JT[tid]
Clause(name, ok) == IF ok THEN TRUE ELSE PrintT(<<"CLAUSE-FAILED", name, JT[tid].id>>)
AbsI(a) == IF a < 0 THEN -a ELSE a
Close(p, q) == AbsI(p.R - q.R) <= Obs.postol /\ AbsI(p.Z - q.Z) <= Obs.postol
TX == Obs.truth_x
TO == Obs.truth_o
FX == Obs.found_x
FO == Obs.found_o
XI == 1..Len(TX)
XF == [k \in XI |-> [mono |-> TX[k].mono = 1, inwall |-> TX[k].inwall = 1, insol |-> TX[k].insol = 1, below |-> TX[k].below = 1, open |-> TX[k].open = 1]]
VisibleT == {k \in XI : TX[k].mono = 1}

RegionKind(names) ==
  LET S == {names[k] : k \in 1..Len(names)} IN
  IF S = {"inner_lower_divertor", "core", "outer_lower_divertor"} THEN "LSN"
  ELSE IF S = {"inner_upper_divertor", "core", "outer_upper_divertor"} THEN "USN"
  ELSE IF S = {"inner_lower_divertor", "inner_core", "inner_upper_divertor", "outer_upper_divertor", "outer_core", "outer_lower_divertor"} THEN "DN"
  ELSE "other"

Judge ==
  /\ done = FALSE
  \* every critical point of the searched interior is returned exactly once, with the kind its Hessian gives, and nothing else is returned
  /\ Clause("OPointsExactlyOnce", \A k \in 1..Len(TO) : Cardinality({j \in 1..Len(FO) : Close(FO[j], TO[k])}) = 1)
  /\ Clause("XPointsExactlyOnce", \A k \in XI : Cardinality({j \in 1..Len(FX) : Close(FX[j], TX[k])}) = (IF k \in VisibleT THEN 1 ELSE 0))
  /\ Clause("KindByHessian", \A j \in 1..Len(FO) : ~\E k \in XI : Close(FO[j], TX[k]))
  /\ Clause("NothingSpurious", /\ \A j \in 1..Len(FO) : (\E k \in 1..Len(TO) : Close(FO[j], TO[k])) \/ (\E k \in XI : Close(FO[j], TX[k])) \/ FO[j].edge = 1
                               /\ \A j \in 1..Len(FX) : (\E k \in XI : Close(FX[j], TX[k])) \/ (\E k \in 1..Len(TO) : Close(FX[j], TO[k])) \/ FX[j].edge = 1)
  /\ Clause("GradVanishes", \A j \in 1..Len(FO) : FO[j].bp2ok = 1) /\ Clause("GradVanishes", \A j \in 1..Len(FX) : FX[j].bp2ok = 1)
  /\ Clause("PsiAtPoint", /\ \A j \in 1..Len(FO) : \A k \in 1..Len(TO) : Close(FO[j], TO[k]) => AbsI(FO[j].psi - TO[k].psi) <= Obs.psitol
                          /\ \A j \in 1..Len(FX) : \A k \in XI : Close(FX[j], TX[k]) => AbsI(FX[j].psi - TX[k].psi) <= Obs.psitol)
  \* the primary O-point is the one nearest the centre of the domain; X-points come in increasing |psi - psi_axis|
  /\ Clause("PrimaryIsNearestCentre", Len(TO) = 0 \/ (Len(FO) > 0 /\ Close(FO[1], TO[1])))
  /\ Clause("XOrderedByPsi", Obs.tie = 1 \/ \A a, b \in 1..Len(FX) : \A ka, kb \in XI : (a < b /\ Close(FX[a], TX[ka]) /\ Close(FX[b], TX[kb]) /\ ka # kb) => ka < kb)
  \* what TokamakEquilibrium makes of them
  /\ Clause("DecisionAsDeclared", Obs.notok = 1 \/
        LET want == KindOf(XI, XF) IN
        IF want = "refused" THEN Obs.tok.outcome = "refused"
        ELSE /\ Obs.tok.outcome = "ok"
             /\ RegionKind(Obs.tok.regions) = (IF want \in {"LDN", "UDN"} THEN "DN" ELSE want)      \* (with a tie both X-points are eligible or neither)
             /\ Len(Obs.tok.xkept) = Cardinality(EligibleOf(XI, XF))
             /\ \A k \in EligibleOf(XI, XF) : \E j \in 1..Len(Obs.tok.xkept) : Close(Obs.tok.xkept[j], TX[k])
             /\ ((want \in {"LDN", "UDN"} /\ Obs.tie = 0) => Obs.tok.primary_lower = (IF want = "LDN" THEN 1 ELSE 0)))
  /\ Clause("LegsInnerOuterByRadius", Obs.tok.outcome # "ok" \/ \A k \in 1..Len(Obs.tok.legs) : Obs.tok.legs[k].inner <= Obs.tok.legs[k].outer)      \* (equal when both legs end on the same vertical wall: either labelling)
  \* the legs called lower hang below the magnetic axis, those called upper above it (their X-point end, relative to the O-point, wherever Z = 0 is)
  /\ Clause("LegsLowerUpperByAxis", Obs.tok.outcome # "ok" \/ \A k \in 1..Len(Obs.tok.legs) : (Obs.tok.legs[k].which = "lower") = (Obs.tok.legs[k].below = 1))
  /\ done' = TRUE /\ UNCHANGED <<tid, vars>>

TInit == /\ tid \in 1..Len(JT) /\ done = FALSE
         /\ xf = [k \in XPts |-> [mono |-> TRUE, inwall |-> TRUE, insol |-> TRUE, below |-> TRUE, open |-> TRUE]]
         /\ rawO = <<>> /\ rawX = <<>> /\ ol = <<>> /\ xl = <<>> /\ stage = "scan" /\ kept = <<>> /\ verdict = "none"
TSpec == TInit /\ [][Judge]_<<tid, done, vars>>
=============================================================================
