SPECIFICATION TPSpec
CONSTANTS
  Configs = {}
CHECK_DEADLOCK FALSE
