----------------------------- MODULE Trace_Grid -----------------------------
(***************************************************************************)
(* C->S for complete grid generations (G-traces).  A G-trace carries the    *)
(* same tables as a Trace_Topology trace - taken from the REAL, unstubbed   *)
(* mesh - and quantised integer observations of the written grid file.      *)
(* The trace takes the three pipeline actions of Topology.tla (every        *)
(* Trace_Topology clause is evaluated on the real mesh) and then `Observe', *)
(* which evaluates the observation clauses of the property named in the     *)
(* trace at every grid index; which indices a clause ranges over (pinned    *)
(* corners, guard cells, closed surfaces, chain starts ...) is decided here *)
(* from Topology.tla, not by the harness.                                   *)
(***************************************************************************)
EXTENDS Trace_Topology

NANV == 2000000000
Abs(a) == IF a < 0 THEN -a ELSE a
Near(a, b, B) == a # NANV /\ b # NANV /\ Abs(a - b) <= B

NX == Obs.NX
NY == Obs.NY
XS == 0..(NX - 1)
YS == 0..(NY - 1)

\* --- index helpers on the file rectangle (0-based x, y), from the layout of the state ---
RegY(y) == RegOfY(conn, cfg.ny, cfg.G, y)
SegX(x) == SegOfX(cfg.nx, x)
RY0(r) == Y0(conn, cfg.ny, cfg.G, r)
RNy(r) == NyG(conn, cfg.ny, cfg.G, r)
SX0(s1) == X0(cfg.nx, s1)
MeshId(x, y) == IdOf(RegY(y), SegX(x))

IsGuard(y) == LET r == RegY(y) IN
  \/ (~HasLower(conn, r) /\ y - RY0(r) < cfg.G)
  \/ (~HasUpper(conn, r) /\ y >= RY0(r) + RNy(r) - cfg.G)

\* X-points as index positions: x of the separatrix face, regions that start / end there
XPts == XPoints(T)
StartsAt(X) == {Pos(T, X.Lout), Pos(T, X.Cout)}
EndsAt(X) == {Pos(T, X.Lin), Pos(T, X.Cin)}
XFace(X) == SX0(X.sep + 1)
\* corner of cell (x, y) in the given corner array that is pinned to an X-point
Pinned(loc, x, y) ==
  \E X \in XPts :
    LET xc == IF loc \in {"corners", "upper_left_corners"} THEN x ELSE x + 1 IN
    /\ xc = XFace(X)
    /\ IF loc \in {"corners", "lower_right_corners"}
         THEN \E r \in StartsAt(X) : y = RY0(r)
         ELSE \E r \in EndsAt(X) : y = RY0(r) + RNy(r) - 1

\* position of a location's psi in the 2nx+1 radial psi list of its segment (1-based)
PsiK(loc, x) ==
  LET i == x - SX0(SegX(x)) IN
  CASE loc \in {"centre", "ylow"} -> 2 * i + 2
    [] loc \in {"xlow", "corners", "upper_left_corners"} -> 2 * i + 1
    [] OTHER -> 2 * i + 3

ClauseAt(name, ok, loc) == IF ok THEN TRUE ELSE PrintT(<<"CLAUSE-FAILED", name, JT[tid].id, loc>>)

--------------------------------------------------------------------------
(* C01 *)
AllLocs == {"centre", "xlow", "ylow", "corners", "lower_right_corners", "upper_right_corners", "upper_left_corners"}
CornerLocs == {"corners", "lower_right_corners", "upper_right_corners", "upper_left_corners"}
BPsi == 50

C01Clauses ==
  /\ \A loc \in AllLocs :
       ClauseAt("OnSurface",
         \A x \in XS : \A y \in YS :
           (loc \in CornerLocs /\ Pinned(loc, x, y)) \/
             Near(Obs.psi_at[loc][x + 1][y + 1], Obs.psivals[MeshId(x, y) + 1][PsiK(loc, x)], BPsi), loc)
  /\ \A loc \in {"centre", "xlow", "ylow"} :
       ClauseAt("PsixyIsPsi", \A x \in XS : \A y \in YS : Near(Obs.psixy[loc][x + 1][y + 1], Obs.psi_at[loc][x + 1][y + 1], 2), loc)
  /\ \A loc \in {"centre", "xlow", "ylow"} :
       ClauseAt("ConstAlongY", \A x \in XS : \A y1 \in YS : \A y2 \in YS :
           RegY(y1) = RegY(y2) => Near(Obs.psixy[loc][x + 1][y1 + 1], Obs.psixy[loc][x + 1][y2 + 1], 2 * BPsi), loc)
  /\ \A loc \in CornerLocs :
       ClauseAt("PinnedAreXpoints", \A x \in XS : \A y \in YS : Pinned(loc, x, y) => Obs.xpt_dist[loc][x + 1][y + 1] <= 20, loc)
  \* the radial psi list is the one segment-mates share: same segment index, same values at the shared x-face
  /\ ClauseAt("RadialGridShared", \A r \in 1..NR(T) : \A s1 \in 1..(NSeg(T) - 1) :
         Near(Obs.psivals[IdOf(r, s1) + 1][2 * cfg.nx[s1] + 1], Obs.psivals[IdOf(r, s1 + 1) + 1][1], 2), "all")

--------------------------------------------------------------------------
(* generic observation pairs: a (from the file) against b (same quantity from the file's other
   variables / the equilibrium), compared where the named domain says the relation must hold *)
LastRow(r) == RY0(r) + RNy(r) - 1
TouchesX(x, y) ==
  \E X \in XPts :
    /\ x \in {XFace(X) - 1, XFace(X)}
    /\ (\E r \in StartsAt(X) : y = RY0(r)) \/ (\E r \in EndsAt(X) : y = LastRow(r))
\* rows of cells whose y-face is the poloidal position of an X-point (flux surfaces bend sharply there)
XRow(y) == \E X \in XPts : (\E r \in StartsAt(X) : y = RY0(r)) \/ (\E r \in EndsAt(X) : y = LastRow(r))
InDom(dom, x, y) ==
  CASE dom = "all" -> TRUE
    [] dom = "cells" -> ~IsGuard(y)
    [] dom = "awayX" -> ~TouchesX(x, y)
    [] dom = "cellsAwayX" -> ~IsGuard(y) /\ ~TouchesX(x, y)
    \* divertor legs only: the few, strongly curved cells of a coarse core make finite displacements
    \* a poor estimate of the tangent vectors
    [] dom = "legsAwayX" -> Kind(T, Order(T)[RegY(y)]) \in {"wall.X", "X.wall"} /\ ~XRow(y)
    [] dom = "legsAwayXnotfirst" -> Kind(T, Order(T)[RegY(y)]) \in {"wall.X", "X.wall"} /\ ~XRow(y) /\ y > RY0(RegY(y)) /\ ~XRow(y - 1)
    [] dom = "coreRegions" -> Kind(T, Order(T)[RegY(y)]) \in {"X.X", "closed"}
    [] dom = "legRegions" -> Kind(T, Order(T)[RegY(y)]) \in {"wall.X", "X.wall", "wall.wall"}
    [] OTHER -> FALSE
SameSign(a, b) == (a > 0) = (b > 0) /\ (a < 0) = (b < 0)
PairOK(p) ==
  \A x \in XS : \A y \in YS :
    InDom(p.dom, x, y) =>
      LET a == p.a[x + 1][y + 1]
          b == p.b[x + 1][y + 1]
      IN CASE p.kind = "near" -> Near(a, b, p.bound)
           [] p.kind = "signratio" -> a # NANV /\ b # NANV /\
                 (Abs(b) <= 1000 \/ (SameSign(a, b) /\ 2 * Abs(a) >= Abs(b) /\ Abs(a) <= 2 * Abs(b)))
           [] p.kind = "samesign" -> a # NANV /\ b # NANV /\ a # 0 /\ SameSign(a, b)
           \* (values below 5 % of the cell's own scale, or below 2 % of the largest value of the grid, are too close to the zero
           \*  crossing of g_12 for a finite displacement to give their sign)
           [] p.kind = "signratio12" -> a # NANV /\ b # NANV /\
                 (20 * Abs(b) <= Obs.g12scale[x + 1][y + 1] \/ Abs(b) <= 20000 \/ (SameSign(a, b) /\ 3 * Abs(a) >= Abs(b) /\ Abs(a) <= 3 * Abs(b)))
           [] p.kind = "signratio12y" -> a # NANV /\ b # NANV /\
                 (20 * Abs(b) <= Obs.g12scale_ylow[x + 1][y + 1] \/ Abs(b) <= 20000 \/ (SameSign(a, b) /\ 3 * Abs(a) >= Abs(b) /\ Abs(a) <= 3 * Abs(b)))
           [] OTHER -> FALSE
PairClauses == \A k \in 1..Len(Obs.pairs) : ClauseAt(Obs.pairs[k].clause, PairOK(Obs.pairs[k]), Obs.pairs[k].loc)

\* C03: a single sign of Bp for the whole grid; scalars
C03Extra ==
  /\ ClauseAt("OneBpSign", \A loc \in {"centre", "xlow", "ylow"} : \A x \in XS : \A y \in YS :
         Obs.bpsign_all[loc][x + 1][y + 1] = Obs.bpsign_all["centre"][1][1] /\ Obs.bpsign_all["centre"][1][1] # 0, "all")
  /\ \A k \in DOMAIN Obs.scalars : ClauseAt("Scalar_" \o k, Near(Obs.scalars[k][1], Obs.scalars[k][2], 100), "scalar")

--------------------------------------------------------------------------
(* C05 / C06: arc lengths and field-line integrals along chains of y-connected regions *)
Down(x, y) ==
  LET r == RegY(y)  s1 == SegX(x) IN
  IF y > RY0(r) THEN y - 1
  ELSE IF LowerOf(conn, s1, r) = {} THEN -1 ELSE LastRow(CHOOSE r2 \in LowerOf(conn, s1, r) : TRUE)
Up(x, y) == LayoutUp(conn, cfg.nx, cfg.ny, cfg.G, x, y)

\* the chain of the specification (documented start) that region r belongs to in segment s1
ChainOf(s1, r) == CHOOSE g \in YGroupsOfSeg(conn, s1) : \E k \in 1..Len(g) : g[k] = r
ClosedX(x) == \E g \in YGroupsOfSeg(conn, SegX(x)) : IsPeriodic(conn, SegX(x), g)
OnClosed(x, y) == IsPeriodic(conn, SegX(x), ChainOf(SegX(x), RegY(y)))
\* upper face of cell (x, y) is the place where a closed chain wraps round (documented start of the chain)
IsWrap(x, y) == LET g == ChainOf(SegX(x), RegY(y)) IN
  OnClosed(x, y) /\ RegY(y) = g[Len(g)] /\ y = LastRow(RegY(y))
\* first row of the chain that (x, y) belongs to
ChainFirstRow(x, y) == RY0(ChainOf(SegX(x), RegY(y))[1])
\* radial faces that are a separatrix through an X-point (xlow location of column x)
SepFace(x) == \E X \in XPts : x = XFace(X)

RelNear(a, b, N) == a # NANV /\ b # NANV /\ Abs(a - b) <= 2000000 /\ N * Abs(a - b) <= Abs(b) + 2 * N
\* relative bound 1/N plus an absolute floor F (in quanta)
RelNearF(a, b, N, F) == a # NANV /\ b # NANV /\ Abs(a - b) <= 2000000 /\ N * Abs(a - b) <= Abs(b) + F * N
SumOver(S, f(_)) == LET RECURSIVE Sm(_)
                        Sm(U) == IF U = {} THEN 0 ELSE LET e == CHOOSE e \in U : TRUE IN f(e) + Sm(U \ {e})
                    IN Sm(S)
ClosedRows(x) == {y \in YS : OnClosed(x, y)}

HyTol == 100        \* 1 per cent of the cell's arc (chord error of the fine contour; C05 states O(1/Nfine^2))
\* plus an absolute allowance for locating a grid point between two fine-contour points: O(spacing^2 * curvature),
\* 2e-4 m at Nfine = 100 (quantum 1e-7 m), scaling with 1/Nfine^2
LenFloor == (2000 * 10000) \div (Obs.nfine * Obs.nfine)
ArcNear(a, b) == RelNearF(a, b, HyTol, LenFloor)
\* C02: "the covariant components reproduce the scalar products of the actual displacements ... (the poloidal part of g_22)": dy times the
\* square root of g_22 - (R dphidy)^2, as written in the file, is the arc between the neighbouring points along the surface - at the centre
\* (face to face) and at ylow (centre to centre, across region joins too: the neighbour below comes from the specification's adjacency)
C02ArcClauses ==
  LET A == Obs.arc  S == Obs.g22pol IN
  /\ ClauseAt("Displacement_g_22pol_arc", \A x \in XS : \A y \in YS :
        ArcNear(S.centre[x + 1][y + 1], A.Alo_c[x + 1][y + 1] + A.Ahi_c[x + 1][y + 1]), "centre")
  /\ ClauseAt("Displacement_g_22pol_arc", \A x \in XS : \A y \in YS :
        Down(x, y) # -1 => ArcNear(S.ylow[x + 1][y + 1], A.Alo_c[x + 1][y + 1] + A.Ahi_c[x + 1][Down(x, y) + 1]), "ylow")
C05Clauses ==
  LET A == Obs.arc  H == Obs.hydy  PD == Obs.pd IN
  /\ \A loc \in {"centre", "ylow", "xlow"} :
       ClauseAt("HyPositive", \A x \in XS : \A y \in YS : H[loc][x + 1][y + 1] > 0 /\ H[loc][x + 1][y + 1] # NANV, loc)
  /\ ClauseAt("HyCentreIsArc", \A x \in XS : \A y \in YS :
        ArcNear(H.centre[x + 1][y + 1], A.Alo_c[x + 1][y + 1] + A.Ahi_c[x + 1][y + 1]), "centre")
  \* boundary guard cells lie on the short, nearly straight continuation of the contour beyond the target: there hy dy is the arc to 5e-4 (measured
  \* on the unchanged tree: 2.2e-5 at worst, whatever Nfine); a chord measured instead of the arc misses by 1.5e-3 (seed C05_guard_distance_by_chord)
  /\ ClauseAt("HyGuardCellIsArc", \A x \in XS : \A y \in YS :
        ~IsGuard(y) \/ RelNearF(H.centre[x + 1][y + 1], A.Alo_c[x + 1][y + 1] + A.Ahi_c[x + 1][y + 1], 2000, 30), "guards")
  /\ ClauseAt("HyYlowIsArc", \A x \in XS : \A y \in YS :
        Down(x, y) # -1 => ArcNear(H.ylow[x + 1][y + 1], A.Alo_c[x + 1][y + 1] + A.Ahi_c[x + 1][Down(x, y) + 1]), "ylow")
  /\ ClauseAt("HyXlowIsArc", \A x \in XS : \A y \in YS :
        (SepFace(x) /\ XRow(y)) \/ ArcNear(H.xlow[x + 1][y + 1], A.Alo_l[x + 1][y + 1] + A.Ahi_l[x + 1][y + 1]), "xlow")
  \* poloidal_distance: increments are the arcs, hence strictly increasing
  /\ ClauseAt("PDIncrementsAreArcs", \A x \in XS : \A y \in YS :
        /\ ArcNear(PD.centre[x + 1][y + 1] - PD.ylow[x + 1][y + 1], A.Alo_c[x + 1][y + 1])
        /\ ArcNear(PD.hi_c[x + 1][y + 1] - PD.centre[x + 1][y + 1], A.Ahi_c[x + 1][y + 1]), "centre")
  /\ ClauseAt("PDIncrementsAreArcs", \A x \in XS : \A y \in YS :
        (SepFace(x) /\ XRow(y)) \/
        /\ ArcNear(PD.xlow[x + 1][y + 1] - PD.corner[x + 1][y + 1], A.Alo_l[x + 1][y + 1])
        /\ ArcNear(PD.hi_l[x + 1][y + 1] - PD.xlow[x + 1][y + 1], A.Ahi_l[x + 1][y + 1]), "xlow")
  /\ ClauseAt("PDMonotone", \A x \in XS : \A y \in YS :
        /\ PD.ylow[x + 1][y + 1] < PD.centre[x + 1][y + 1] /\ PD.centre[x + 1][y + 1] < PD.hi_c[x + 1][y + 1]
        /\ PD.corner[x + 1][y + 1] < PD.xlow[x + 1][y + 1] /\ PD.xlow[x + 1][y + 1] < PD.hi_l[x + 1][y + 1], "all")
  \* continuous across every join except where a closed chain wraps round
  /\ ClauseAt("PDContinuousAtJoins", \A x \in XS : \A y \in YS :
        (y = LastRow(RegY(y)) /\ Up(x, y) # -1 /\ ~IsWrap(x, y)) =>
           /\ Near(PD.hi_c[x + 1][y + 1], PD.ylow[x + 1][Up(x, y) + 1], 20)
           /\ Near(PD.hi_l[x + 1][y + 1], PD.corner[x + 1][Up(x, y) + 1], 20), "all")
  \* measured from the lower target (open chains) / from the documented start of the closed chain
  /\ ClauseAt("PDStartsAtLowerTarget", \A x \in XS : \A y \in YS :
        (~OnClosed(x, y) /\ y = ChainFirstRow(x, y) + cfg.G) =>
           Near(PD.ylow[x + 1][y + 1], 0, 20) /\ Near(PD.corner[x + 1][y + 1], 0, 20), "open")
  /\ ClauseAt("PDStartsAtChainStart", \A x \in XS : \A y \in YS :
        (OnClosed(x, y) /\ y = ChainFirstRow(x, y)) =>
           Near(PD.ylow[x + 1][y + 1], 0, 20) /\ Near(PD.corner[x + 1][y + 1], 0, 20), "closed")
  /\ ClauseAt("TotalIsCircumference", \A x \in XS :
        ClosedX(x) => RelNear(Obs.total_pd[x + 1], SumOver(ClosedRows(x), LAMBDA y : A.Alo_c[x + 1][y + 1] + A.Ahi_c[x + 1][y + 1]), HyTol), "closed")
  /\ ClauseAt("TotalNaNOnlyOutsideCore", \A x \in XS : (Obs.total_pd[x + 1] = NANV) = ~ClosedX(x), "all")

ZTol == 50          \* 2 per cent of the cell's integral (trapezoid rule on the fine contour)
ZTolX == 10         \* 10 per cent in the rows next to an X-point, where the integrand Bt/(R|Bp|) rises steeply
ZNear(a, b, y) == RelNear(a, b, IF XRow(y) THEN ZTolX ELSE ZTol)
C06Clauses ==
  LET I == Obs.int  Z == Obs.zs IN
  /\ PairClauses
  /\ ClauseAt("ZShiftIncrementsAreIntegrals", Obs.has_bt = 0 \/ \A x \in XS : \A y \in YS :
        /\ ZNear(Z.centre[x + 1][y + 1] - Z.ylow[x + 1][y + 1], I.Ilo_c[x + 1][y + 1], y)
        /\ ZNear(Z.hi_c[x + 1][y + 1] - Z.centre[x + 1][y + 1], I.Ihi_c[x + 1][y + 1], y), "centre")
  \* on the separatrix surface itself the integrand is singular at the X-point: not demanded there
  /\ ClauseAt("ZShiftIncrementsAreIntegrals", Obs.has_bt = 0 \/ \A x \in XS : \A y \in YS :
        SepFace(x) \/
        /\ ZNear(Z.xlow[x + 1][y + 1] - Z.corner[x + 1][y + 1], I.Ilo_l[x + 1][y + 1], y)
        /\ ZNear(Z.hi_l[x + 1][y + 1] - Z.xlow[x + 1][y + 1], I.Ihi_l[x + 1][y + 1], y), "xlow")
  /\ ClauseAt("ZShiftContinuousExceptStart", \A x \in XS : \A y \in YS :
        (y = LastRow(RegY(y)) /\ Up(x, y) # -1 /\ ~IsWrap(x, y)) =>
           /\ Near(Z.hi_c[x + 1][y + 1], Z.ylow[x + 1][Up(x, y) + 1], 20)
           /\ Near(Z.hi_l[x + 1][y + 1], Z.corner[x + 1][Up(x, y) + 1], 20), "all")
  /\ ClauseAt("ZShiftStartsAtChainStart", \A x \in XS : \A y \in YS :
        ((~OnClosed(x, y) /\ y = ChainFirstRow(x, y) + cfg.G) \/ (OnClosed(x, y) /\ y = ChainFirstRow(x, y))) =>
           Near(Z.ylow[x + 1][y + 1], 0, 20) /\ Near(Z.corner[x + 1][y + 1], 0, 20), "all")
  \* the single jump of a closed chain is ShiftAngle and sits at the chain start
  /\ ClauseAt("JumpIsShiftAngle", \A x \in XS : \A y \in YS :
        IsWrap(x, y) => Near(Z.hi_c[x + 1][y + 1] - Z.ylow[x + 1][Up(x, y) + 1], Obs.shiftangle[x + 1], 20), "closed")
  /\ ClauseAt("ShiftAngleIsTotal", Obs.has_bt = 0 \/ \A x \in XS :
        ClosedX(x) => RelNear(Obs.shiftangle[x + 1], SumOver(ClosedRows(x), LAMBDA y : I.Ilo_c[x + 1][y + 1] + I.Ihi_c[x + 1][y + 1]), ZTol), "closed")
  \* ... also on the x-faces, where it is written only through chi_xlow = 2 pi zShift_xlow / ShiftAngle_xlow (faces inside the separatrix)
  /\ ClauseAt("ShiftAngleIsTotal", Obs.has_bt = 0 \/ \A x \in XS :
        ClosedX(x) => (Obs.shiftangle_xlow[x + 1] # NANV /\
                       RelNear(Obs.shiftangle_xlow[x + 1], SumOver(ClosedRows(x), LAMBDA y : I.Ilo_l[x + 1][y + 1] + I.Ihi_l[x + 1][y + 1]), ZTol)), "closed_xlow")
  /\ ClauseAt("ShiftAngleNaNOnlyOnOpen", \A x \in XS : (Obs.shiftangle[x + 1] = NANV) = ~ClosedX(x), "all")
  /\ ClauseAt("ShiftAngleIsTwoPiQ", "circ_q2pi" \notin DOMAIN Obs \/ Obs.circ_q2pi = NANV
                                     \/ \A x \in XS : RelNear(Obs.shiftangle[x + 1], Obs.circ_q2pi, 200), "circular")
  \* ShiftTorsion is the centred x-derivative of dphidy: (f_xlow[x+1] - f_xlow[x]) / dx at cell centres
  /\ ClauseAt("ShiftTorsionIsDDX", \A x \in XS : \A y \in YS :
        Near(Obs.ddx.st_times_dx[x + 1][y + 1], Obs.ddx.f_xhi[x + 1][y + 1] - Obs.ddx.f_xlow[x + 1][y + 1], 100), "centre")
  \* ... and at the x-faces the difference of dphidy between the two adjacent cell centres (also across the radial joins between
  \* regions), at the inner edge of the grid twice the difference between the first centre and the face; dx at an x-face is the
  \* psi difference between those centres: half the sum of the two cells' dx (the full dx of the first cell at the inner edge)
  /\ ClauseAt("ShiftTorsionIsDDX", \A x \in XS : \A y \in YS :
        IF x = 0 THEN Near(Obs.ddx.stx_times_dx[1][y + 1], 2 * (Obs.ddx.f_centre[1][y + 1] - Obs.ddx.f_xlow[1][y + 1]), 200)
        ELSE Near(Obs.ddx.stx_times_dx[x + 1][y + 1], Obs.ddx.f_centre[x + 1][y + 1] - Obs.ddx.f_centre[x][y + 1], 200), "xlow")
  /\ ClauseAt("DxAtFaces", \A x \in XS : \A y \in YS :
        IF x = 0 THEN Near(Obs.ddx.dxl[1][y + 1], Obs.ddx.dxc[1][y + 1], 4)
        ELSE Near(2 * Obs.ddx.dxl[x + 1][y + 1], Obs.ddx.dxc[x + 1][y + 1] + Obs.ddx.dxc[x][y + 1], 8), "xlow")
  \* chi is defined exactly on closed surfaces
  /\ \A loc \in {"centre", "xlow", "ylow"} :
       ClauseAt("ChiDomain", \A x \in XS : \A y \in YS : (Obs.chi_nan[loc][x + 1][y + 1] = 1) = ~OnClosed(x, y), loc)

--------------------------------------------------------------------------
(* C08 on the coordinates of the file: the adjacency READ FROM THE FILE'S INTEGERS with BOUT++'s meaning is the
   adjacency the corner coordinates exhibit *)
BoutNb(x, y) == IF T = "CORE" THEN BoutUp(Load(ObsT), x, y) ELSE BoutUpFile(Load(ObsT), x, y)
SamePoint(P, lx, ly, Q2, mx, my) ==
  /\ Near(P.R[lx + 1][ly + 1], Q2.R[mx + 1][my + 1], 20)
  /\ Near(P.Z[lx + 1][ly + 1], Q2.Z[mx + 1][my + 1], 20)
C08GridClauses ==
  LET P == Obs.pos IN
  /\ ClauseAt("SharedEdgeY", LoadOK(ObsT) => \A x \in XS : \A y \in YS :
        LET u == BoutNb(x, y) IN
        (u # -1 /\ u \in YS) =>
           /\ SamePoint(P.upper_left_corners, x, y, P.corners, x, u)
           /\ SamePoint(P.upper_right_corners, x, y, P.lower_right_corners, x, u)
           /\ SamePoint(P.yhi, x, y, P.ylow, x, u), "y")
  \* one clause instance per radial face, so that a finding names the face
  /\ \A x \in XS :
       x + 1 \in XS => ClauseAt("SharedEdgeX", \A y \in YS :
           /\ SamePoint(P.lower_right_corners, x, y, P.corners, x + 1, y)
           /\ SamePoint(P.upper_right_corners, x, y, P.upper_left_corners, x + 1, y)
           /\ SamePoint(P.xhi, x, y, P.xlow, x + 1, y), "xface" \o ToString(x + 1))
  /\ \A loc \in {"centre", "xlow", "ylow"} :
       ClauseAt("ChiNaNOnOpen", \A x \in XS : \A y \in YS : (Obs.chi_nan[loc][x + 1][y + 1] = 1) = ~OnClosed(x, y), loc)

--------------------------------------------------------------------------
(* C16: a pair of grids, A (this trace's tables) and B *)
\* image under the midplane reflection of cell (x, y) of A: same x, region MirrorRegion, rows reversed
MirY(y) == LET r == RegY(y)
               rb == MirrorRegion(T, r)
               k == y - RY0(r)
               connB == PhysConn(MirrorTopo(T))
           IN Y0(connB, Obs.B.ny, cfg.G, rb) + (NyG(connB, Obs.B.ny, cfg.G, rb) - 1 - k)
\* how each variable changes under the transformation: +1 same, -1 sign flips, 0 not compared
SignTable(kind, v) ==
  CASE kind = "same" -> 1
    \* curvature: b/B = B/B^2; under psi -> -psi the poloidal part of B flips, so (curl)_zeta, grad(x) = grad(psi) and the Bt hy/(Bp R) term of
    \* grad(z) flip while grad(y) (the direction of increasing y) does not: x and z components flip, y does not.  Under Bt -> -Bt the
    \* toroidal part of b/B flips, so (curl)_R and (curl)_Z flip: x and y components flip, z does not (its two terms are each even).
    \* ShiftTorsion = d(dphidy)/dx: odd in Bt, even in the sign of psi (dphidy and x both flip).
    [] kind = "negpsi" -> IF v \in {"psixy", "Bpxy", "Brxy", "Bzxy", "J", "dx", "dphidy", "curl_bOverB_x", "curl_bOverB_z", "bxcvx", "bxcvz"} THEN -1 ELSE 1
    [] kind = "revbt" -> IF v \in {"Btxy", "g23", "g_23", "dphidy", "zShift", "curl_bOverB_x", "curl_bOverB_y", "bxcvx", "bxcvy", "ShiftTorsion"} THEN -1 ELSE 1
    [] kind = "mirror" -> IF v \in {"zShift", "Brxy", "Bzxy"} THEN 0 ELSE 1
    [] OTHER -> 0
C16Clauses ==
  LET PA == Obs.pos.A  PB == Obs.pos.B  mir == Obs.kind = "mirror"
      yb(y) == IF mir THEN MirY(y) ELSE y
      zs == IF mir THEN -1 ELSE 1
  IN
  /\ ClauseAt("PairSizes", Obs.B.NX = NX /\ Obs.B.NY = NY /\ Obs.B.G = cfg.G /\ Obs.B.nx = cfg.nx
                 /\ Obs.B.topo = (IF mir THEN MirrorTopo(T) ELSE T)
                 /\ (mir => \A r \in 1..NR(T) : Obs.B.ny[MirrorRegion(T, r)] = cfg.ny[r])
                 /\ (~mir => Obs.B.ny = cfg.ny), "pair")
  /\ ClauseAt("MirrorIntsAsDocumented", ~mir \/
        LET TB == [nx |-> Obs.B.ints.nx, ny |-> Obs.B.ints.ny, ix1 |-> Obs.B.ints.ixseps1, ix2 |-> Obs.B.ints.ixseps2, j11 |-> Obs.B.ints.jyseps1_1,
                   j21 |-> Obs.B.ints.jyseps2_1, nyInner |-> Obs.B.ints.ny_inner, j12 |-> Obs.B.ints.jyseps1_2, j22 |-> Obs.B.ints.jyseps2_2,
                   G |-> Obs.B.ints.y_boundary_guards]
        IN (IF IsSN(MirrorTopo(T)) THEN [TB EXCEPT !.nyInner = 0] ELSE TB) \in SpecIntsSet(MirrorTopo(T), cfg.nx, Obs.B.ny, cfg.G)
           /\ Obs.B.conn = PhysConn(MirrorTopo(T)), "pair")
  \* positions: equal R, Z equal or negated; a lower y-face of A is the upper y-face of the mirrored cell
  /\ ClauseAt("PairPositions", \A x \in XS : \A y \in YS : IsGuard(y) \/
        /\ Near(PA.Rc[x + 1][y + 1], PB.Rc[x + 1][yb(y) + 1], 50) /\ Near(PA.Zc[x + 1][y + 1], zs * PB.Zc[x + 1][yb(y) + 1], 50)
        /\ Near(PA.Rx[x + 1][y + 1], PB.Rx[x + 1][yb(y) + 1], 50) /\ Near(PA.Zx[x + 1][y + 1], zs * PB.Zx[x + 1][yb(y) + 1], 50)
        \* y-faces inside a region (a lower face of A is the upper face of the mirrored cell)
        /\ (y = RY0(RegY(y)) \/
             IF mir THEN Near(PA.Rlo[x + 1][y + 1], PB.Rhi[x + 1][yb(y) + 1], 50) /\ Near(PA.Zlo[x + 1][y + 1], -PB.Zhi[x + 1][yb(y) + 1], 50)
                    ELSE Near(PA.Rlo[x + 1][y + 1], PB.Rlo[x + 1][y + 1], 50) /\ Near(PA.Zlo[x + 1][y + 1], PB.Zlo[x + 1][y + 1], 50)), "cells")
  \* y-faces that are joins between regions (the first face of a region that has a lower neighbour)
  /\ ClauseAt("PairJoinFaces", \A x \in XS : \A y \in YS : (IsGuard(y) \/ y # RY0(RegY(y)) \/ Down(x, y) = -1) \/
             IF mir THEN Near(PA.Rlo[x + 1][y + 1], PB.Rhi[x + 1][yb(y) + 1], 50) /\ Near(PA.Zlo[x + 1][y + 1], -PB.Zhi[x + 1][yb(y) + 1], 50)
                    ELSE Near(PA.Rlo[x + 1][y + 1], PB.Rlo[x + 1][y + 1], 50) /\ Near(PA.Zlo[x + 1][y + 1], PB.Zlo[x + 1][y + 1], 50), "joins")
  /\ ClauseAt("PairPositionsGuardCells", \A x \in XS : \A y \in YS : ~IsGuard(y) \/
        /\ Near(PA.Rc[x + 1][y + 1], PB.Rc[x + 1][yb(y) + 1], 50) /\ Near(PA.Zc[x + 1][y + 1], zs * PB.Zc[x + 1][yb(y) + 1], 50), "guards")
  \* fields: equal, or with the sign the table gives (magnitudes for the mirror)
  /\ \A k \in 1..Len(Obs.scnames) :
       LET v == Obs.scnames[k]
           sg == SignTable(Obs.kind, v)
       IN ClauseAt("PairField_" \o v, sg = 0 \/ \A x \in XS : \A y \in YS : IsGuard(y) \/
             LET a == Obs.sc[v].A[x + 1][y + 1]  b == Obs.sc[v].B[x + 1][yb(y) + 1] IN
             IF mir /\ v \notin {"psixy", "hy", "Bxy"} THEN Near(Abs(a), Abs(b), 100) ELSE Near(a, sg * b, 100), Obs.kind)

--------------------------------------------------------------------------
(* C12: the written file is a valid grid (GridFile: documented variable set, shapes, allowed NaNs) *)
Field2DNames == {"Rxy", "Zxy", "psixy", "dx", "dy", "poloidal_distance", "Brxy", "Bzxy", "Bpxy", "Btxy", "Bxy", "hy", "dphidy", "ShiftTorsion",
                 "zShift", "g11", "g22", "g33", "g12", "g13", "g23", "J", "g_11", "g_22", "g_33", "g_12", "g_13", "g_23",
                 "curl_bOverB_x", "curl_bOverB_y", "curl_bOverB_z", "bxcvx", "bxcvy", "bxcvz", "y-coord", "theta", "chi"}
CornerNames == {"Rxy_corners", "Zxy_corners", "Rxy_lower_right_corners", "Zxy_lower_right_corners", "Rxy_upper_right_corners",
                "Zxy_upper_right_corners", "Rxy_upper_left_corners", "Zxy_upper_left_corners"}
IntNames == {"nx", "ny", "y_boundary_guards", "ixseps1", "ixseps2", "jyseps1_1", "jyseps2_1", "jyseps1_2", "jyseps2_2", "ny_inner"}
Documented2D == UNION {{n, n \o "_xlow", n \o "_ylow"} : n \in Field2DNames} \cup CornerNames \cup {"penalty_mask"}
               \cup (IF Obs.orth = 1 THEN {"hthe", "hthe_xlow", "hthe_ylow"} ELSE {})
               \cup (IF Obs.has_pressure = 1 THEN {"pressure", "pressure_xlow", "pressure_ylow"} ELSE {})
DocumentedX == {"ShiftAngle", "total_poloidal_distance"}
\* (the circular cases and the isolated X-point of TORPEX have no magnetic axis / separatrix pair to report)
DocumentedScalars == IntNames \cup {"Bt_axis", "curvature_type"} \cup (IF T \in {"CORE", "LIM", "XPT"} THEN {} ELSE {"psi_axis", "psi_bdry"})
VarSet == {Obs.vars[k] : k \in 1..Len(Obs.vars)}
IsChi(n) == n \in {"chi", "chi_xlow", "chi_ylow"}
C12Clauses ==
  /\ ClauseAt("AllDocumentedPresent", (Documented2D \cup DocumentedX \cup DocumentedScalars \cup {"closed_wall_R", "closed_wall_Z",
                                        "hypnotoad_inputs", "hypnotoad_inputs_yaml"}) \subseteq VarSet, "file")
  /\ ClauseAt("Shapes2D", \A n \in Documented2D : n \in VarSet => Obs.shapes[n] = <<NX, NY>>, "file")
  /\ ClauseAt("ShapesX", \A n \in DocumentedX : n \in VarSet => Obs.shapes[n] = <<NX>>, "file")
  /\ ClauseAt("ShapesScalar", \A n \in IntNames \cup {"Bt_axis"} : n \in VarSet => Obs.shapes[n] = <<>>, "file")
  /\ ClauseAt("WallClosed", Obs.nwall >= 4 /\ Obs.shapes["closed_wall_Z"] = Obs.shapes["closed_wall_R"], "file")
  \* every value finite, except chi off the closed surfaces and the two x-arrays outside the core
  /\ \A k \in 1..Len(Obs.names2d) :
        LET n == Obs.names2d[k] IN
        ClauseAt("FiniteExceptAllowedNaN", Obs.shapes[n] = <<NX, NY>> =>
          \A x \in XS : \A y \in YS : Obs.nan2d[n][x + 1][y + 1] = 1 => (IsChi(n) /\ ~OnClosed(x, y)), n)
  /\ ClauseAt("FiniteExceptAllowedNaN", \A k \in 1..Len(Obs.names1d) :
        LET n == Obs.names1d[k] IN
          \A i \in 1..Len(Obs.nan1d[n]) : Obs.nan1d[n][i] = 1 => (n \in DocumentedX /\ Len(Obs.nan1d[n]) = NX /\ ~ClosedX(i - 1)), "1d")
  /\ ClauseAt("FiniteExceptAllowedNaN", \A k \in 1..Len(Obs.names0d) : Obs.nan0d[Obs.names0d[k]] = 0, "0d")
  /\ ClauseAt("HyDyPositive", \A n \in DOMAIN Obs.positive : \A x \in XS : \A y \in YS : Obs.positive[n][x + 1][y + 1] = 1, "2d")
  /\ ClauseAt("NoFoldedCell", \A x \in XS : \A y \in YS :
        /\ Obs.orient.ll[x + 1][y + 1] # 0 /\ Obs.orient.ll[x + 1][y + 1] = Obs.orient.ll[1][1]
        /\ Obs.orient.ur[x + 1][y + 1] = Obs.orient.ll[1][1], "2d")
  /\ ClauseAt("InputsYamlLoads", Obs.text_ok.yaml = 1, "file")

--------------------------------------------------------------------------
(* C09 on grids: dx is the psi difference between the x-faces of each cell; psi at the x-faces is strictly monotone in x *)
C09Clauses ==
  /\ \A loc \in {"centre", "ylow"} :
       ClauseAt("DxIsFaceDifference", \A x \in XS : \A y \in YS :
          LET pv == Obs.psivals9[MeshId(x, y) + 1]  i == x - SX0(SegX(x)) IN
          Near(Obs.dx9[loc][x + 1][y + 1], pv[2 * i + 3] - pv[2 * i + 1], 4), loc)
  \* at an x-face dx is what a centred difference across the face divides by: the psi difference between the two adjacent cell centres,
  \* also across the joins between radial segments; at the inner edge of the grid twice the distance from the face to the first centre
  /\ ClauseAt("DxIsCentreDifferenceAtFaces", \A x \in XS : \A y \in YS :
          IF x = 0 THEN Near(Obs.dx9.xlow[1][y + 1], 2 * (Obs.psic9[1][y + 1] - Obs.psixl9[1][y + 1]), 6)
          ELSE Near(Obs.dx9.xlow[x + 1][y + 1], Obs.psic9[x + 1][y + 1] - Obs.psic9[x][y + 1], 6), "xlow")
  /\ ClauseAt("PsixyXlowMonotone", \A x \in XS : \A y \in YS :
          x + 1 \in XS => (Obs.psixl9[x + 2][y + 1] - Obs.psixl9[x + 1][y + 1]) * Obs.bpsign > 0, "xlow")
  /\ ClauseAt("RadialListMonotone", \A k \in 1..Len(Obs.psivals9) : \A j \in 1..(Len(Obs.psivals9[k]) - 1) :
          (Obs.psivals9[k][j + 1] - Obs.psivals9[k][j]) * Obs.bpsign > 0, "all")

--------------------------------------------------------------------------
(* C10 on grids *)
\* (a) along every flux surface the points lower face -> centre -> upper face of every cell (guard cells included) advance in the same
\*     direction of the oracle's tangent, and the code's own poloidal distance increases strictly along them
\* (b) pair "nested": B is the same configuration with all ny doubled; every y-face (and cell centre) of A is a y-face of B
FineY(y) == LET r == RegY(y)
                off == IF HasLower(conn, r) THEN 0 ELSE cfg.G
                k == y - RY0(r) - off
            IN Y0(conn, Obs.B.ny, cfg.G, r) + off + 2 * k
C10Clauses ==
  IF Obs.kind = "single" THEN
    /\ ClauseAt("PoloidalOrderStrict", \A x \in XS : \A y \in YS : Obs.step.c1[x + 1][y + 1] # NANV /\ Obs.step.c1[x + 1][y + 1] > 0
                                                               /\ Obs.step.c2[x + 1][y + 1] # NANV /\ Obs.step.c2[x + 1][y + 1] > 0, "centre")
    /\ ClauseAt("PoloidalOrderStrict", \A x \in XS : \A y \in YS : Obs.step.l1[x + 1][y + 1] # NANV /\ Obs.step.l1[x + 1][y + 1] > 0
                                                               /\ Obs.step.l2[x + 1][y + 1] # NANV /\ Obs.step.l2[x + 1][y + 1] > 0, "xlow")
    /\ ClauseAt("PoloidalDistanceStrict", \A x \in XS : \A y \in YS : Obs.pdstep.c1[x + 1][y + 1] # NANV /\ Obs.pdstep.c1[x + 1][y + 1] > 0
                                                                  /\ Obs.pdstep.c2[x + 1][y + 1] # NANV /\ Obs.pdstep.c2[x + 1][y + 1] > 0, "centre")
    /\ ClauseAt("PoloidalDistanceStrict", \A x \in XS : \A y \in YS : Obs.pdstep.l1[x + 1][y + 1] # NANV /\ Obs.pdstep.l1[x + 1][y + 1] > 0
                                                                  /\ Obs.pdstep.l2[x + 1][y + 1] # NANV /\ Obs.pdstep.l2[x + 1][y + 1] > 0, "xlow")
  ELSE
    LET PA == Obs.pos.A  PB == Obs.pos.B IN
    /\ ClauseAt("NestedSizes", Obs.B.NX = NX /\ Obs.B.G = cfg.G /\ Obs.B.nx = cfg.nx /\ Obs.B.topo = T /\ Obs.B.conn = conn
                                /\ \A r \in 1..NR(T) : Obs.B.ny[r] = 2 * cfg.ny[r], "pair")
    /\ ClauseAt("NestedFaces", \A x \in XS : \A y \in YS : IsGuard(y) \/
          LET f == FineY(y) IN
          /\ Near(PA.Rlo[x + 1][y + 1], PB.Rlo[x + 1][f + 1], 10) /\ Near(PA.Zlo[x + 1][y + 1], PB.Zlo[x + 1][f + 1], 10)
          /\ Near(PA.Rhi[x + 1][y + 1], PB.Rhi[x + 1][f + 2], 10) /\ Near(PA.Zhi[x + 1][y + 1], PB.Zhi[x + 1][f + 2], 10)
          /\ Near(PA.Rc[x + 1][y + 1], PB.Rhi[x + 1][f + 1], 10) /\ Near(PA.Zc[x + 1][y + 1], PB.Zhi[x + 1][f + 1], 10), "ylow")
    /\ ClauseAt("NestedFaces", \A x \in XS : \A y \in YS : IsGuard(y) \/
          LET f == FineY(y) IN
          /\ Near(PA.Rk[x + 1][y + 1], PB.Rk[x + 1][f + 1], 10) /\ Near(PA.Zk[x + 1][y + 1], PB.Zk[x + 1][f + 1], 10)
          /\ Near(PA.Rkhi[x + 1][y + 1], PB.Rkhi[x + 1][f + 2], 10) /\ Near(PA.Zkhi[x + 1][y + 1], PB.Zkhi[x + 1][f + 2], 10), "corners")

--------------------------------------------------------------------------
(* C11 on grids: targets on the wall, cells inside, guard cells outside, penalty_mask cases, wall output *)
BWall == 500          \* 5e-6 m (quantum 1e-8): the wall point comes from the chord between two FineContour points (Nfine >= 50) and is then moved onto its surface
WallLower(r) == ~HasLower(conn, r)
WallUpper(r) == ~HasUpper(conn, r)
TargetLoY(r) == RY0(r) + cfg.G                    \* the cell whose lower y-face is the target
TargetHiY(r) == RY0(r) + RNy(r) - 1 - cfg.G       \* the cell whose upper y-face is the target
SepFacesOf(r) == {XFace(X) : X \in {X2 \in XPts : r \in StartsAt(X2) \cup EndsAt(X2)}}
Md11(a, b) == a - b * (a \div b)
Shoe3(w) == LET n == Len(w) IN
  LET S[i \in 0..(n - 1)] == IF i = 0 THEN 0 ELSE S[i - 1] + w[i][1] * w[i + 1][2] - w[i + 1][1] * w[i][2] IN S[n - 1]
C11Clauses ==
  IF Obs.haswall = 0 THEN TRUE ELSE
  LET D == Obs.dw  I == Obs.inw  orth == Obs.orth = 1 IN
  /\ ClauseAt("TargetOnWall", \A r \in 1..NR(T) :
        /\ WallLower(r) => \A x \in XS : (orth \/ (D.lo[x + 1][TargetLoY(r) + 1] <= BWall /\ D.klo[x + 1][TargetLoY(r) + 1] <= BWall))
                                        /\ (x \in SepFacesOf(r) => D.klo[x + 1][TargetLoY(r) + 1] <= BWall)
        /\ WallUpper(r) => \A x \in XS : (orth \/ (D.hi[x + 1][TargetHiY(r) + 1] <= BWall /\ D.khi[x + 1][TargetHiY(r) + 1] <= BWall))
                                        /\ (x \in SepFacesOf(r) => D.khi[x + 1][TargetHiY(r) + 1] <= BWall), "faces")
  /\ ClauseAt("TargetOnSurface", \A r \in 1..NR(T) : \A x \in XS :
        /\ WallLower(r) => Near(Obs.psi_t.lo[x + 1][TargetLoY(r) + 1], Obs.psivals[MeshId(x, TargetLoY(r)) + 1][PsiK("ylow", x)], BPsi)
        /\ WallUpper(r) => Near(Obs.psi_t.hi[x + 1][TargetHiY(r) + 1], Obs.psivals[MeshId(x, TargetHiY(r)) + 1][PsiK("ylow", x)], BPsi), "faces")
  \* non-orthogonal: every cell between the targets has its centre inside the wall, every boundary guard cell outside;
  \* orthogonal: the same along the separatrix (corner points of the separatrix x-face), where the target is on the wall
  \* (with a limiter that reaches into the scrape-off layer between the targets the statement is about the leg regions only: the cells
  \*  under the limiter are outside the wall by construction of the input, and penalty_mask - next clause - is what reports them)
  /\ ClauseAt("InsideBetweenTargets", \A x \in XS : \A y \in YS : IsGuard(y) \/ (Obs.protruding = 1 /\ ~WallLower(RegY(y)) /\ ~WallUpper(RegY(y))) \/
        IF ~orth THEN I.c[x + 1][y + 1] = 1
        ELSE x \in SepFacesOf(RegY(y)) => /\ (I.klo[x + 1][y + 1] = 1 \/ D.klo[x + 1][y + 1] <= BWall)
                                          /\ (I.khi[x + 1][y + 1] = 1 \/ D.khi[x + 1][y + 1] <= BWall), "cells")
  /\ ClauseAt("GuardsOutside", \A x \in XS : \A y \in YS : ~IsGuard(y) \/
        IF ~orth THEN I.c[x + 1][y + 1] = 0
        ELSE x \in SepFacesOf(RegY(y)) => /\ (I.klo[x + 1][y + 1] = 0 \/ D.klo[x + 1][y + 1] <= BWall)
                                          /\ (I.khi[x + 1][y + 1] = 0 \/ D.khi[x + 1][y + 1] <= BWall), "guards")
  \* penalty_mask: 0 when both y-faces are inside, 1 when both are outside, otherwise the outside fraction of the cell's poloidal extent
  /\ ClauseAt("PenaltyCases", \A x \in XS : \A y \in YS :
        LET a == I.lo[x + 1][y + 1]  b == I.hi[x + 1][y + 1]
            strict == D.lo[x + 1][y + 1] > BWall /\ D.hi[x + 1][y + 1] > BWall
            pm == Obs.pm[x + 1][y + 1]
        IN IF strict /\ a = 1 /\ b = 1 THEN pm = 0
           ELSE IF strict /\ a = 0 /\ b = 0 THEN pm = 1000000
           ELSE Near(pm, Obs.frac[x + 1][y + 1], 1000), "cells")
  \* closed_wall_R/Z: closed, anticlockwise, the input polygon's vertex cycle (rotated, and reversed if the input was clockwise)
  /\ ClauseAt("WallIsInput",
        LET wo == Obs.wall_out7  wi == Obs.wall_in7  n == Len(wi) IN
        /\ Len(wo) = n + 1 /\ wo[1] = wo[n + 1]
        /\ Shoe3(Obs.wall_out3) > 0
        /\ \E sh \in 0..(n - 1) : \E dir \in {1, -1} : \A k \in 1..n :
              LET j == Md11(sh + dir * (k - 1) + 2 * n, n) + 1 IN
              Abs(wo[k][1] - wi[j][1]) <= 1 /\ Abs(wo[k][2] - wi[j][2]) <= 1, "wall")

--------------------------------------------------------------------------
(* C04 on orthogonal grids: radially adjacent contour points lie on one integral curve of grad(psi) *)
\* Obs.c04[id + 1].dev[k][j]: k = 1..2nx (pair of lattice columns k, k+1; column 1 is the inner x-face), j = 1..2ny+1 (row 1 is the
\* lower y-face).  A pair is excused when one of its points is an X-point (grad(psi) = 0 there): first / last row of a region that
\* starts / ends at an X-point, at the column of that X-point's separatrix.
SepCol(r, s1, X) == IF XFace(X) = SX0(s1) THEN 1 ELSE IF s1 < NSeg(T) /\ XFace(X) = SX0(s1 + 1) THEN 2 * cfg.nx[s1] + 1
                    ELSE IF s1 = NSeg(T) /\ XFace(X) = SX0(s1) + cfg.nx[s1] THEN 2 * cfg.nx[s1] + 1 ELSE 0
Excused(r, s1, k, j) ==
  \E X \in XPts :
     LET c == SepCol(r, s1, X) IN
     /\ c # 0 /\ (k = c \/ k + 1 = c)
     /\ \/ (r \in StartsAt(X) /\ j = 1)
        \/ (r \in EndsAt(X) /\ j = 2 * RNy(r) + 1)
AdjXRow(y) == XRow(y) \/ (y > 0 /\ XRow(y - 1)) \/ (y + 1 < NY /\ XRow(y + 1))
C04Clauses ==
  IF Obs.orth = 0 THEN TRUE ELSE
  /\ ClauseAt("SameIntegralCurve", \A r \in 1..NR(T) : \A s1 \in 1..NSeg(T) :
        LET dv == Obs.c04[IdOf(r, s1) + 1].dev IN
        /\ Len(dv) = 2 * cfg.nx[s1]
        /\ \A k \in 1..Len(dv) : /\ Len(dv[k]) = 2 * RNy(r) + 1
                                  /\ \A j \in 1..Len(dv[k]) : Excused(r, s1, k, j) \/ (dv[k][j] # NANV /\ dv[k][j] <= 500), "pairs")     \* 5e-6 m
  \* ... and it is ONE curve through all radial segments of the region: where a segment ends, the next one starts (same poloidal index,
  \* same point of the shared flux surface)
  /\ ClauseAt("SameIntegralCurveAcrossSegments", \A r \in 1..NR(T) : \A s1 \in 1..(NSeg(T) - 1) :
        LET e == Obs.c04[IdOf(r, s1) + 1] IN
        /\ e.outer = IdOf(r, s1 + 1)
        /\ Len(e.xj) = 2 * RNy(r) + 1
        /\ \A j \in 1..Len(e.xj) : e.xj[j] # NANV /\ e.xj[j] <= 500, "joins")
  /\ ClauseAt("RadialParallelToGradPsi", \A x \in XS : \A y \in YS : TouchesX(x, y) \/ (Obs.sinc[x + 1][y + 1] # NANV /\ Obs.sinc[x + 1][y + 1] <= 60000), "cells")
  /\ ClauseAt("RadialParallelToGradPsi", \A x \in XS : \A y \in YS : AdjXRow(y) \/ (Obs.sinc[x + 1][y + 1] # NANV /\ Obs.sinc[x + 1][y + 1] <= 10000), "awayX")

--------------------------------------------------------------------------
(* C07 pair: the same orthogonal grid with curvature_type "curl(b/B)" (A) and "curl(b/B) with x-y derivatives" (B).  The second
   form differentiates grid quantities with centred differences, so the two agree to the discretisation error of the grid:
   Obs.tolpm = allowed difference in 1e-6 of the largest |A| (set from the resolution: 6 % at nx = 2 per segment, 4.5 % at 4, 2.5 % at 8),
   outside guard cells, the radial edge columns (one-sided differences) and the two rows of cells at an X-point (singular metric) *)
C07PairClauses ==
  /\ ClauseAt("TwoFormsSameGrid", Obs.posdiff <= 100, "pair")
  /\ \A c \in {"x", "y", "z"} :
       ClauseAt("TwoFormsAgree", \A x \in XS : \A y \in YS : (IsGuard(y) \/ XRow(y) \/ x = 0 \/ x = NX - 1) \/
          Near(Obs.curl[c].A[x + 1][y + 1], Obs.curl[c].B[x + 1][y + 1], Obs.tolpm), c)

\* the y component is smooth enough for a much sharper, row-relative statement: within 5 % of the largest |A| of the same row of cells
\* (measured on the unchanged tree: at most 2.4 %); it is what exposes a term dropped from the x-y form where the component is small
\* (the core), which the grid-wide bound above cannot see
RowMaxAbs(M, y) == LET S == {Abs(M[x + 1][y + 1]) : x \in XS} IN CHOOSE m \in S : \A v \in S : v <= m
C07PairRowClauses ==
  ClauseAt("TwoFormsAgreeRowwise", \A y \in YS : IsGuard(y) \/ \A x \in XS : (x = 0 \/ x = NX - 1) \/
      20 * Abs(Obs.curl["y"].A[x + 1][y + 1] - Obs.curl["y"].B[x + 1][y + 1]) <= RowMaxAbs(Obs.curl["y"].A, y) + 40, "y")

--------------------------------------------------------------------------
(* C05 pair: the same configuration at finecontour_Nfine = N (A) and 2N (B).  The discrepancy of hy*dy from the arc shrinks
   quadratically: summed over the cells whose y-faces are both inside a region (the faces on region joins are taken from the
   neighbouring region's contour, a separate recorded finding of ~1e-4 m that does not depend on Nfine) it falls by at least 2.5 *)
C05PairClauses ==
  LET Dom == {<<x, y>> \in XS \X YS : ~IsGuard(y) /\ y # RY0(RegY(y)) /\ y # LastRow(RegY(y))}
      SA == SumOver(Dom, LAMBDA c : Abs(Obs.relerr.A[c[1] + 1][c[2] + 1]))
      SB == SumOver(Dom, LAMBDA c : Abs(Obs.relerr.B[c[1] + 1][c[2] + 1]))
  IN /\ ClauseAt("QuadraticInNfine", Obs.nfineB = 2 * Obs.nfineA /\ Dom # {} /\ 10 * SA >= 25 * SB, "refine")

--------------------------------------------------------------------------
\* a variable the projection needs and the file does not have is itself the observation (a documented output is absent): the clause
\* carries the property whose check asked for it, and nothing else is evaluated on that trace
Observe ==
  /\ stage = "file"
  /\ CASE "missing" \in DOMAIN Obs -> ClauseAt("Present_" \o Obs.prop, FALSE, "file")
       [] Obs.prop = "C01" -> C01Clauses
       [] Obs.prop = "C02" -> PairClauses /\ C02ArcClauses
       [] Obs.prop = "C03" -> PairClauses /\ C03Extra
       [] Obs.prop = "C08" -> C08GridClauses
       [] Obs.prop = "C09" -> C09Clauses
       [] Obs.prop = "C12" -> C12Clauses
       [] Obs.prop = "C16" -> C16Clauses
       [] Obs.prop = "C05" -> IF "kind" \in DOMAIN Obs THEN C05PairClauses ELSE C05Clauses
       [] Obs.prop = "C10" -> C10Clauses
       [] Obs.prop = "C11" -> C11Clauses
       [] Obs.prop = "C04" -> C04Clauses
       [] Obs.prop = "C07" -> IF Obs.kind = "twoforms" THEN C07PairClauses /\ C07PairRowClauses ELSE PairClauses
       [] Obs.prop = "C06" -> C06Clauses
       \* C13: the grid written with worker processes is the serial grid, value for value (the driver compares every numeric variable)
       [] Obs.prop = "C13" -> ClauseAt("ParallelGridIsSerialGrid", Obs.nvars > 50 /\ Obs.ndiff = 0 /\ Obs.nmissing = 0, "pair")
       [] OTHER -> TRUE
  /\ stage' = "observed"
  /\ UNCHANGED <<cfg, conn, rects, ygroups, ints, tid>>

GridNext == TraceNext \/ Observe
GridSpec == TraceInit /\ [][GridNext]_ttvars
=============================================================================
