------------------------------ MODULE Critical ------------------------------
(***************************************************************************)
(* Finding, classifying, ordering and selecting the critical points of psi   *)
(* (C19): the pipeline of critical.find_critical and of                       *)
(* TokamakEquilibrium.makeRegions' X-point filter, over abstract critical     *)
(* points.  An O-point only has a rank of distance to the centre of the       *)
(* domain; an X-point has a rank of |psi - psi_axis| (its own index: X-point  *)
(* k is the k-th closest in psi), and four facts: psi is monotone on the line *)
(* from the primary O-point (`mono'), it is inside the wall, its normalised   *)
(* psi is below psinorm_sol, and it lies below the magnetic axis.             *)
(* The scan meets the points in an arbitrary order and may meet one more than *)
(* once (neighbouring cells converge to the same point).                      *)
(***************************************************************************)
EXTENDS Integers, Sequences, FiniteSets, TLC

CONSTANTS NO, NX          \* numbers of O- and X-points in the searched interior

OPts == 1..NO             \* O-point o has distance rank o (1 = nearest the centre of the domain)
XPts == 1..NX             \* X-point k is the k-th nearest to the axis in psi
Flags == [mono : BOOLEAN, inwall : BOOLEAN, insol : BOOLEAN, below : BOOLEAN, open : BOOLEAN]
\* (`open': both divertor legs of the X-point reach the wall; when the separatrix closes on itself inside the wall - around a second
\*  O-point - the legs cannot be traced and generation is refused)

VARIABLES xf,             \* xf[k] \in Flags
          rawO, rawX,     \* detections in scan order (with duplicates)
          ol, xl,         \* lists after each stage
          stage,          \* "scan" | "dedup" | "ordered" | "selected"
          kept,           \* X-points kept by makeRegions
          verdict         \* "none" | "refused" | "LSN" | "USN" | "LDN" | "UDN"   (LDN / UDN: lower / upper X-point is the primary one;
                          \*    connected or disconnected is the user's nx_inter_sep, not a property of the points)
vars == <<xf, rawO, rawX, ol, xl, stage, kept, verdict>>

Perms(S) == {f \in [1..Cardinality(S) -> S] : \A a, b \in 1..Cardinality(S) : a # b => f[a] # f[b]}
\* a scan order with at most one duplicate detection
Scans(S) == Perms(S) \cup UNION {{Append(p, d) : d \in S} : p \in Perms(S)}

Init == /\ xf \in [XPts -> Flags]
        /\ rawO \in Scans(OPts) /\ rawX \in Scans(XPts)
        /\ ol = <<>> /\ xl = <<>> /\ stage = "scan" /\ kept = <<>> /\ verdict = "none"

\* remove_dup: keep the first detection of each point, in scan order
RECURSIVE Dedup(_, _)
Dedup(s, seen) == IF s = <<>> THEN <<>>
                  ELSE IF Head(s) \in seen THEN Dedup(Tail(s), seen)
                  ELSE <<Head(s)>> \o Dedup(Tail(s), seen \cup {Head(s)})
RemoveDup == /\ stage = "scan"
             /\ ol' = Dedup(rawO, {}) /\ xl' = Dedup(rawX, {})
             /\ stage' = "dedup" /\ UNCHANGED <<xf, rawO, rawX, kept, verdict>>

\* stable sort of a sequence of distinct naturals by their value (the rank)
RECURSIVE SortByRank(_)
SortByRank(s) == IF s = <<>> THEN <<>>
                 ELSE LET m == CHOOSE v \in {s[k] : k \in 1..Len(s)} : \A k \in 1..Len(s) : v <= s[k] IN
                      <<m>> \o SortByRank(SelectSeq(s, LAMBDA v : v # m))
\* sort O-points by distance to the middle of the domain; drop X-points that fail the monotonicity test; sort the rest by |psi - psi_axis|
Order == /\ stage = "dedup"
         /\ ol' = SortByRank(ol)
         /\ xl' = SortByRank(SelectSeq(xl, LAMBDA k : xf[k].mono))
         /\ stage' = "ordered" /\ UNCHANGED <<xf, rawO, rawX, kept, verdict>>

\* makeRegions: keep X-points with normalised psi below psinorm_sol and inside the wall; one -> single null, two -> double null
Select == /\ stage = "ordered"
          /\ LET k == SelectSeq(xl, LAMBDA j : xf[j].insol /\ xf[j].inwall) IN
             /\ kept' = k
             /\ verdict' = IF Len(k) = 0 \/ Len(k) > 2 \/ (\E j \in 1..Len(k) : ~xf[k[j]].open) THEN "refused"
                           ELSE IF Len(k) = 1 THEN (IF xf[k[1]].below THEN "LSN" ELSE "USN")
                           ELSE IF xf[k[1]].below THEN "LDN" ELSE "UDN"
          /\ stage' = "selected" /\ UNCHANGED <<xf, rawO, rawX, ol, xl>>

Next == RemoveDup \/ Order \/ Select
Spec == Init /\ [][Next]_vars

--------------------------------------------------------------------------
(* what the property states, declaratively *)
SeqSet(s) == {s[k] : k \in 1..Len(s)}
ExactlyOnce == stage # "scan" =>
  /\ Len(ol) = NO /\ SeqSet(ol) = OPts
  /\ (stage = "dedup" => Len(xl) = NX /\ SeqSet(xl) = XPts)
PrimaryIsNearestCentre == stage \in {"ordered", "selected"} => (NO > 0 => ol[1] = 1)
Visible == {k \in XPts : xf[k].mono}
XOrderedByPsi == stage \in {"ordered", "selected"} =>
  /\ SeqSet(xl) = Visible /\ Len(xl) = Cardinality(Visible)
  /\ \A a, b \in 1..Len(xl) : a < b => xl[a] < xl[b]
\* (parametrised by the set of X-point indices, ordered by |psi - psi_axis|, and their flags: Trace_Critical.tla applies the same
\* definitions to the critical points of the analytic psi of each recorded run)
EligibleOf(X, F) == {k \in X : F[k].mono /\ F[k].insol /\ F[k].inwall}
KindOf(X, F) == LET E == EligibleOf(X, F)
                    n == Cardinality(E)
                    first == CHOOSE k \in E : \A j \in E : k <= j IN
                IF n = 0 \/ n > 2 \/ (\E k \in E : ~F[k].open) THEN "refused"
                ELSE IF n = 1 THEN (IF F[first].below THEN "LSN" ELSE "USN")
                ELSE IF F[first].below THEN "LDN" ELSE "UDN"
Eligible == EligibleOf(XPts, xf)
DeclaredKind == KindOf(XPts, xf)
DecisionAsDeclared == stage = "selected" => verdict = DeclaredKind /\ SeqSet(kept) = Eligible
=============================================================================
