----------------------------- MODULE Trace_Build -----------------------------
(***************************************************************************)
(* C->S for Lifecycle.tla, build alphabet (C14).  Three kinds of trace:      *)
(*  "history"   BuildEq(i1, o1) [BuildMesh Geometry] ... BuildEq(ik, ok)      *)
(*              BuildMesh Geometry Write in one interpreter, from one or two  *)
(*              caller array sets; the written file must be the one a fresh   *)
(*              interpreter writes for the last option set, and no BuildEq   *)
(*              may change the caller's arrays;                              *)
(*  "repeat"    the same configuration generated in separate processes;      *)
(*  "roundtrip" hypnotoad-geqdsk -> recreate-inputs -> hypnotoad-geqdsk.     *)
(***************************************************************************)
EXTENDS Lifecycle, Json, IOUtils

JT == JsonDeserialize(IOEnv.TRACE_FILE).traces
VARIABLES tid, l
tbvars == <<vars, tid, l>>
T == JT[tid]
Tr == T.events
Clause(name, ok) == IF ok THEN TRUE ELSE PrintT(<<"CLAUSE-FAILED", name, JT[tid].id>>)
TBInit == Init /\ tid \in 1..Len(JT) /\ l = 1
IsEv(e) == T.kind = "history" /\ l <= Len(Tr) /\ Tr[l].ev = e /\ l' = l + 1 /\ UNCHANGED tid

TBuildEq ==
  /\ IsEv("BuildEq") /\ Tr[l].out = "ok" /\ BuildEq(Tr[l].input, Tr[l].arg)
  \* the specification (Intended) leaves arr unchanged: the observation must agree
  /\ Clause("CallerArraysUnchanged", (Tr[l].changed = 1) = (arr'[Tr[l].input] = "modified") /\ (Tr[l].pristine = 1) = (arr'[Tr[l].input] = "orig"))
\* building a mesh leaves the settings dictionary the caller passed as it was (scripts and the GUI pass one dictionary to equilibrium and mesh)
TBuildMesh == IsEv("BuildMesh") /\ BuildMesh /\ Clause("CallerSettingsUnchanged", Tr[l].changed = 0)
TGeometry == IsEv("Geometry") /\ Geometry /\ last' = "ok"
TWrite ==
  /\ IsEv("Write") /\ Write
  \* content is a function of (input, options) only
  \* (whatever was built, meshed or computed before in the same interpreter, from these or from other arrays)
  /\ Clause("Deterministic", Tr[l].digest = T.fresh[eq.input][eq.opts] /\ eq.arrAtBuild = "orig")

TRepeat ==
  /\ T.kind = "repeat" /\ l = 1 /\ l' = 2 /\ UNCHANGED <<vars, tid>>
  /\ Clause("RepeatIdentical", \A k \in 1..Len(T.digests) : T.digests[k] = T.digests[1] /\ T.digests[k] # 0)
TRoundTrip ==
  /\ T.kind = "roundtrip" /\ l = 1 /\ l' = 2 /\ UNCHANGED <<vars, tid>>
  /\ Clause("RoundTripRuns", T.rt.first_run = 1 /\ T.rt.recreate = 1 /\ T.rt.second_run = 1)
  /\ Clause("GeqdskByteExact", T.rt.geqdsk_bytes_equal = 1)
  /\ Clause("YamlLoadable", T.rt.yaml_safe_loads = 1)
  /\ Clause("YamlIsCompleteOptionSet", T.rt.yaml_complete = 1)
  /\ Clause("RegeneratedIdentical", T.rt.arrays_identical = 1 \/ T.rt.max_abs_diff_q <= T.rt.tolq)

TBNext == TBuildEq \/ TBuildMesh \/ TGeometry \/ TWrite \/ TRepeat \/ TRoundTrip
TBSpec == TBInit /\ [][TBNext]_tbvars
=============================================================================
