SPECIFICATION Spec
CONSTANTS
  JetVals <- JetQuick
  RVals = {1, 2, 3}
  FVals <- FQuick
  FpVals <- FpQuick
INVARIANT CodeIsDefinition
INVARIANT DivBZero
INVARIANT FieldInSurface
INVARIANT FIsDualOfGrad
INVARIANT FParallelToGrad
INVARIANT CurlIsDeltaStar
INVARIANT B2IsSumOfSquares
INVARIANT B2Positive
INVARIANT CurlCodeIsDefinition
INVARIANT SameKindSameResult
INVARIANT MixedMlaRefused
INVARIANT DispatchIndependentOfFunction
CHECK_DEADLOCK FALSE
