-------------------------- MODULE Trace_FollowPerp --------------------------
EXTENDS FollowPerp, Json, IOUtils

--------------------------------------------------------------------------
(* C->S: results of the REAL followPerpendicular on a field psi(R, Z) = R, for the cases TLC enumerated (and their
   rounding-error variants); Obs.out is the list of returned labels (psi of each returned point, as an integer), or <<-999>> *)
JT == JsonDeserialize(IOEnv.TRACE_FILE).traces
VARIABLES tid, done
Obs == JT[tid]
Clause(name, ok) == IF ok THEN TRUE ELSE PrintT(<<"CLAUSE-FAILED", name, JT[tid].id>>)
TInit == tid \in 1..Len(JT) /\ done = FALSE /\ pv = <<2>> /\ p0 = 0 /\ ins = FALSE
Judge == /\ done = FALSE
         /\ Clause("ReturnsEachValueInOrder", Obs.out = Follow(Obs.pv, Obs.p0))
         /\ Clause("OnOneIntegralCurve", Obs.offcurve <= 10)       \* all returned points on the curve Z = Z0 (1e-9 m)
         /\ done' = TRUE /\ UNCHANGED <<tid, fvars>>
TSpec == TInit /\ [][Judge]_<<tid, done, fvars>>
=============================================================================
