SPECIFICATION Spec
CONSTANT MaxDepth = 2
PROPERTY Monotone
PROPERTY ResultWithinOperands
CHECK_DEADLOCK FALSE
