SPECIFICATION Spec
CONSTANTS
  NFine = 8
  NSet = {1, 2, 4}
  MaxSet = {4, 8}
INVARIANT TypeOK
INVARIANT LevelsAreLattice
INVARIANT RootsAscending
INVARIANT RootsAreRoots
INVARIANT BracketsHaveRoots
INVARIANT OkIsExactlyN
INVARIANT GiveUpIsHonest
INVARIANT MissedOnlyInPairs
PROPERTY Terminates
CHECK_DEADLOCK FALSE
