------------------------------- MODULE Metric -------------------------------
(***************************************************************************)
(* The BOUT++ locally field-aligned metric at one grid point, in exact      *)
(* rational arithmetic (C02).                                               *)
(*                                                                         *)
(* Geometry (first principles): coordinates x = psi, y = poloidal index      *)
(* coordinate (increasing clockwise), z = zeta - zShift(x, y), with the      *)
(* shifted-metric convention I = 0 (no radial derivative of zShift).         *)
(* In the poloidal plane let psihat = grad(psi)/|grad(psi)|, yhat the unit   *)
(* tangent of the flux surface towards increasing y.  psihat rotated         *)
(* clockwise is +yhat when psi increases outwards (sigma = +1) and -yhat     *)
(* when it decreases outwards (sigma = -1); sigma is also the sign of the    *)
(* signed poloidal field Bp.  The code measures beta from the index          *)
(* direction: tanB = (dx_hat . rot(psihat)) / (dx_hat . psihat).             *)
(*   t_x = dr/dx = (psihat + sigma*tanB*yhat) / (R*|Bp|)                     *)
(*   t_y = dr/dy = hy*yhat                                                   *)
(*   e_x = t_x, e_y = t_y + R*nu*zetahat, e_z = R*zetahat,                   *)
(*   nu  = d(zShift)/dy = hy*Bt/(R*|Bp|)                                     *)
(* Cov == the scalar products e_i.e_j.  Con == the closed forms for g^ij.   *)
(* Theorems: Con*Cov = identity, J = hy/Bp, J^2 det(Con) = 1,                *)
(* g_23 = g_33*nu, orthogonal = the tanB = 0 instance.                       *)
(***************************************************************************)
EXTENDS Integers, Sequences, TLC

\* ---- exact rationals <<num, den>>, den > 0, lowest terms ----
AbsI(a) == IF a < 0 THEN -a ELSE a
RECURSIVE Gcd(_, _)
Gcd(a, b) == IF b = 0 THEN a ELSE Gcd(b, a % b)
Norm(n, d) == LET g == Gcd(AbsI(n), AbsI(d))
                  s == IF d < 0 THEN -1 ELSE 1
              IN <<s * (n \div g), s * (d \div g)>>
RatI(n) == <<n, 1>>
\* (cross-cancel before multiplying: TLC integers are 32 bit)
Add(p, q) == LET g == Gcd(p[2], q[2]) IN Norm(p[1] * (q[2] \div g) + q[1] * (p[2] \div g), (p[2] \div g) * q[2])
Neg(p) == <<-p[1], p[2]>>
Sub(p, q) == Add(p, Neg(q))
Mul(p, q) == LET g1 == Gcd(AbsI(p[1]), q[2])
                 g2 == Gcd(AbsI(q[1]), p[2])
             IN Norm((p[1] \div g1) * (q[1] \div g2), (p[2] \div g2) * (q[2] \div g1))
Inv(p) == Norm(p[2], p[1])
Div(p, q) == Mul(p, Inv(q))
Sq(p) == Mul(p, p)
Zero == <<0, 1>>
One == <<1, 1>>

\* ---- a lattice point ----
\* p = [R, Bpa (|Bp| > 0), Bt, hy (> 0), c (cos beta), s (sin beta), sigma (+1/-1)]
TanB(p) == Div(p.s, p.c)
Nu(p) == Div(Mul(p.hy, p.Bt), Mul(p.R, p.Bpa))                  \* d(zShift)/dy
BpSigned(p) == Mul(RatI(p.sigma), p.Bpa)
Dphidy(p) == Div(Mul(p.hy, p.Bt), Mul(BpSigned(p), p.R))       \* what the code calls dphidy (signed Bp)

\* covariant metric from the scalar products of the basis vectors
Cov(p) ==
  LET tx2 == Div(Add(One, Sq(TanB(p))), Sq(Mul(p.R, p.Bpa)))                    \* |t_x|^2 = 1/(R Bp cos)^2
      txty == Div(Mul(Mul(RatI(p.sigma), TanB(p)), p.hy), Mul(p.R, p.Bpa))      \* t_x . t_y
  IN [g_11 |-> tx2, g_12 |-> txty, g_13 |-> Zero,
      g_22 |-> Add(Sq(p.hy), Sq(Mul(p.R, Nu(p)))), g_23 |-> Mul(Sq(p.R), Nu(p)), g_33 |-> Sq(p.R)]

\* closed forms of the contravariant metric
Con(p) ==
  LET hc2 == Sq(Mul(p.hy, p.c)) IN
  [g11 |-> Sq(Mul(p.R, p.Bpa)),
   g22 |-> Inv(hc2),
   g33 |-> Add(Inv(Sq(p.R)), Div(Sq(Nu(p)), hc2)),
   g12 |-> Neg(Div(Mul(Mul(RatI(p.sigma), Mul(p.R, p.Bpa)), TanB(p)), p.hy)),
   g13 |-> Mul(Mul(RatI(p.sigma), p.Bt), TanB(p)),
   g23 |-> Neg(Div(Nu(p), hc2))]

Jac(p) == Div(p.hy, BpSigned(p))

Mat3(a11, a12, a13, a22, a23, a33) == <<<<a11, a12, a13>>, <<a12, a22, a23>>, <<a13, a23, a33>>>>
ConM(p) == LET c == Con(p) IN Mat3(c.g11, c.g12, c.g13, c.g22, c.g23, c.g33)
CovM(p) == LET c == Cov(p) IN Mat3(c.g_11, c.g_12, c.g_13, c.g_22, c.g_23, c.g_33)
MatMulEntry(A, B, i, j) == Add(Add(Mul(A[i][1], B[1][j]), Mul(A[i][2], B[2][j])), Mul(A[i][3], B[3][j]))
Det3(A) ==
  Sub(Add(Add(Mul(Mul(A[1][1], A[2][2]), A[3][3]), Mul(RatI(2), Mul(Mul(A[1][2], A[1][3]), A[2][3]))), Zero),
      Add(Add(Mul(A[1][1], Sq(A[2][3])), Mul(A[2][2], Sq(A[1][3]))), Mul(A[3][3], Sq(A[1][2]))))

\* ---- the lattice as a (trivial) state machine: one state per point ----
CONSTANTS Rs, Bps, Bts, Hys, Angles      \* sets of rationals; Angles = set of <<cos, sin>>
VARIABLE pt
MInit == pt \in [R : Rs, Bpa : Bps, Bt : Bts, hy : Hys, c : {a[1] : a \in Angles}, s : {a[2] : a \in Angles}, sigma : {-1, 1}]
          /\ <<pt.c, pt.s>> \in Angles
MNext == UNCHANGED pt
MSpec == MInit /\ [][MNext]_pt

Inverse == \A i \in 1..3 : \A j \in 1..3 : MatMulEntry(ConM(pt), CovM(pt), i, j) = (IF i = j THEN One ELSE Zero)
JacobianDet == Mul(Sq(Jac(pt)), Det3(ConM(pt))) = One
JacobianSign == (Jac(pt)[1] > 0) = (pt.sigma = 1)
YZCoupling == Cov(pt).g_23 = Mul(Cov(pt).g_33, Nu(pt))
\* in terms of the quantity the code stores (dphidy with signed Bp): g_23 = sigma * dphidy * R^2
YZCouplingCode == Cov(pt).g_23 = Mul(Mul(RatI(pt.sigma), Dphidy(pt)), Sq(pt.R))
OrthogonalInstance == pt.s = Zero => (Con(pt).g12 = Zero /\ Con(pt).g13 = Zero /\ Cov(pt).g_12 = Zero
                                      /\ Con(pt).g22 = Inv(Sq(pt.hy)) /\ Cov(pt).g_11 = Inv(Sq(Mul(pt.R, pt.Bpa))))
PythagoreanAngles == Add(Sq(pt.c), Sq(pt.s)) = One
=============================================================================
