----------------------------- MODULE PolSpacing -----------------------------
(***************************************************************************)
(* Poloidal spacing (C10): which option feeds which end of which region      *)
(* (the getSpacings / getTargetParameter table), and the facts every          *)
(* poloidal spacing function s(i) must satisfy on the indices it is used for. *)
(***************************************************************************)
EXTENDS Topology, Json, IOUtils

\* option feeding the end of a region: ends at a wall take the target option of that leg (inner/outer, lower/upper
\* from the region's name), ends at an X-point the X-point option.  Values are option NAMES.
Leg(name) == (IF name \in {IL, IU} THEN "inner" ELSE "outer") \o "_" \o (IF name \in {IU, OU} THEN "upper" ELSE "lower")
EndIsWall(t, name, e) == LET k == Kind(t, name) IN
  IF e = "lower" THEN k \in {"wall.X", "wall.wall"} ELSE k \in {"X.wall", "wall.wall"}
Param(t, name, e, what) ==
  LET w == EndIsWall(t, name, e) IN
  CASE what = "sqrt_b" -> IF w THEN "target_" \o Leg(name) \o "_poloidal_spacing_length" ELSE "ZERO"
    [] what = "sqrt_a" -> IF w THEN "NONE" ELSE "xpoint_poloidal_spacing_length"
    [] what = "monotonic_d" -> IF w THEN "nonorthogonal_target_" \o Leg(name) \o "_poloidal_spacing_length" ELSE "nonorthogonal_xpoint_poloidal_spacing_length"
    [] what = "nonorthogonal_orthogonal_d" -> IF w THEN "target_" \o Leg(name) \o "_poloidal_spacing_length" ELSE "xpoint_poloidal_spacing_length"
    [] what = "nonorthogonal_range" -> IF w THEN "nonorthogonal_target_" \o Leg(name) \o "_poloidal_spacing_range" ELSE "nonorthogonal_xpoint_poloidal_spacing_range"
    [] what = "nonorthogonal_range_inner" -> IF w THEN "nonorthogonal_target_" \o Leg(name) \o "_poloidal_spacing_range_inner" ELSE "nonorthogonal_xpoint_poloidal_spacing_range_inner"
    [] what = "nonorthogonal_range_outer" -> IF w THEN "nonorthogonal_target_" \o Leg(name) \o "_poloidal_spacing_range_outer" ELSE "nonorthogonal_xpoint_poloidal_spacing_range_outer"
Whats == {"sqrt_b", "sqrt_a", "monotonic_d", "nonorthogonal_orthogonal_d", "nonorthogonal_range", "nonorthogonal_range_inner", "nonorthogonal_range_outer"}

\* sanity over all topologies: both ends of every X.X region use X-point options, every wall end a target option of its own leg,
\* and the two regions meeting at an X-point along a flux surface use the same X-point option (continuity across the join)
VARIABLES pc, tid, done
PInit == pc \in {[t |-> t, r |-> r] : t \in Topos \ {"CORE", "LIM"}, r \in 1..6} /\ tid = 0 /\ done = TRUE /\ cfg = [topo |-> "LSN"]
            /\ stage = "start" /\ conn = <<>> /\ rects = <<>> /\ ygroups = {} /\ ints = {}
PNext == UNCHANGED <<pc, tid, done, tvars>>
PSpec == PInit /\ [][PNext]_<<pc, tid, done, tvars>>
XEndsUseXpointOption ==
  pc.r <= NR(pc.t) =>
    LET name == Order(pc.t)[pc.r] IN
    \A e \in {"lower", "upper"} :
      /\ (~EndIsWall(pc.t, name, e)) => Param(pc.t, name, e, "sqrt_a") = "xpoint_poloidal_spacing_length" /\ Param(pc.t, name, e, "sqrt_b") = "ZERO"
      /\ EndIsWall(pc.t, name, e) => Param(pc.t, name, e, "sqrt_a") = "NONE"
JoinContinuity ==
  pc.r <= NR(pc.t) =>
    LET name == Order(pc.t)[pc.r] IN
    \A s \in 0..(NSeg(pc.t) - 1) :
      LET u == PhysUp(pc.t, name, s) IN
        (u # NoReg /\ u # name) => \A w \in Whats : Param(pc.t, name, "upper", w) = Param(pc.t, u, "lower", w)

--------------------------------------------------------------------------
(* C->S *)
JT == JsonDeserialize(IOEnv.TRACE_FILE).traces
Obs == JT[tid]
Clause(name, ok) == IF ok THEN TRUE ELSE PrintT(<<"CLAUSE-FAILED", name, JT[tid].id>>)
AbsI(a) == IF a < 0 THEN -a ELSE a

\* kind "params": the values getSpacings returned for one region of one topology, with every option set to a distinct sentinel
\*   Obs.values[what][end] = integer sentinel, Obs.options[option name] = its sentinel; NONE = -1, ZERO = 0
Sentinel(optname) == IF optname = "NONE" THEN -1 ELSE IF optname = "ZERO" THEN 0 ELSE Obs.options[optname]
JudgeParams ==
  \A w \in Whats : \A e \in {"lower", "upper"} :
    Clause("SpacingParam_" \o w, Obs.values[w][e] = Sentinel(Param(Obs.topo, Obs.region, e, w)))

\* kind "func": one spacing function s(i), i = 0..N, values quantised at 1e-9 * L
JudgeFunc ==
  IF Obs.raised = 1 THEN TRUE            \* refusing (raising) is an accepted outcome, silent non-monotonicity is not
  ELSE
     /\ Clause("ZeroAtZero", AbsI(Obs.s[1]) <= 2)
     /\ Clause("LAtN", AbsI(Obs.s[Len(Obs.s)] - 1000000000) <= 2)
     /\ Clause("StrictlyIncreasing", \A k \in 1..(Len(Obs.s) - 1) : Obs.s[k + 1] > Obs.s[k])
     \* requested end behaviour, in units of the normalised index: got/want quantised at 1e-6 relative
     /\ Clause("EndGradientsAsRequested", \A e \in {"lo", "hi"} : Obs.endg[e].req = 0 \/ AbsI(Obs.endg[e].got - 1000000) <= Obs.endg[e].tol)
     \* also strictly increasing on the extension beyond wall ends that holds the boundary guard cells
     /\ Clause("IncreasingOverGuardCells", Obs.ext_ok = 1)
     \* ... and continues it with the same slope at the wall end (ratio of the one-sided differences outside and inside, 1e-6 relative)
     /\ Clause("SlopeContinuousIntoGuardCells", \A e \in {"lo", "hi"} : Obs.smooth[e].req = 0 \/ AbsI(Obs.smooth[e].got - 1000000) <= 3000)

\* kind "ends": the y-face positions of every region of a non-orthogonal mesh (quantised at 1e-9 m), A: as first built,
\* B: after a history of redistributePoints calls.  The two end points of every contour (the wall or X-point end: index G beyond
\* the first / before the last face at a wall, the first / last face at an X-point) must be where they were.
JudgeEnds ==
  \A k \in 1..Len(Obs.regions) :
    LET rg == Obs.regions[k]
        name == Order(Obs.topo)[(rg.id \div NSeg(Obs.topo)) + 1]
        n == Len(rg.A.R[1])
        lo == IF EndIsWall(Obs.topo, name, "lower") THEN Obs.G + 1 ELSE 1
        hi == IF EndIsWall(Obs.topo, name, "upper") THEN n - Obs.G ELSE n
    IN Clause("EndPointsFixed", /\ Len(rg.B.R[1]) = n
                                 /\ \A x \in 1..Len(rg.A.R) : \A j \in {lo, hi} :
                                      AbsI(rg.A.R[x][j] - rg.B.R[x][j]) <= Obs.tol /\ AbsI(rg.A.Z[x][j] - rg.B.Z[x][j]) <= Obs.tol)

Judge == /\ done = FALSE
         /\ CASE Obs.kind = "params" -> JudgeParams [] Obs.kind = "func" -> JudgeFunc [] Obs.kind = "ends" -> JudgeEnds
         /\ done' = TRUE /\ UNCHANGED <<pc, tid, tvars>>
TPInit == tid \in 1..Len(JT) /\ done = FALSE /\ pc = [t |-> "LSN", r |-> 1] /\ cfg = [topo |-> "LSN"]
            /\ stage = "start" /\ conn = <<>> /\ rects = <<>> /\ ygroups = {} /\ ints = {}
TPSpec == TPInit /\ [][Judge]_<<pc, tid, done, tvars>>
=============================================================================
