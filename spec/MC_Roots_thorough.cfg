SPECIFICATION Spec
CONSTANTS
  NFine = 12
  NSet = {3, 6}
  MaxSet = {6, 12}
INVARIANT TypeOK
INVARIANT LevelsAreLattice
INVARIANT RootsAscending
INVARIANT RootsAreRoots
INVARIANT BracketsHaveRoots
INVARIANT OkIsExactlyN
INVARIANT GiveUpIsHonest
INVARIANT MissedOnlyInPairs
PROPERTY Terminates
CHECK_DEADLOCK FALSE
