---------------------------- MODULE ContourPrim ----------------------------
(***************************************************************************)
(* The PsiContour primitives on their own: whatever the stored indices       *)
(* (endInd negative or not), an insertion, an extension past either end or a  *)
(* reversal keeps designating the same two points as start and end.           *)
(* The reachable graph of this module is replayed edge by edge on real        *)
(* PsiContour objects (S->C), and the real successors of every state are       *)
(* compared with the specification's (C->S): harness/drivers/contour_graph.py *)
(***************************************************************************)
EXTENDS ContourOps
CONSTANT MaxN, MaxDepth, Gap      \* Gap: spacing of the initial points, a power of two > 2^(MaxDepth+1) so that repeated midpoints stay distinct
VARIABLES pc, pdepth
pvars == <<pc, pdepth>>
PLabels(c) == <<At(c.p, c.s), At(c.p, c.e)>>
Dir(p) == IF p[2] > p[1] THEN 1 ELSE -1
\* where a new point goes so that the contour stays monotone (the real points lie on a straight flux surface)
InsertVal(p, i) == IF i <= 0 THEN p[1] - (Gap \div 4) * Dir(p) ELSE IF i >= Len(p) THEN p[Len(p)] + (Gap \div 4) * Dir(p) ELSE (p[i] + p[i + 1]) \div 2
PyIndex(p, index) == IF index < 0 THEN (IF index + Len(p) < 0 THEN 0 ELSE index + Len(p)) ELSE IF index > Len(p) THEN Len(p) ELSE index
PInit == \E n \in 4..MaxN : \E s0 \in 0..(n - 1) : \E e0 \in (-n)..(n - 1) :
            /\ Norm([k \in 1..n |-> k], s0) < Norm([k \in 1..n |-> k], e0)
            /\ pc = Rec([k \in 1..n |-> Gap * k], s0, e0) /\ pdepth = 0
PStep(c2) == pc' = c2 /\ pdepth' = pdepth + 1
DoInsert(i) == PStep(PInsert(pc, i, InsertVal(pc.p, PyIndex(pc.p, i))))
DoExtendLower == PStep(PExtendLower(pc, pc.p[1] - Gap * Dir(pc.p)))
DoExtendUpper == PStep(PExtendUpper(pc, pc.p[Len(pc.p)] + Gap * Dir(pc.p)))
\* reverse() computes len-1-endInd: only meaningful for a non-negative endInd (DESIGN.md 11.11)
DoReverse == pc.e >= 0 /\ PStep(PReverse(pc))
PNext == /\ pdepth < MaxDepth
         /\ \/ \E i \in (-Len(pc.p) - 1)..(Len(pc.p) + 1) : DoInsert(i)
            \/ DoExtendLower \/ DoExtendUpper \/ DoReverse
PSpec == PInit /\ [][PNext]_pvars
\* action property: the points designated by startInd / endInd are the same points after the step (reverse swaps them)
KeepsLabels == [][ \/ (PLabels(pc') = PLabels(pc))
                   \/ (pc'.p = RevSeq(pc.p) /\ PLabels(pc') = <<PLabels(pc)[2], PLabels(pc)[1]>>) ]_pvars
PValid == Valid(pc.p, pc.s) /\ Valid(pc.p, pc.e)
Monotone == Ordered(pc.p) \/ Ordered(RevSeq(pc.p))
=============================================================================
