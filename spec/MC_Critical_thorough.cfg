SPECIFICATION Spec
CONSTANTS
  NO = 3
  NX = 3
INVARIANT ExactlyOnce
INVARIANT PrimaryIsNearestCentre
INVARIANT XOrderedByPsi
INVARIANT DecisionAsDeclared
CHECK_DEADLOCK FALSE
