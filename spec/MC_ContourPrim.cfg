SPECIFICATION PSpec
CONSTANTS
  MaxN = 5
  MaxDepth = 3
  Gap = 64
INVARIANT PValid
INVARIANT Monotone
PROPERTY KeepsLabels
CHECK_DEADLOCK FALSE
