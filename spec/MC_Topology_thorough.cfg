SPECIFICATION MCSpec
CONSTANTS
  Configs = {}
  Tier = "thorough"
INVARIANT ConnSymmetric
INVARIANT GuardsUniform
INVARIANT Tiling
INVARIANT AdjacencyAgrees
INVARIANT SpecIntsOrdered
INVARIANT YGroupsPartition
INVARIANT ThetaContinuous
INVARIANT MirrorConn
CHECK_DEADLOCK TRUE
