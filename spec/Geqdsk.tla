------------------------------- MODULE Geqdsk -------------------------------
(***************************************************************************)
(* The G-EQDSK text format as hypnotoad writes and reads it (C17).          *)
(* Text is modelled at character level: a line is a sequence of character   *)
(* codes.  Level A: fields and the tokenizer (the regular expression of      *)
(* next_value with Python's findall semantics).  Level B: the order in       *)
(* which a data set is written and read back (ChunkOutput: 5 values per      *)
(* line, blocks start on a new line; psi with the first index fastest).      *)
(* Level C: the complete text of a data set, for comparison with the real    *)
(* writer, character for character.                                          *)
(***************************************************************************)
EXTENDS Integers, Sequences, FiniteSets, TLC

SP == 32
PLUS == 43
MINUS == 45
DOT == 46
D0 == 48
UE == 69
LE == 101
IsDigit(c) == c >= 48 /\ c <= 57

\* a number of the format: sign, ten significant decimal digits d1.d2...d10, two-digit decimal exponent
\* v = [neg, d (sequence of 10 digits 0..9), eneg, e (0..99)]
Val(neg, d, eneg, e) == [neg |-> neg, d |-> d, eneg |-> eneg, e |-> e]
Zeros(n) == [i \in 1..n |-> 0]
IsZero(v) == \A i \in 1..Len(v.d) : v.d[i] = 0
\* canonical form written by the E-format with 9 decimals: zero is +0.000000000E+00; otherwise d1 # 0
Canonical(v) == Len(v.d) = 10 /\ (IF IsZero(v) THEN ~v.eneg /\ v.e = 0 ELSE v.d[1] # 0) /\ (v.e = 0 => ~v.eneg)

TwoDigits(n) == <<D0 + (n \div 10), D0 + (n % 10)>>
\* f2s: ' ' or '-' then d.dddddddddE+ee  (16 characters)
Field16(v) ==
  <<IF v.neg THEN MINUS ELSE SP, D0 + v.d[1], DOT>> \o [i \in 1..9 |-> D0 + v.d[i + 1]]
     \o <<UE, IF v.eneg THEN MINUS ELSE PLUS>> \o TwoDigits(v.e)

RECURSIVE DecDigits(_)
DecDigits(n) == IF n < 10 THEN <<D0 + n>> ELSE DecDigits(n \div 10) \o <<D0 + (n % 10)>>
Pad(s, w) == [i \in 1..(IF Len(s) >= w THEN 0 ELSE w - Len(s)) |-> SP] \o s
IntField(n, w) == Pad(IF n < 0 THEN <<MINUS>> \o DecDigits(-n) ELSE DecDigits(n), w)
\* ChunkOutput.write of a Python int: three blanks then str(value)
IntToken(n) == <<SP, SP, SP>> \o DecDigits(n)

RECURSIVE Concat(_)
Concat(ss) == IF ss = <<>> THEN <<>> ELSE Head(ss) \o Concat(Tail(ss))

--------------------------------------------------------------------------
(* Level A: the tokenizer  [ +\-]?\d+(?:\.\d+[Ee][\+\-]\d\d)?  with findall semantics *)

\* longest run of digits starting at i (1-based); returns the index after the run
RECURSIVE DigitsEnd(_, _)
DigitsEnd(line, i) == IF i <= Len(line) /\ IsDigit(line[i]) THEN DigitsEnd(line, i + 1) ELSE i

\* try to match the optional float tail at position j (just after the integer digits);
\* returns the end index (exclusive) or 0 if the tail does not match
TailEnd(line, j) ==
  IF j <= Len(line) /\ line[j] = DOT THEN
    LET k == DigitsEnd(line, j + 1) IN
    IF k > j + 1 /\ k + 3 <= Len(line) /\ line[k] \in {UE, LE} /\ line[k + 1] \in {PLUS, MINUS}
         /\ IsDigit(line[k + 2]) /\ IsDigit(line[k + 3])
      THEN k + 4 ELSE 0
  ELSE 0

\* match at position i: returns [ok, from, to (exclusive)]; the optional sign is tried first, then without it
MatchAt(line, i) ==
  LET withSign == i <= Len(line) /\ line[i] \in {SP, PLUS, MINUS} /\ i + 1 <= Len(line) /\ IsDigit(line[i + 1])
      start == IF withSign THEN i + 1 ELSE i
  IN IF withSign \/ (i <= Len(line) /\ IsDigit(line[i]))
       THEN LET j == DigitsEnd(line, start)
                t == TailEnd(line, j)
            IN [ok |-> TRUE, from |-> i, to |-> IF t # 0 THEN t ELSE j]
       ELSE [ok |-> FALSE, from |-> i, to |-> i]

RECURSIVE TokenSpans(_, _)
TokenSpans(line, i) ==
  IF i > Len(line) THEN <<>>
  ELSE LET m == MatchAt(line, i) IN
       IF m.ok THEN <<m>> \o TokenSpans(line, m.to) ELSE TokenSpans(line, i + 1)

Sub(line, a, b) == [k \in 1..(b - a) |-> line[a + k - 1]]      \* characters a .. b-1
HasDot(tok) == \E k \in 1..Len(tok) : tok[k] = DOT

\* value of a float token, normalised to ten significant digits d1.d2..d10 x 10^e (digits beyond ten must be zero)
RECURSIVE StripZeros(_, _)
StripZeros(ds, shift) == IF ds # <<>> /\ Head(ds) = 0 /\ Len(ds) > 1 THEN StripZeros(Tail(ds), shift + 1) ELSE <<ds, shift>>
FloatOfToken(tok) ==
  LET s0 == IF tok[1] \in {SP, PLUS, MINUS} THEN 2 ELSE 1
      neg == tok[1] = MINUS
      dot == CHOOSE k \in 1..Len(tok) : tok[k] = DOT
      epos == CHOOSE k \in 1..Len(tok) : tok[k] \in {UE, LE}
      ip == [k \in 1..(dot - s0) |-> tok[s0 + k - 1] - D0]             \* integer-part digits
      fp == [k \in 1..(epos - dot - 1) |-> tok[dot + k] - D0]           \* fraction digits
      ex == (IF tok[epos + 1] = MINUS THEN -1 ELSE 1) * (10 * (tok[epos + 2] - D0) + (tok[epos + 3] - D0))
      all == ip \o fp
      st == StripZeros(all, 0)
      ds == st[1]
      \* value = 0.(all) x 10^(ex + Len(ip)) = ds[1].ds[2..] x 10^(ex + Len(ip) - 1 - shift)
      e10 == ex + Len(ip) - 1 - st[2]
      ten == [k \in 1..10 |-> IF k <= Len(ds) THEN ds[k] ELSE 0]
      exact == \A k \in 11..Len(ds) : ds[k] = 0
      zero == \A k \in 1..Len(ds) : ds[k] = 0
  IN IF zero THEN [v |-> Val(FALSE, Zeros(10), FALSE, 0), exact |-> TRUE]
     ELSE [v |-> Val(neg, ten, e10 < 0, IF e10 < 0 THEN -e10 ELSE e10), exact |-> exact]
IntOfToken(tok) ==
  LET s0 == IF tok[1] \in {SP, PLUS, MINUS} THEN 2 ELSE 1
      F[k \in (s0 - 1)..Len(tok)] == IF k = s0 - 1 THEN 0 ELSE 10 * F[k - 1] + (tok[k] - D0)
  IN (IF tok[1] = MINUS THEN -1 ELSE 1) * F[Len(tok)]

\* tokens of a line as tagged values: <<"f", value>> or <<"i", n>>
Tokens(line) ==
  LET sp == TokenSpans(line, 1) IN
  [k \in 1..Len(sp) |-> LET tok == Sub(line, sp[k].from, sp[k].to) IN
                          IF HasDot(tok) THEN <<"f", FloatOfToken(tok).v>> ELSE <<"i", IntOfToken(tok)>>]

\* layouts a writer may produce for one float (the reader must accept all of them)
Layouts == {"f2s", "plus", "lowere", "leadzero", "blank2"}
FieldAs(v, lay) ==
  CASE lay = "f2s" -> Field16(v)
    [] lay = "plus" -> <<IF v.neg THEN MINUS ELSE PLUS>> \o Tail(Field16(v))
    [] lay = "lowere" -> [k \in 1..16 |-> IF Field16(v)[k] = UE THEN LE ELSE Field16(v)[k]]
    [] lay = "blank2" -> <<SP, SP>> \o Field16(v)
    \* Fortran E-format with a leading zero: 0.d1d2...d10E(e+1)
    [] lay = "leadzero" ->
         LET e1 == (IF v.eneg THEN -v.e ELSE v.e) + (IF IsZero(v) THEN 0 ELSE 1) IN
         <<IF v.neg THEN MINUS ELSE SP, D0, DOT>> \o [k \in 1..10 |-> D0 + v.d[k]]
           \o <<UE, IF e1 < 0 THEN MINUS ELSE PLUS>> \o TwoDigits(IF e1 < 0 THEN -e1 ELSE e1)

--------------------------------------------------------------------------
(* Level B: order of writing and reading.  A data set carries distinguishable values. *)
\* d = [nx, ny, sc (function name -> value), fpol, pres, ffprime, pprime, qpsi (sequences of nx values),
\*      psi (nx x ny matrix psi[x][y]), hasff, haspp (optional entries present?), bdry, lim (sequences of <<r, z>>)]
ScalarOrder == <<"rdim", "zdim", "rcentr", "rleft", "zmid",
                 "rmagx", "zmagx", "simagx", "sibdry", "bcentr",
                 "cpasma", "simagx", "ZERO", "rmagx", "ZERO",
                 "zmagx", "ZERO", "sibdry", "ZERO", "ZERO">>
ScalarNames == {"rdim", "zdim", "rcentr", "rleft", "zmid", "rmagx", "zmagx", "simagx", "sibdry", "bcentr", "cpasma"}

Chunk5(s) == [k \in 1..((Len(s) + 4) \div 5) |-> [j \in 1..(IF 5 * k <= Len(s) THEN 5 ELSE Len(s) - 5 * (k - 1)) |-> s[5 * (k - 1) + j]]]
FlattenPsi(d) == [k \in 1..(d.nx * d.ny) |-> d.psi[((k - 1) % d.nx) + 1][((k - 1) \div d.nx) + 1]]     \* first index fastest
Interleave(ps) == [k \in 1..(2 * Len(ps)) |-> ps[(k + 1) \div 2][IF k % 2 = 1 THEN 1 ELSE 2]]

\* the value stream in file order (floats as <<"f", v>>, the two counts as <<"i", n>>)
F(v) == <<"f", v>>
ZeroV == Val(FALSE, Zeros(10), FALSE, 0)
Stream(d) ==
  [k \in 1..20 |-> F(IF ScalarOrder[k] = "ZERO" THEN ZeroV ELSE d.sc[ScalarOrder[k]])]
  \o [k \in 1..d.nx |-> F(d.fpol[k])] \o [k \in 1..d.nx |-> F(d.pres[k])]
  \o [k \in 1..d.nx |-> F(IF d.hasff THEN d.ffprime[k] ELSE ZeroV)]
  \o [k \in 1..d.nx |-> F(IF d.haspp THEN d.pprime[k] ELSE ZeroV)]
  \o [k \in 1..(d.nx * d.ny) |-> F(FlattenPsi(d)[k])]
  \o [k \in 1..d.nx |-> F(d.qpsi[k])]
  \o <<<<"i", Len(d.bdry)>>, <<"i", Len(d.lim)>>>>
  \o [k \in 1..(2 * Len(d.bdry)) |-> F(Interleave(d.bdry)[k])]
  \o [k \in 1..(2 * Len(d.lim)) |-> F(Interleave(d.lim)[k])]

\* the reader: consumes the stream in order (what _geqdsk.read does after the header)
ReadBack(st, nx, ny) ==
  LET sc == [n \in ScalarNames |-> st[CHOOSE k \in 1..20 : ScalarOrder[k] = n /\ \A k2 \in (k + 1)..20 : ScalarOrder[k2] # n][2]]
      o1 == 20
      arr(o) == [k \in 1..nx |-> st[o + k][2]]
      opsi == o1 + 4 * nx
      psi == [x \in 1..nx |-> [y \in 1..ny |-> st[opsi + (y - 1) * nx + x][2]]]
      oq == opsi + nx * ny
      nb == st[oq + nx + 1][2]
      nl == st[oq + nx + 2][2]
      ob == oq + nx + 2
      pairs(o, n) == [k \in 1..n |-> <<st[o + 2 * k - 1][2], st[o + 2 * k][2]>>]
  IN [nx |-> nx, ny |-> ny, sc |-> sc, fpol |-> arr(o1), pres |-> arr(o1 + nx), ffprime |-> arr(o1 + 2 * nx), pprime |-> arr(o1 + 3 * nx),
      psi |-> psi, qpsi |-> arr(oq), bdry |-> pairs(ob, nb), lim |-> pairs(ob + 2 * nb, nl), consumed |-> ob + 2 * nb + 2 * nl]

\* what a faithful read of the written file must return
Expected(d) == [nx |-> d.nx, ny |-> d.ny, sc |-> d.sc, fpol |-> d.fpol, pres |-> d.pres,
                ffprime |-> IF d.hasff THEN d.ffprime ELSE [k \in 1..d.nx |-> ZeroV],
                pprime |-> IF d.haspp THEN d.pprime ELSE [k \in 1..d.nx |-> ZeroV],
                psi |-> d.psi, qpsi |-> d.qpsi, bdry |-> d.bdry, lim |-> d.lim, consumed |-> Len(Stream(d))]

--------------------------------------------------------------------------
(* Level C: the complete text (lines of character codes), without the header's date *)
TokenChars(t) == IF t[1] = "f" THEN Field16(t[2]) ELSE IntToken(t[2])
BlockLines(vals) == [k \in 1..Len(Chunk5(vals)) |-> Concat([j \in 1..Len(Chunk5(vals)[k]) |-> Field16(Chunk5(vals)[k][j])])]
BodyLines(d) ==
  LET st == Stream(d)
      fl(a, b) == [k \in 1..(b - a + 1) |-> st[a + k - 1][2]]
      o1 == 20
      opsi == o1 + 4 * d.nx
      oq == opsi + d.nx * d.ny
      ob == oq + d.nx + 2
  IN BlockLines(fl(1, 5)) \o BlockLines(fl(6, 10)) \o BlockLines(fl(11, 15)) \o BlockLines(fl(16, 20))
     \o BlockLines(fl(o1 + 1, o1 + d.nx)) \o BlockLines(fl(o1 + d.nx + 1, o1 + 2 * d.nx))
     \o BlockLines(fl(o1 + 2 * d.nx + 1, o1 + 3 * d.nx)) \o BlockLines(fl(o1 + 3 * d.nx + 1, o1 + 4 * d.nx))
     \o BlockLines(fl(opsi + 1, oq)) \o BlockLines(fl(oq + 1, oq + d.nx))
     \o <<IntField(Len(d.bdry), 5) \o IntField(Len(d.lim), 5)>>
     \o (IF Len(d.bdry) > 0 THEN BlockLines(fl(ob + 1, ob + 2 * Len(d.bdry))) ELSE <<>>)
     \o (IF Len(d.lim) > 0 THEN BlockLines(fl(ob + 2 * Len(d.bdry) + 1, ob + 2 * Len(d.bdry) + 2 * Len(d.lim))) ELSE <<>>)
\* last twelve characters of the header line: idum = 3, nx, ny in (3i4)
HeaderTail(d) == IntField(3, 4) \o IntField(d.nx, 4) \o IntField(d.ny, 4)
\* header as the reader sees it: whitespace-separated words, the last three are idum, nx, ny
RECURSIVE Words(_, _, _)
Words(line, i, cur) ==
  IF i > Len(line) THEN (IF cur = <<>> THEN <<>> ELSE <<cur>>)
  ELSE IF line[i] = SP THEN (IF cur = <<>> THEN <<>> ELSE <<cur>>) \o Words(line, i + 1, <<>>)
  ELSE Words(line, i + 1, Append(cur, line[i]))
AllDigits(w) == w # <<>> /\ \A k \in 1..Len(w) : IsDigit(w[k])
\* Python's int() on a fixed-width field: blanks around an optionally signed run of digits
RECURSIVE LStrip(_)
LStrip(w) == IF w # <<>> /\ Head(w) = SP THEN LStrip(Tail(w)) ELSE w
RECURSIVE RStrip(_)
RStrip(w) == IF w # <<>> /\ w[Len(w)] = SP THEN RStrip(SubSeq(w, 1, Len(w) - 1)) ELSE w
FieldOK(f) == LET w == RStrip(LStrip(f)) IN
                 AllDigits(w) \/ (Len(w) >= 2 /\ w[1] \in {PLUS, MINUS} /\ AllDigits(Tail(w)))
FieldVal(f) == IntOfToken(RStrip(LStrip(f)))
\* the reader: the fixed-width (3i4) fields at the end of the line if they are three integers,
\* otherwise the last three whitespace-separated words
HeaderParse(line) ==
  LET n == Len(line)
      f1 == SubSeq(line, n - 11, n - 8)  f2 == SubSeq(line, n - 7, n - 4)  f3 == SubSeq(line, n - 3, n)
      ws == Words(line, 1, <<>>)  m == Len(ws)
  IN IF n >= 12 /\ FieldOK(f1) /\ FieldOK(f2) /\ FieldOK(f3) THEN <<FieldVal(f2), FieldVal(f3)>>
     ELSE IF m >= 3 /\ AllDigits(ws[m]) /\ AllDigits(ws[m - 1]) /\ AllDigits(ws[m - 2])
       THEN <<IntOfToken(ws[m - 1]), IntOfToken(ws[m])>> ELSE <<-1, -1>>
=============================================================================
