SPECIFICATION TSpec
CONSTANTS
  S = 8
  Forms = {}
  Centres = {}
  AtolQ <- TraceAtol
  Band = 20
  MaxIter = 8
CHECK_DEADLOCK FALSE
