SPECIFICATION FSpec
CONSTANTS
  MaxLen = 6
  MaxVal = 7
INVARIANT FollowReturnsEachValueInOrder
INVARIANT RegionContourKIsPsiK
CHECK_DEADLOCK FALSE
