------------------------- MODULE Trace_ParallelMap -------------------------
(***************************************************************************)
(* C->S: executions of the real ParallelMap with real worker processes.     *)
(* Each process logs its own queue operations in program order (put at the  *)
(* call, get at the return); no cross-process order is recorded.  TLC must  *)
(* find an interleaving of the per-process logs that is a behaviour of      *)
(* ParallelMap.tla (Mode = "Handled"), and every invariant of the           *)
(* specification is evaluated in every state of it.                         *)
(* Many traces per run: `tid` picks the trace; register tid of TLCGet/Set   *)
(* holds the largest number of events of that trace TLC could explain.      *)
(***************************************************************************)
EXTENDS ParallelMap, Json, IOUtils, SequencesExt

JTraces == JsonDeserialize(IOEnv.TRACE_FILE).traces
NTr == Len(JTraces)

VARIABLES tid, pos
tvars == <<vars, tid, pos>>

CfgOf(t) == LET j == JTraces[t].cfg IN
  [nw |-> j.nw, nts |-> j.nts, fail |-> [n \in 1..Len(j.fail) |-> ToSet(j.fail[n])]]
TraceConfigs == {CfgOf(t) : t \in 1..NTr}

Ev(p) == JTraces[tid].ev[p + 1]            \* p = 0 parent, 1..nw workers
Total == LET n == Len(JTraces[tid].ev) IN
         LET S[k \in 0..n] == IF k = 0 THEN 0 ELSE S[k - 1] + Len(JTraces[tid].ev[k]) IN S[n]
Consumed == LET n == Len(pos) IN
            LET S[k \in 0..n] == IF k = 0 THEN 0 ELSE S[k - 1] + pos[k] IN S[n]

TraceInit ==
  /\ tid \in 1..NTr
  /\ Init
  /\ cfg = CfgOf(tid)
  /\ pos = [p \in 1..(CfgOf(tid).nw + 1) |-> 0]
  /\ TLCSet(tid, 0)

SameMsg(m, e) == m.c = e.c /\ m.i = e.i /\ m.v = e.v

ParentEvent(e) ==
  CASE e.op = "call"    -> CallStart /\ call' = e.c /\ cfg.nts[e.c] = e.i
    [] e.op = "serial"  -> SerialStep /\ nput + 1 = e.i /\ call = e.c
    [] e.op = "tput"    -> ParentPut /\ nput' = e.i /\ call = e.c
    [] e.op = "rget"    -> \E n \in 1..Len(resQ) : SameMsg(resQ[n], e) /\ ParentGetAt(n)
    [] e.op = "tempty"  -> ParentCheckTask /\ (e.b = 1) = (taskQ = <<>>)
    [] e.op = "rempty"  -> ParentCheckRes /\ (e.b = 1) = (resQ = <<>>)
    [] e.op = "ret"     -> /\ pc = "ret" /\ ParentReturn
                           /\ Len(e.res) = NT
                           /\ \A n \in 1..NT : res[n].c = e.res[n][1] /\ res[n].i = e.res[n][2] /\ res[n].v = e.res[n][3]
    [] e.op = "raise"   -> pc = "raise" /\ ParentRaise /\ raisedIdx = e.i /\ call = e.c
    [] e.op = "valerr"  -> pc = "valerr" /\ ParentRaise
    [] e.op = "shutdown" -> Shutdown
    [] OTHER -> FALSE            \* "hang", "otherexc": nothing in the specification explains it

WorkerEvent(k, e) ==
  CASE e.op = "tget" -> WorkerTake(k) /\ Head(taskQ) = [c |-> e.c, i |-> e.i]
    [] e.op = "rput" -> (WorkerDone(k) \/ WorkerRaise(k)) /\ SameMsg(Last(resQ'), e)
    [] OTHER -> FALSE

TraceNext ==
  \E p \in 0..cfg.nw :
    /\ pos[p + 1] < Len(Ev(p))
    /\ LET e == Ev(p)[pos[p + 1] + 1] IN
         IF p = 0 THEN ParentEvent(e) ELSE WorkerEvent(p, e)
    /\ pos' = [pos EXCEPT ![p + 1] = @ + 1]
    /\ UNCHANGED tid

TraceSpec == TraceInit /\ [][TraceNext]_tvars

Progress == IF TLCGet(tid) < Consumed THEN TLCSet(tid, Consumed) ELSE TRUE

Report == PrintT(<<"PROGRESS", [t \in 1..NTr |-> TLCGet(t)],
                   [t \in 1..NTr |-> LET n == Len(JTraces[t].ev) IN
                        LET S[k \in 0..n] == IF k = 0 THEN 0 ELSE S[k - 1] + Len(JTraces[t].ev[k]) IN S[n]]>>)
=============================================================================
