-------------------------- MODULE Trace_Lifecycle --------------------------
(***************************************************************************)
(* C->S for Lifecycle.tla: histories executed on real objects.  Each trace   *)
(* is the sequence of calls with their outcome, followed by one `Compare'    *)
(* record holding how far the final arrays are from those of a mesh built    *)
(* from scratch with each setting (quantised).  The specification decides    *)
(* which setting is in force at the end and which refusals are allowed.      *)
(***************************************************************************)
EXTENDS Lifecycle, Json, IOUtils

JT == JsonDeserialize(IOEnv.TRACE_FILE).traces
VARIABLES tid, l
tlvars == <<vars, tid, l>>
Tr == JT[tid].events
Clause(name, ok) == IF ok THEN TRUE ELSE PrintT(<<"CLAUSE-FAILED", name, JT[tid].id>>)

TLInit == Init /\ tid \in 1..Len(JT) /\ l = 1
Canon(a) == IF a \in {"B", "Bx", "Ball"} THEN "B" ELSE a

IsEv(e) == l <= Len(Tr) /\ Tr[l].ev = e /\ l' = l + 1 /\ UNCHANGED tid

TBuildEq == IsEv("BuildEq") /\ BuildEq("I1", JT[tid].eqopts)
TBuild == IsEv("BuildMesh") /\ BuildMesh
TCalc == IsEv("CalculateRZ") /\ Clause("CallSucceeds", Tr[l].out = "ok") /\ CalculateRZ
TRedis == IsEv("Redistribute") /\ Redistribute(Canon(Tr[l].arg))
                               /\ Clause("RefusalAllowed", (Tr[l].out = "refused") = (last' = "refused"))
\* a logged refusal of geometry() is explained by the refusing disjunct (only possible after an earlier geometry())
TGeom == IsEv("Geometry") /\ Geometry /\ (Tr[l].out = last')
\* if the code succeeded where the model can only refuse, or the reverse, no step matches: reported by the state count
TCompare ==
  /\ IsEv("Compare")
  /\ Clause("Fresh", mesh.geo # None =>
        /\ Tr[l].dpos[mesh.nn] <= 20            \* positions: 2e-7 m (quantum 1e-8)
        /\ Tr[l].dgeo[mesh.nn] <= 100)          \* derived fields: 1e-6 relative (quantum 1e-8)
  /\ Clause("GeometryIsForSettingsInForce", mesh.geo = None \/ (mesh.geo = mesh.nn /\ mesh.pos = mesh.nn))
  /\ Clause("OtherSettingsUnaffected", Tr[l].user_options_unchanged = 1)
  \* the options the equilibrium holds (and the grid file embeds) are those of the setting in force
  /\ Clause("RecordedOptionsAreSettingsInForce", mesh.geo # None => Tr[l].opts_recorded[mesh.nn] = 1)
  /\ UNCHANGED vars

TLNext == TBuildEq \/ TBuild \/ TCalc \/ TRedis \/ TGeom \/ TCompare
TLSpec == TLInit /\ [][TLNext]_tlvars
=============================================================================
