------------------------------- MODULE Spacing -------------------------------
(***************************************************************************)
(* Radial psi grid (C09): the case analysis of the spacing function          *)
(* getSmoothMonotonicGridFunc(n, lower, upper, grad_lower, grad_upper) and   *)
(* the arithmetic facts about the 2n+1 grid values built from it.            *)
(* Gradients are given as ratios r = grad*n/(upper-lower) (so r = 1 is the   *)
(* uniform grid), as rationals <<num, den>>; "none" = <<0, 0>>.              *)
(***************************************************************************)
EXTENDS Integers, Sequences, TLC, Json, IOUtils

NoneR == <<0, 0>>
IsNone(r) == r[2] = 0
\* r1 <= r2 for positive rationals
Leq(a, b) == a[1] * b[2] <= b[1] * a[2]
Half(a, b) == <<a[1] * b[2] + b[1] * a[2], 2 * a[2] * b[2]>>     \* (a + b) / 2
OneR == <<1, 1>>

\* which analytic form the code uses (the switch |g n| < |D| (1 + 1e-8) puts the uniform case r = 1 on the polynomial side)
Branch(rl, ru) ==
  CASE IsNone(rl) /\ IsNone(ru) -> "linear"
    [] IsNone(ru) -> IF Leq(rl, OneR) THEN "lowQuad" ELSE "lowErf"
    [] IsNone(rl) -> IF Leq(ru, OneR) THEN "upQuad" ELSE "upErf"
    [] OTHER -> IF Leq(Half(rl, ru), OneR) THEN "bothTrig" ELSE "bothSquash"
Branches == {"linear", "lowQuad", "lowErf", "upQuad", "upErf", "bothTrig", "bothSquash"}

\* the lattice of cases as a state machine (one state per case) for coverage of every branch and switch
Ratios == {NoneR, <<1, 4>>, <<1, 2>>, <<1, 1>>, <<3, 2>>, <<3, 1>>}
VARIABLES cs, tid, done
SInit == cs \in [n : {1, 2, 3, 5, 8}, dir : {-1, 1}, rl : Ratios, ru : Ratios] /\ tid = 0 /\ done = TRUE
SNext == UNCHANGED <<cs, tid, done>>
SSpec == SInit /\ [][SNext]_<<cs, tid, done>>
BranchTotal == Branch(cs.rl, cs.ru) \in Branches
\* the switch is consistent: making the requested end spacing smaller never moves a case from the polynomial to the squashed form
SwitchMonotone == \A r2 \in Ratios : (~IsNone(cs.rl) /\ ~IsNone(r2) /\ IsNone(cs.ru) /\ Leq(r2, cs.rl) /\ Branch(cs.rl, cs.ru) = "lowQuad") => Branch(r2, cs.ru) = "lowQuad"

--------------------------------------------------------------------------
(* C->S: recorded behaviour of the real function for each case *)
JT == JsonDeserialize(IOEnv.TRACE_FILE).traces
Obs == JT[tid]
Clause(name, ok) == IF ok THEN TRUE ELSE PrintT(<<"CLAUSE-FAILED", name, JT[tid].id>>)
Abs(a) == IF a < 0 THEN -a ELSE a
V == Obs.vals                 \* the 2n+1 grid values, quantised at 1e-9 of |upper - lower|; lower = 0, upper = dir * 1e9
N == Obs.n
TInit == tid \in 1..Len(JT) /\ done = FALSE /\ cs = [n |-> 1, dir |-> 1, rl |-> NoneR, ru |-> NoneR]
JudgeFunc ==
  /\ Clause("CallSucceeds", Obs.ok = 1)
  /\ Clause("LengthIs2nPlus1", Obs.ok = 0 \/ Len(V) = 2 * N + 1)
  \* exact up to the tolerance of the root solver that fixes the free coefficient of the constrained forms (rtol 1e-10):
  \* within 2e-9 of (upper - lower); the polynomial forms are exact to rounding (ends_exact is recorded, not required)
  /\ Clause("EndsExact", Obs.ok = 0 \/ (Abs(V[1]) <= 2 /\ Abs(V[2 * N + 1] - Obs.dir * 1000000000) <= 2))
  /\ Clause("Monotone", Obs.ok = 0 \/ (Len(Obs.steps) = 2 * N /\ \A k \in 1..(2 * N) : Obs.steps[k] * Obs.dir > 0))     \* sign-preserving increments
  /\ Clause("CentresAreMidpoints", Obs.ok = 0 \/ \A k \in 1..N : Abs(2 * V[2 * k] - V[2 * k - 1] - V[2 * k + 1]) <= 2)
  \* where an end gradient is requested the function has it and has zero second derivative there
  /\ Clause("EndGradient", Obs.ok = 0 \/ (\A e \in {"lo", "hi"} : Obs.grad[e].req = 0 \/ Abs(Obs.grad[e].got - Obs.grad[e].want) <= 1000))
  /\ Clause("ZeroCurvatureAtConstrainedEnd", Obs.ok = 0 \/ (\A e \in {"lo", "hi"} : Obs.grad[e].req = 0 \/ Abs(Obs.grad[e].curv) <= 10000))
  \* continuity in the parameters across the switch between the two forms
  /\ Clause("ContinuousAcrossSwitch", Obs.ok = 0 \/ Obs.switch_jump <= 1000)
  \* doubling n (same end gradients per unit of x, i.e. halved per index) keeps every face
  /\ Clause("Nested", Obs.ok = 0 \/ Obs.nested_dev <= 4)

\* the radial segments of one equilibrium: per region the psi lists of its segments (quantum 1e-6), the resolved
\* boundary values, and the end gradients that were requested for each segment
PsiOf(axis, bdry, milli) == axis + (milli * (bdry - axis)) \div 1000
\* which limit applies to which region: core-type regions start at the core limit, legs at the private-flux limit of their
\* X-point; regions end at the SOL limit - the inner one for the inboard regions of a double null
CoreNames == {"core", "inner_core", "outer_core"}
InnerNames == {"inner_lower_divertor", "inner_core", "inner_upper_divertor"}
StartKey(name) == IF name \in CoreNames THEN "core"
                  ELSE IF name \in {"inner_lower_divertor", "outer_lower_divertor"} THEN "pf_lower" ELSE "pf_upper"
EndKey(name) == IF Obs.double_null = 1 /\ name \in InnerNames THEN "sol_inner" ELSE "sol"
Limit(key) == LET o == Obs.limits[key] IN IF o.given = 1 THEN o.value ELSE PsiOf(Obs.axis, Obs.bdry, o.milli)
JudgeSegments ==
  LET R == Obs.regions IN
  /\ Clause("SharedBoundary", \A r \in 1..Len(R) : \A s \in 1..(Len(R[r].psi) - 1) :
        Abs(R[r].psi[s][Len(R[r].psi[s])] - R[r].psi[s + 1][1]) <= 1 /\ R[r].shared_dev[s] <= 2)
  /\ Clause("SegmentMonotone", \A r \in 1..Len(R) : \A s \in 1..Len(R[r].psi) : \A k \in 1..(Len(R[r].psi[s]) - 1) :
        (R[r].psi[s][k + 1] - R[r].psi[s][k]) * Obs.dir > 0)
  \* first and last value of every region are the requested limits (psinorm_* resolved against axis and boundary, psi_* override them)
  /\ Clause("StartsAtRequested", \A r \in 1..Len(R) :
        Abs(R[r].psi[1][1] - Limit(StartKey(R[r].name))) <= 2)
  /\ Clause("EndsAtRequested", \A r \in 1..Len(R) :
        LET ls == R[r].psi[Len(R[r].psi)] IN
        Abs(ls[Len(ls)] - Limit(EndKey(R[r].name))) <= 2)
  \* interior boundaries are the separatrix values
  /\ Clause("BoundariesAreSeparatrices", \A r \in 1..Len(R) : \A s \in 1..(Len(R[r].psi) - 1) :
        \E k \in 1..Len(Obs.seps) : Abs(R[r].psi[s + 1][1] - Obs.seps[k]) <= 2 \/ R[r].split[s] = 1)
  \* the same gradient is requested on both sides of every separatrix
  /\ Clause("SameGradientBothSides", \A k \in 1..Len(Obs.grads) : Obs.grads[k] = Obs.grads[1])

\* "varies continuously with its parameters", everywhere and not only at the documented switch of forms: over a sweep of the end-gradient
\* ratio(s) from 1/4 to 4 in steps of 1 per cent the faces move by at most 2 (upper-lower) per unit of ln(ratio) (measured on the unchanged
\* tree: at most 0.5); Obs.maxslope is that rate times 1000
JudgeSweep == Clause("ContinuousInParameters", Obs.ok = 1 /\ Obs.maxslope <= 2000)

Judge ==
  /\ done = FALSE
  /\ CASE Obs.kind = "segments" -> JudgeSegments [] Obs.kind = "sweep" -> JudgeSweep [] OTHER -> JudgeFunc
  /\ done' = TRUE /\ UNCHANGED <<cs, tid>>
TSpec == TInit /\ [][Judge]_<<cs, tid, done>>
=============================================================================
