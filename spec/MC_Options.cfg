SPECIFICATION OSpec
INVARIANT ScriptAtLeastAsStrict
INVARIANT ValidAccepted
INVARIANT OwnerRejectsInvalid
CHECK_DEADLOCK FALSE
