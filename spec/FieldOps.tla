------------------------------ MODULE FieldOps ------------------------------
(***************************************************************************)
(* The functions an Equilibrium exposes for the magnetic field (C18), as   *)
(* exact rational arithmetic on the 2-jet of psi at one point.             *)
(*                                                                         *)
(* A point is a record                                                     *)
(*   [R, p, pR, pZ, pRR, pRZ, pZZ, F, Fp]                                  *)
(* of integers: the major radius, psi and its first and second partial     *)
(* derivatives there, fpol(psi) and fpol'(psi).                            *)
(*                                                                         *)
(* Two independent descriptions are given:                                 *)
(*  - Code(pt): the closed forms the implementation evaluates              *)
(*    (Equilibrium.magneticFunctionsFromGrid, Bzeta .. dBdZ), transcribed; *)
(*  - Def(pt): psi, grad psi, B = grad(psi) x grad(zeta) + fpol grad(zeta) *)
(*    as first-order dual numbers <<value, d/dR, d/dZ>>; every exposed     *)
(*    derivative is then obtained by the sum / product / quotient rules    *)
(*    (forward-mode differentiation), never by a closed form.              *)
(* Fields.tla lets TLC compare the two on a lattice; Trace_Fields.tla      *)
(* compares the real code with them.  No variables here.                   *)
(***************************************************************************)
EXTENDS Integers, Sequences

Abs(a) == IF a < 0 THEN -a ELSE a
RECURSIVE GCD(_, _)
GCD(a, b) == IF b = 0 THEN a ELSE GCD(b, a % b)

\* rationals <<num, den>>, den > 0, in lowest terms
Norm(q) == IF q[1] = 0 THEN <<0, 1>>
           ELSE LET s == IF q[2] < 0 THEN -1 ELSE 1
                    g == GCD(Abs(q[1]), Abs(q[2])) IN <<(s * q[1]) \div g, (s * q[2]) \div g>>
Q(n) == <<n, 1>>
Zero == Q(0)
RAdd(a, b) == Norm(<<a[1] * b[2] + b[1] * a[2], a[2] * b[2]>>)
RNeg(a) == <<-a[1], a[2]>>
RSub(a, b) == RAdd(a, RNeg(b))
RMul(a, b) == Norm(<<a[1] * b[1], a[2] * b[2]>>)
RInv(a) == Norm(<<a[2], a[1]>>)                  \* a # 0
RDiv(a, b) == RMul(a, RInv(b))
REq(a, b) == a[1] * b[2] = b[1] * a[2]

\* first-order dual numbers: value and the two partial derivatives
D(v, r, z) == [v |-> v, r |-> r, z |-> z]
DAdd(a, b) == D(RAdd(a.v, b.v), RAdd(a.r, b.r), RAdd(a.z, b.z))
DNeg(a) == D(RNeg(a.v), RNeg(a.r), RNeg(a.z))
DMul(a, b) == D(RMul(a.v, b.v), RAdd(RMul(a.r, b.v), RMul(a.v, b.r)), RAdd(RMul(a.z, b.v), RMul(a.v, b.z)))
DInv(a) == LET i == RInv(a.v) i2 == RMul(i, i) IN D(i, RNeg(RMul(a.r, i2)), RNeg(RMul(a.z, i2)))
DDiv(a, b) == DMul(a, DInv(b))

--------------------------------------------------------------------------
(* the definition: B from psi and fpol, derivatives by differentiation *)
DR(pt) == D(Q(pt.R), Q(1), Zero)                                  \* the coordinate R
DPsi(pt) == D(Q(pt.p), Q(pt.pR), Q(pt.pZ))
DPsiR(pt) == D(Q(pt.pR), Q(pt.pRR), Q(pt.pRZ))                    \* d(psi)/dR as a function of (R, Z)
DPsiZ(pt) == D(Q(pt.pZ), Q(pt.pRZ), Q(pt.pZZ))
DFpol(pt) == D(Q(pt.F), Q(pt.Fp * pt.pR), Q(pt.Fp * pt.pZ))       \* fpol(psi(R, Z)): chain rule
\* B = grad(psi) x grad(zeta) + fpol grad(zeta), |grad(zeta)| = 1/R:  B_R = psi_Z / R,  B_Z = -psi_R / R,  B_zeta = fpol / R
DBR(pt) == DDiv(DPsiZ(pt), DR(pt))
DBZ(pt) == DNeg(DDiv(DPsiR(pt), DR(pt)))
DBzeta(pt) == DDiv(DFpol(pt), DR(pt))
DB2(pt) == DAdd(DAdd(DMul(DBR(pt), DBR(pt)), DMul(DBZ(pt), DBZ(pt))), DMul(DBzeta(pt), DBzeta(pt)))
GradSq(pt) == pt.pR * pt.pR + pt.pZ * pt.pZ

Names == <<"psi", "Bp_R", "Bp_Z", "d2psidR2", "d2psidZ2", "d2psidRdZ", "Bzeta", "B2", "dBzetadR", "dBzetadZ",
           "dBRdR", "dBRdZ", "dBZdR", "dBZdZ", "dB2dR", "dB2dZ">>
\* defined only where grad(psi) # 0:  f = grad(psi) / |grad(psi)|^2
FNames == <<"f_R", "f_Z">>

Def(pt) ==
  LET br == DBR(pt) bz == DBZ(pt) bt == DBzeta(pt)
      b2 == DAdd(DAdd(DMul(br, br), DMul(bz, bz)), DMul(bt, bt))
      pr == DPsiR(pt) pz == DPsiZ(pt) IN
  [psi |-> Q(pt.p), Bp_R |-> br.v, Bp_Z |-> bz.v,
   d2psidR2 |-> pr.r, d2psidZ2 |-> pz.z, d2psidRdZ |-> pr.z,
   Bzeta |-> bt.v, B2 |-> b2.v,
   dBzetadR |-> bt.r, dBzetadZ |-> bt.z,
   dBRdR |-> br.r, dBRdZ |-> br.z, dBZdR |-> bz.r, dBZdZ |-> bz.z,
   dB2dR |-> b2.r, dB2dZ |-> b2.z]
DefF(pt) == [f_R |-> Norm(<<pt.pR, GradSq(pt)>>), f_Z |-> Norm(<<pt.pZ, GradSq(pt)>>)]

--------------------------------------------------------------------------
(* the implementation's closed forms (hypnotoad/core/equilibrium.py, Bzeta .. dB2dZ), transcribed *)
Code(pt) ==
  LET R == Q(pt.R)
      BR == RDiv(Q(pt.pZ), R)
      BZ == RNeg(RDiv(Q(pt.pR), R))
      Bt == RDiv(Q(pt.F), R)
      dBtdR == RSub(RNeg(RMul(Q(pt.Fp), BZ)), RDiv(Bt, R))          \* -fpolprime BZ - Bzeta / R
      dBtdZ == RMul(Q(pt.Fp), BR)                                    \* fpolprime BR
      dBRdR == RDiv(RSub(Q(pt.pRZ), BR), R)                          \* (d2psidRdZ - Bp_R) / R
      dBRdZ == RDiv(Q(pt.pZZ), R)
      dBZdR == RNeg(RDiv(RAdd(Q(pt.pRR), BZ), R))                    \* -(d2psidR2 + Bp_Z) / R
      dBZdZ == RNeg(RDiv(Q(pt.pRZ), R))
      B2 == RAdd(RAdd(RMul(BR, BR), RMul(BZ, BZ)), RMul(Bt, Bt))
  IN [psi |-> Q(pt.p), Bp_R |-> BR, Bp_Z |-> BZ,
      d2psidR2 |-> Q(pt.pRR), d2psidZ2 |-> Q(pt.pZZ), d2psidRdZ |-> Q(pt.pRZ),
      Bzeta |-> Bt, B2 |-> B2, dBzetadR |-> dBtdR, dBzetadZ |-> dBtdZ,
      dBRdR |-> dBRdR, dBRdZ |-> dBRdZ, dBZdR |-> dBZdR, dBZdZ |-> dBZdZ,
      dB2dR |-> RMul(Q(2), RAdd(RAdd(RMul(BR, dBRdR), RMul(BZ, dBZdR)), RMul(Bt, dBtdR))),
      dB2dZ |-> RMul(Q(2), RAdd(RAdd(RMul(BR, dBRdZ), RMul(BZ, dBZdZ)), RMul(Bt, dBtdZ)))]

\* physical identities that follow from the definition
DivB(pt) == LET br == DBR(pt) IN RAdd(RAdd(br.r, RDiv(br.v, Q(pt.R))), DBZ(pt).z)             \* (1/R) d(R B_R)/dR + dB_Z/dZ
BDotGradPsi(pt) == RAdd(RMul(DBR(pt).v, Q(pt.pR)), RMul(DBZ(pt).v, Q(pt.pZ)))      \* field lines lie in flux surfaces
FDotGradPsi(pt) == RAdd(RMul(DefF(pt).f_R, Q(pt.pR)), RMul(DefF(pt).f_Z, Q(pt.pZ))) \* f . grad(psi) = 1
\* toroidal component of curl B is -Delta* psi / R (Grad-Shafranov operator): d(B_R)/dZ - d(B_Z)/dR
CurlBzeta(pt) == RSub(DBR(pt).z, DBZ(pt).r)
DeltaStarOverR(pt) == RDiv(RSub(RAdd(Q(pt.pRR), Q(pt.pZZ)), RDiv(Q(pt.pR), Q(pt.R))), Q(pt.R))

--------------------------------------------------------------------------
(* curl(b/B) (C07, curvature_type "curl(b/B)"): b/B = B/B^2 in cylindrical components (R, Z, zeta) of an axisymmetric field.       *)
(* CurlDef differentiates the dual numbers; CurlCode is the closed form of MeshRegion.calcCurvature, transcribed.  Both need B # 0. *)
DA(pt) == LET b2 == DB2(pt) IN [R |-> DDiv(DBR(pt), b2), Z |-> DDiv(DBZ(pt), b2), zeta |-> DDiv(DBzeta(pt), b2)]
CurlDef(pt) ==
  LET a == DA(pt) IN
  [R |-> RNeg(a.zeta.z),                                      \* -d(A_zeta)/dZ
   Z |-> RAdd(a.zeta.r, RDiv(a.zeta.v, Q(pt.R))),             \* (1/R) d(R A_zeta)/dR
   zeta |-> RSub(a.R.z, a.Z.r)]                               \* d(A_R)/dZ - d(A_Z)/dR
CurlCode(pt) ==
  LET c == Code(pt)
      b2 == c.B2
      b4 == RMul(b2, b2) IN
  [R |-> RAdd(RNeg(RDiv(c.dBzetadZ, b2)), RMul(RDiv(c.Bzeta, b4), c.dB2dZ)),
   Z |-> RSub(RAdd(RDiv(c.Bzeta, RMul(Q(pt.R), b2)), RDiv(c.dBzetadR, b2)), RMul(RDiv(c.Bzeta, b4), c.dB2dR)),
   zeta |-> RAdd(RSub(RSub(RDiv(c.dBRdZ, b2), RMul(RDiv(c.Bp_R, b4), c.dB2dZ)), RDiv(c.dBZdR, b2)), RMul(RDiv(c.Bp_Z, b4), c.dB2dR))]
\* contravariant x-component: curl(b/B) . grad(psi)
CurlXDef(pt) == LET c == CurlDef(pt) IN RAdd(RMul(c.R, Q(pt.pR)), RMul(c.Z, Q(pt.pZ)))
CurlNames == <<"curl_R", "curl_Z", "curl_zeta", "curl_x">>
CurlRec(pt) == LET c == CurlDef(pt) IN [curl_R |-> c.R, curl_Z |-> c.Z, curl_zeta |-> c.zeta, curl_x |-> CurlXDef(pt)]

--------------------------------------------------------------------------
(* dispatch on the kinds of the two arguments (scalar, array, MultiLocationArray) *)
Dispatch(a1, a2) == IF a1 = "mla" /\ a2 = "mla" THEN "mla"
                    ELSE IF a1 = "mla" \/ a2 = "mla" THEN "error"
                    ELSE IF a1 = a2 THEN a1 ELSE "unspecified"       \* scalar with array: the two methods differ (spline broadcasts, dct refuses)
=============================================================================
