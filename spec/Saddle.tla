------------------------------- MODULE Saddle -------------------------------
(***************************************************************************)
(* Equilibrium.findSaddlePoint(p1, p2, atol) - the X-point search of the    *)
(* TORPEX case - on quadratic flux functions, in exact rational arithmetic. *)
(*                                                                          *)
(* Box coordinates: u along e2 (to the right of p1->p2), v along e1          *)
(* (p1->p2); the box is [0, S]^2, p1 = (0,0), p2 = (0,S), p3 = (S,S),        *)
(* p4 = (S,0).  The flux function is                                         *)
(*    psi = Sg (A x^2 + C x y - Kd B y^2),  x = u - U0, y = v - V0           *)
(* Kd = 1: a saddle at (U0, V0);  Kd = -1: an O-point there.                 *)
(*                                                                          *)
(* The code: classify the four edges by findExtremum_1d (an interior        *)
(* minimum, else an interior maximum, else SolutionError), refuse            *)
(* inconsistent classifications (ValueError), then alternate a bounded       *)
(* 1-D search along bottom->top with one along left->right until the two     *)
(* extrema are within atol; the answer is their midpoint.                    *)
(* One action per search.  The bounded scalar minimiser is specified by its  *)
(* exact answer on a quadratic (interior critical point, clamped to the      *)
(* ends); the comparison with atol is given a relative band of Band/1000      *)
(* inside which either decision is allowed (the real searches stop at a      *)
(* tolerance of atol/2 in the line parameter).                               *)
(***************************************************************************)
EXTENDS FieldOps, TLC
CONSTANTS S,               \* box side in lattice units
          Forms,           \* set of <<A, B, C, Kd, Sg>>
          Centres,         \* set of <<U0, V0>>
          AtolQ,           \* atol as a rational <<num, den>> in lattice units
          Band,            \* per mille
          MaxIter
VARIABLES form, ctr, phase, minL, minT, minR, minB, pB, pT, pL, pR, eV, eH, count, outcome
vars == <<form, ctr, phase, minL, minT, minR, minB, pB, pT, pL, pR, eV, eH, count, outcome>>

Max(a, b) == IF a > b THEN a ELSE b
Min(a, b) == IF a < b THEN a ELSE b
RLess(a, b) == a[1] * b[2] < b[1] * a[2]
RLeq(a, b) == a[1] * b[2] <= b[1] * a[2]
RAbs(a) == <<Abs(a[1]), a[2]>>
One == Q(1)
Pt(u, v) == <<u, v>>
\* the quadratic form at displacement (x, y) from the critical point
Axx == Q(form[5] * form[1])
Axy == Q(form[5] * form[3])
Ayy == Q(-form[5] * form[4] * form[2])
F(x, y) == RAdd(RAdd(RMul(Axx, RMul(x, x)), RMul(Axy, RMul(x, y))), RMul(Ayy, RMul(y, y)))
\* psi along P0 + t (P1 - P0) is  a t^2 + b t + c
LineA(P0, P1) == F(RSub(P1[1], P0[1]), RSub(P1[2], P0[2]))
LineB(P0, P1) == LET x0 == RSub(P0[1], Q(ctr[1]))  y0 == RSub(P0[2], Q(ctr[2]))
                     dx == RSub(P1[1], P0[1])  dy == RSub(P1[2], P0[2])
                 IN RAdd(RAdd(RMul(Q(2), RMul(Axx, RMul(x0, dx))), RMul(Axy, RAdd(RMul(x0, dy), RMul(y0, dx)))),
                         RMul(Q(2), RMul(Ayy, RMul(y0, dy))))
\* the parameters t in [0, 1] a bounded minimiser may return for a t^2 + b t
ArgMin(a, b) == IF RLess(Zero, a)
                THEN LET t == RDiv(RNeg(b), RMul(Q(2), a)) IN {IF RLess(t, Zero) THEN Zero ELSE IF RLess(One, t) THEN One ELSE t}
                ELSE LET e == RAdd(a, b) IN IF RLess(e, Zero) THEN {One} ELSE IF RLess(Zero, e) THEN {Zero} ELSE {Zero, One}
ArgMax(a, b) == ArgMin(RNeg(a), RNeg(b))
At(P0, P1, t) == Pt(RAdd(P0[1], RMul(t, RSub(P1[1], P0[1]))), RAdd(P0[2], RMul(t, RSub(P1[2], P0[2]))))
Interior(t) == RLess(Zero, t) /\ RLess(t, One)
\* findExtremum_1d: <<position, isMin>> or "fail"
Extremum(P0, P1) ==
  LET a == LineA(P0, P1)  b == LineB(P0, P1)
      tm == CHOOSE t \in ArgMin(a, b) : TRUE
      tx == CHOOSE t \in ArgMax(a, b) : TRUE
  IN IF Interior(tm) THEN <<At(P0, P1, tm), "min">> ELSE IF Interior(tx) THEN <<At(P0, P1, tx), "max">> ELSE <<Pt(Zero, Zero), "fail">>
P1c == Pt(Zero, Zero)
P2c == Pt(Zero, Q(S))
P3c == Pt(Q(S), Q(S))
P4c == Pt(Q(S), Zero)

Init == /\ form \in Forms /\ ctr \in Centres
        /\ phase = "classify" /\ minL = "none" /\ minT = "none" /\ minR = "none" /\ minB = "none"
        /\ pB = P1c /\ pT = P1c /\ pL = P1c /\ pR = P1c /\ eV = P3c /\ eH = P1c /\ count = 0 /\ outcome = "none"

Classify ==
  /\ phase = "classify"
  /\ LET l == Extremum(P1c, P2c)  t == Extremum(P2c, P3c)  r == Extremum(P3c, P4c)  b == Extremum(P4c, P1c)
     IN IF l[2] = "fail" \/ t[2] = "fail" \/ r[2] = "fail" \/ b[2] = "fail"
        THEN /\ phase' = "done" /\ outcome' = "solution_error"
             /\ UNCHANGED <<minL, minT, minR, minB, pB, pT, pL, pR>>
        ELSE /\ minL' = l[2] /\ minT' = t[2] /\ minR' = r[2] /\ minB' = b[2]
             /\ pL' = l[1] /\ pT' = t[1] /\ pR' = r[1] /\ pB' = b[1]
             /\ IF t[2] # b[2] \/ l[2] # r[2] \/ t[2] = l[2]
                THEN phase' = "done" /\ outcome' = "value_error"
                ELSE phase' = "test" /\ UNCHANGED outcome
  /\ UNCHANGED <<form, ctr, eV, eH, count>>

\* distance between the two extrema: after the first pass they share their v coordinate
Dist == RAbs(RSub(eV[1], eH[1]))
AtolLo == RMul(AtolQ, <<1000 - Band, 1000>>)
AtolHi == RMul(AtolQ, <<1000 + Band, 1000>>)
MayContinue == count = 0 \/ RLess(AtolLo, Dist)
MayStop == count > 0 /\ RLeq(Dist, AtolHi)

Search(kindIsMax, P0, P1) == LET a == LineA(P0, P1)  b == LineB(P0, P1)
                             IN {At(P0, P1, t) : t \in (IF kindIsMax THEN ArgMax(a, b) ELSE ArgMin(a, b))}
\* if a minimum was found on top and bottom, the search between them is for a maximum, and so on
VertSearch == /\ phase = "test" /\ MayContinue /\ count < MaxIter
              /\ \E e \in Search(minT = "min", pB, pT) : eV' = e /\ pL' = Pt(Zero, e[2]) /\ pR' = Pt(Q(S), e[2])
              /\ phase' = "horiz" /\ UNCHANGED <<form, ctr, minL, minT, minR, minB, pB, pT, eH, count, outcome>>
HorizSearch == /\ phase = "horiz"
               /\ \E e \in Search(minL = "min", pL, pR) : eH' = e /\ pB' = Pt(e[1], Zero) /\ pT' = Pt(e[1], Q(S))
               /\ phase' = "test" /\ count' = count + 1
               /\ UNCHANGED <<form, ctr, minL, minT, minR, minB, pL, pR, eV, outcome>>
Return == /\ phase = "test" /\ MayStop
          /\ phase' = "done" /\ outcome' = "ok"
          /\ UNCHANGED <<form, ctr, minL, minT, minR, minB, pB, pT, pL, pR, eV, eH, count>>
Next == Classify \/ VertSearch \/ HorizSearch \/ Return
Spec == Init /\ [][Next]_vars /\ WF_vars(Next)
Result == Pt(RDiv(RAdd(eV[1], eH[1]), Q(2)), RDiv(RAdd(eV[2], eH[2]), Q(2)))

--------------------------------------------------------------------------
IsSaddle == form[4] = 1
Inside == 0 < ctr[1] /\ ctr[1] < S /\ 0 < ctr[2] /\ ctr[2] < S
\* an accepted search has a saddle inside the box, and an O-point is never accepted
OkOnlyForSaddleInside == outcome = "ok" => IsSaddle /\ Inside
\* a saddle inside the box whose principal axes are within the cone the edge classification accepts is found
GentleTilt == /\ Abs(form[3]) * Max(ctr[2], S - ctr[2]) < 2 * form[1] * Min(ctr[1], S - ctr[1])
              /\ Abs(form[3]) * Max(ctr[1], S - ctr[1]) < 2 * form[2] * Min(ctr[2], S - ctr[2])
FoundWhenGentle == (phase = "done" /\ IsSaddle /\ Inside /\ GentleTilt) => outcome = "ok"
\* the answer is the saddle to within atol (both coordinates)
Accurate == outcome = "ok" => /\ RLeq(RAbs(RSub(Result[1], Q(ctr[1]))), AtolHi)
                               /\ RLeq(RAbs(RSub(Result[2], Q(ctr[2]))), AtolHi)
\* the two extrema approach one another geometrically: each pass multiplies their distance by C^2 / (4 A B) < 1
\* on a quadratic the first search runs along the line d(psi)/du = 0 through the two edge extrema, so it lands on the saddle: one pass
OnePassOnQuadratics == outcome = "ok" => count = 1 /\ REq(eV[1], Q(ctr[1])) /\ REq(eV[2], Q(ctr[2]))
NeverExhausted == ~(phase = "test" /\ count = MaxIter /\ ~MayStop)
DenSmall == \A p \in {pB, pT, pL, pR, eV, eH} : p[1][2] <= 70000 /\ p[2][2] <= 70000
Terminates == <>(phase = "done")
=============================================================================
