---------------------------- MODULE StencilDefs ----------------------------
(***************************************************************************)
(* The finite-difference stencils MeshRegion.DDX / DDY (C07, C06) over the   *)
(* region layout of Topology.tla.  A field is an operator                     *)
(*   F(r, s1, loc, i, j)  (region r, radial segment s1, location, local 0-   *)
(*   based indices; xlow / corners have one more column, ylow / corners one   *)
(*   more row), and the operators below give the NUMERATOR the code divides   *)
(*   by dx (or dy): centred differences of the two adjacent values, taking    *)
(*   the neighbouring region's adjacent value across a join and the one-sided *)
(*   half-cell formula (twice the difference) at a boundary.                  *)
(***************************************************************************)
EXTENDS Topology

SNx(s1) == cfg.nx[s1]
SNy(r) == NyG(conn, cfg.ny, cfg.G, r)
HasInner(s1) == s1 > 1
HasOuter(s1) == s1 < Len(cfg.nx)
LowerReg(r, s1) == IF LowerOf(conn, s1, r) = {} THEN 0 ELSE CHOOSE r2 \in LowerOf(conn, s1, r) : TRUE
UpperReg(r, s1) == conn[r][s1]

ExpDDX(F(_, _, _, _, _), r, s1, loc, i, j) ==
  CASE loc = "centre" -> F(r, s1, "xlow", i + 1, j) - F(r, s1, "xlow", i, j)
    [] loc = "ylow" -> F(r, s1, "corners", i + 1, j) - F(r, s1, "corners", i, j)
    [] loc \in {"xlow", "corners"} ->
         LET src == IF loc = "xlow" THEN "centre" ELSE "ylow" IN
         IF 0 < i /\ i < SNx(s1) THEN F(r, s1, src, i, j) - F(r, s1, src, i - 1, j)
         ELSE IF i = 0 THEN (IF HasInner(s1) THEN F(r, s1, src, 0, j) - F(r, s1 - 1, src, SNx(s1 - 1) - 1, j)
                             ELSE 2 * (F(r, s1, src, 0, j) - F(r, s1, loc, 0, j)))
         ELSE (IF HasOuter(s1) THEN F(r, s1 + 1, src, 0, j) - F(r, s1, src, SNx(s1) - 1, j)
               ELSE 2 * (F(r, s1, loc, SNx(s1), j) - F(r, s1, src, SNx(s1) - 1, j)))

ExpDDY(F(_, _, _, _, _), r, s1, loc, i, j) ==
  CASE loc = "centre" -> F(r, s1, "ylow", i, j + 1) - F(r, s1, "ylow", i, j)
    [] loc = "xlow" -> F(r, s1, "corners", i, j + 1) - F(r, s1, "corners", i, j)
    [] loc \in {"ylow", "corners"} ->
         LET src == IF loc = "ylow" THEN "centre" ELSE "xlow"
             lo == LowerReg(r, s1)
             up == UpperReg(r, s1) IN
         IF 0 < j /\ j < SNy(r) THEN F(r, s1, src, i, j) - F(r, s1, src, i, j - 1)
         ELSE IF j = 0 THEN (IF lo # 0 THEN F(r, s1, src, i, 0) - F(lo, s1, src, i, SNy(lo) - 1)
                             ELSE 2 * (F(r, s1, src, i, 0) - F(r, s1, loc, i, 0)))
         ELSE (IF up # 0 THEN F(up, s1, src, i, 0) - F(r, s1, src, i, SNy(r) - 1)
               ELSE 2 * (F(r, s1, loc, i, SNy(r)) - F(r, s1, src, i, SNy(r) - 1)))

\* index ranges of each location
NI(s1, loc) == IF loc \in {"xlow", "corners"} THEN SNx(s1) + 1 ELSE SNx(s1)
NJ(r, loc) == IF loc \in {"ylow", "corners"} THEN SNy(r) + 1 ELSE SNy(r)
Locs4 == {"centre", "xlow", "ylow", "corners"}

--------------------------------------------------------------------------
(* sanity of the definitions (model-checked over all layouts): the stencil differentiates a linear field exactly *)
\* global radial half-index: x-faces at even, centres at odd positions
XHalf(r, s1, loc, i, j) == 2 * (X0(cfg.nx, s1) + i) + (IF loc \in {"centre", "ylow"} THEN 1 ELSE 0)
\* half-index along the chain of y-connected regions the region belongs to
ChainOfR(s1, r) == CHOOSE g \in YGroupsOfSeg(conn, s1) : \E k \in 1..Len(g) : g[k] = r
PosIn(g, r) == CHOOSE k \in 1..Len(g) : g[k] = r
YHalf(r, s1, loc, i, j) ==
  LET g == ChainOfR(s1, r) IN
  2 * (SumSeq([k \in 1..Len(g) |-> SNy(g[k])], PosIn(g, r) - 1) + j) + (IF loc \in {"centre", "xlow"} THEN 1 ELSE 0)
LaidOut == stage = "regions" /\ conn # <<>>          \* (checked once per layout: the later stages do not change conn)
LinearExactX == LaidOut =>
  \A r \in 1..Len(conn) : \A s1 \in 1..Len(cfg.nx) : \A loc \in Locs4 :
    \A i \in 0..(NI(s1, loc) - 1) : \A j \in 0..(NJ(r, loc) - 1) : ExpDDX(XHalf, r, s1, loc, i, j) = 2 /\ ExpDDY(XHalf, r, s1, loc, i, j) = 0
\* along y the same holds except where a closed chain wraps round (first face / last face of the chain)
LinearExactY == LaidOut =>
  \A r \in 1..Len(conn) : \A s1 \in 1..Len(cfg.nx) : \A loc \in Locs4 :
    \A i \in 0..(NI(s1, loc) - 1) : \A j \in 0..(NJ(r, loc) - 1) :
      LET g == ChainOfR(s1, r)
          wrap == IsPeriodic(conn, s1, g) /\ loc \in {"ylow", "corners"} /\ ((r = g[1] /\ j = 0) \/ (r = g[Len(g)] /\ j = SNy(r)))
      IN wrap \/ ExpDDY(YHalf, r, s1, loc, i, j) = 2
=============================================================================
