SPECIFICATION PSpec
CONSTANTS
  MaxN = 6
  MaxDepth = 4
  Gap = 256
INVARIANT PValid
INVARIANT Monotone
PROPERTY KeepsLabels
CHECK_DEADLOCK FALSE
