SPECIFICATION Spec
CONSTANTS
  Inputs = {"I1", "I2"}
  EqOpts = {"plain", "revcur", "orth"}
  SignOpts = {"revcur"}
  Settings = {"A", "B"}
  DefaultSetting = "A"
  MaxFiles = 2
  MaxSteps = 8
  Mode = "AsFound"
INVARIANT CallerArraysUnchanged
INVARIANT Deterministic
INVARIANT Fresh
INVARIANT GeometryFresh
CHECK_DEADLOCK FALSE
