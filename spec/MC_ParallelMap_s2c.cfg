SPECIFICATION Spec
CONSTANTS
  MaxW = 3
  MaxT = 3
  MaxC = 2
  Mode = "Handled"
  QueueOrder = "fifo"
  Configs <- S2CConfigs
INVARIANT TypeOK
INVARIANT Positions
INVARIANT SerialOutcome
CHECK_DEADLOCK TRUE
