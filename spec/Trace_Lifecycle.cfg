SPECIFICATION TLSpec
CONSTANTS
  Inputs = {"I1"}
  EqOpts = {"plain", "orth"}
  SignOpts = {}
  Settings = {"A", "B", "P", "BP"}
  DefaultSetting = "A"
  MaxFiles = 1
  MaxSteps = 40
  Mode = "Intended"
CHECK_DEADLOCK FALSE
