SPECIFICATION TraceSpec
CONSTANTS
  MaxW = 4
  MaxT = 12
  MaxC = 3
  Mode = "Handled"
  QueueOrder = "perproducer"
  Configs <- TraceConfigs
INVARIANT TypeOK
INVARIANT Positions
INVARIANT NoStale
INVARIANT SerialOutcome
INVARIANT CleanBetweenCalls
INVARIANT TaskOnce
CONSTRAINT Progress
POSTCONDITION Report
CHECK_DEADLOCK FALSE
