SPECIFICATION Spec
CONSTANTS
  MaxW = 2
  MaxT = 3
  MaxC = 2
  Mode = "Handled"
  QueueOrder = "fifo"
  Configs <- QuickConfigs
INVARIANT TypeOK
INVARIANT Positions
INVARIANT NoStale
INVARIANT SerialOutcome
INVARIANT CleanBetweenCalls
INVARIANT TaskOnce

CHECK_DEADLOCK TRUE
