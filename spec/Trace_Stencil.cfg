SPECIFICATION StencilSpec
CONSTANTS
  Configs = {}
CHECK_DEADLOCK FALSE
