------------------------------- MODULE Fields -------------------------------
(***************************************************************************)
(* C18, design level: TLC compares, on a lattice of 2-jets of psi, the     *)
(* closed forms the implementation evaluates (FieldOps!Code) with the      *)
(* definition by forward differentiation (FieldOps!Def), and checks the    *)
(* physical identities.  All functions are polynomial in the jet (degree   *)
(* <= 3 per component) over powers of R, so agreement on a lattice with 4  *)
(* or more values per component is agreement as rational functions; the    *)
(* thorough configuration has 5 values per derivative component.           *)
(*                                                                         *)
(* The second part is the dispatch on the kind of argument (scalar, array, *)
(* MultiLocationArray) as a small state machine: a call with two arguments *)
(* of one kind returns that kind, at every location the arguments have;    *)
(* mixing a MultiLocationArray with anything else is an error.             *)
(***************************************************************************)
EXTENDS FieldOps, TLC

CONSTANTS JetVals, RVals, FVals, FpVals
Kinds == {"scalar", "array", "mla"}
Locs == {"centre", "xlow", "ylow", "corners"}
Funcs == {Names[k] : k \in 1..Len(Names)} \cup {FNames[k] : k \in 1..Len(FNames)} \cup {"dBdR", "dBdZ"}

VARIABLES pt, ready, call, result
vars == <<pt, ready, call, result>>
NoCall == [fn |-> "none", a1 |-> "none", a2 |-> "none"]

Points == [R : RVals, p : {0, 1}, pR : JetVals, pZ : JetVals, pRR : JetVals, pRZ : JetVals, pZZ : JetVals, F : FVals, Fp : FpVals]

\* value sets for the configurations (a cfg file cannot hold negative numbers)
JetQuick == {-2, 0, 1, 3}
JetThorough == {-3, -1, 0, 2, 5}
FQuick == {-2, 0, 3}
FThorough == {-2, 0, 1, 3}
FpQuick == {-1, 0, 2}
FpThorough == {-1, 0, 2, 3}
\* the dispatch does not depend on the point: it is explored at one point only
CanonPt == CHOOSE q \in Points : q.pR # 0

\* the lattice is entered in two steps (radius and profile first, then the derivatives of psi) so that TLC's workers share the points
Init == /\ pt \in {q \in Points : q.pR = 0 /\ q.pZ = 0 /\ q.pRR = 0 /\ q.pRZ = 0 /\ q.pZZ = 0}
        /\ ready = FALSE /\ call = NoCall /\ result = "none"
PickJet == /\ ~ready /\ ready' = TRUE
           /\ \E a, b, c, d, e \in JetVals : pt' = [pt EXCEPT !.pR = a, !.pZ = b, !.pRR = c, !.pRZ = d, !.pZZ = e]
           /\ UNCHANGED <<call, result>>
Call(fn, a1, a2) == /\ call = NoCall /\ ready /\ pt = CanonPt
                    /\ call' = [fn |-> fn, a1 |-> a1, a2 |-> a2]
                    /\ result' = Dispatch(a1, a2)
                    /\ UNCHANGED <<pt, ready>>
Return == call # NoCall /\ call' = NoCall /\ result' = "none" /\ UNCHANGED <<pt, ready>>
Next == PickJet \/ Return \/ \E fn \in Funcs, a1 \in Kinds, a2 \in Kinds : Call(fn, a1, a2)
Spec == Init /\ [][Next]_vars

--------------------------------------------------------------------------
\* the closed forms are the derivatives of the definition (every exposed function)
CodeIsDefinition == ~ready \/ LET c == Code(pt) d == Def(pt) IN \A k \in 1..Len(Names) : REq(c[Names[k]], d[Names[k]])
DivBZero == ~ready \/ DivB(pt) = Zero
FieldInSurface == ~ready \/ BDotGradPsi(pt) = Zero
FIsDualOfGrad == ~ready \/ GradSq(pt) = 0 \/ FDotGradPsi(pt) = Q(1)
\* f is parallel to grad(psi): f_R psi_Z = f_Z psi_R
FParallelToGrad == ~ready \/ GradSq(pt) = 0 \/ REq(RMul(DefF(pt).f_R, Q(pt.pZ)), RMul(DefF(pt).f_Z, Q(pt.pR)))
CurlIsDeltaStar == ~ready \/ REq(CurlBzeta(pt), DeltaStarOverR(pt))
B2IsSumOfSquares == ~ready \/ LET c == Code(pt) IN REq(c.B2, RAdd(RAdd(RMul(c.Bp_R, c.Bp_R), RMul(c.Bp_Z, c.Bp_Z)), RMul(c.Bzeta, c.Bzeta)))
B2Positive == ~ready \/ LET b == Code(pt).B2[1] IN b >= 0 /\ (b = 0 <=> (pt.pR = 0 /\ pt.pZ = 0 /\ pt.F = 0))
\* the closed form of curl(b/B) in calcCurvature is the curl of B/B^2
CurlCodeIsDefinition == ~ready \/ Code(pt).B2[1] = 0 \/
  LET c == CurlCode(pt) d == CurlDef(pt) IN REq(c.R, d.R) /\ REq(c.Z, d.Z) /\ REq(c.zeta, d.zeta)
\* dispatch
SameKindSameResult == call = NoCall \/ (call.a1 = call.a2 => result = call.a1)
MixedMlaRefused == call = NoCall \/ ((call.a1 = "mla") # (call.a2 = "mla") => result = "error")
DispatchIndependentOfFunction == call = NoCall \/ result = Dispatch(call.a1, call.a2)
=============================================================================
