"""Static audit: every clause of Trace_Grid.tla evaluated on the observation of property P must be attributed to P by gridprops.clause_prop
(a clause attributed elsewhere is evaluated and then dropped by every check - how seed C06_dx_faces_own_halfcell was missed).
usage: /venv/bin/python tools/audit_clauses.py"""
import re, sys
sys.path.insert(0, '/verif')
from harness import gridprops
s = open('/verif/spec/Trace_Grid.tla').read()
# operator definitions
defs = {}
for m in re.finditer(r'^(\w+)(?:\([^)]*\))?\s*==', s, re.M):
    defs[m.group(1)] = m.start()
names = sorted(defs, key=lambda k: defs[k])
body = {}
for i, n in enumerate(names):
    body[n] = s[defs[n]:defs[names[i + 1]] if i + 1 < len(names) else len(s)]
def clauses(op, seen=None):
    seen = seen or set()
    if op in seen: return set()
    seen.add(op)
    b = body[op]
    out = set(re.findall(r'ClauseAt\(\s*"(\w+)"', b))
    for o in names:
        if o != op and re.search(r'\b%s\b' % o, b) and o.endswith('Clauses') or (o != op and o in ('C03Extra','C02ArcClauses') and re.search(r'\b%s\b' % o, b)):
            out |= clauses(o, seen)
    return out
obs = body['Observe']
for m in re.finditer(r'Obs\.prop = "(C\d\d)" -> (.*)', obs):
    prop, rhs = m.group(1), m.group(2)
    ops = [o for o in names if re.search(r'\b%s\b' % o, rhs)]
    cl = set()
    for o in ops: cl |= clauses(o)
    bad = sorted(c for c in cl if gridprops.clause_prop(c) not in (prop,))
    print(prop, ops, 'misattributed:', [(c, gridprops.clause_prop(c)) for c in bad])
# python-side pair names
p = open('/verif/harness/project_more.py').read() + open('/verif/harness/project.py').read()
for m in re.finditer(r'^def (obs_C\d\d\w*)\(', p, re.M):
    pass
fn = None
res = {}
for line in p.splitlines():
    m = re.match(r'def (obs_(C\d\d)\w*)\(', line)
    if m: fn = m.group(2)
    for mm in re.finditer(r'pair\(out, "(\w+)"', line):
        res.setdefault(fn, set()).add(mm.group(1))
    for mm in re.finditer(r'pair\(out, "(\w+)" \+', line):
        res.setdefault(fn, set()).add(mm.group(1))
for k, v in sorted(res.items()):
    print(k, [(c, gridprops.clause_prop(c)) for c in sorted(v) if gridprops.clause_prop(c) != k])
