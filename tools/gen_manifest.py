#!/venv/bin/python
"""Regenerates MANIFEST.json from the table below (single source of truth)."""
import json
import os

V = os.path.dirname(os.path.dirname(os.path.abspath(__file__)))

CHECKS = {
    "C13": dict(
        category="model_checking",
        technique="TLA+ spec ParallelMap.tla model-checked by TLC (safety + liveness); spec behaviours replayed through the real code with a deterministic scheduler; real-process traces validated against the spec by TLC",
        text="TLC explores every interleaving of parent and workers for all configurations in a box (workers, task counts, every failing subset, two successive calls) and proves positions, no stale results, serial outcome and termination under fairness; an edge cover of the state graph is replayed through the real ParallelMap (fake multiprocessing, every queue operation a scheduling point) comparing the projected state and the enabled operations after each step; real multiprocessing runs are logged per process and TLC must linearise them. Right level because the property quantifies over schedules and failure positions.",
        note="Trusted: TLC; the fake multiprocessing used for replay models Queue put/get/empty atomically; real traces log put at call time and get at return time. Bounded: <=3 workers, <=4 tasks, 2 calls in MC; <=4 workers, <=12 tasks in real runs.",
        design_ref="DESIGN.md 4.1, 5 (C13)",
    ),
}

CHECKS["C08"] = dict(
    category="model_checking",
    technique="TLA+ spec Topology.tla (physical view, hypnotoad layout, BOUT++ reading of the integers) model-checked by TLC over a box of configurations; traces of the real index code (stubbed numerics) validated clause by clause against the spec by TLC",
    text="TLC proves, for every (topology, nx per segment, ny per region, guard count) in a box, that the adjacency derived from the physical picture of each X-point, pushed through the global index layout, equals the adjacency BOUT++ reads from the documented ixseps/jyseps/ny_inner (after the loader's index repairs) on every cell, plus tiling, symmetry, ordering, theta continuity and the mirror map. The real makeRegions/Mesh/BoutMesh/writeGridfile index code is then run for hundreds of configurations per topology (including strongly unequal legs) and Trace_Topology.tla compares every observed table with the specification. Right level: the property quantifies over all size combinations, which TLC enumerates and the stubbed mesh makes cheap to run through the code.",
    note="Trusted: my transcription of BOUT++'s topology rules and loader repairs; the MeshRegion numerics are stubbed in this engine (the unstubbed path is covered by the grid traces of other checks). Bounded: nx<=3, ny<=11, guards<=2 in MC; seeded sizes up to 16 cells per region in traces. Isolated X-point (TORPEX) is model-checked but not yet run through the code.",
    design_ref="DESIGN.md 4.2, 5 (C08)",
)

NOT_YET = {}

NOT_APPLICABLE = {
    "C18": "pure numeric accuracy of one interpolant over a continuous domain: no state, ordering, index map or case structure for a TLA+ specification to decide (DESIGN.md section 6)",
}


def main():
    props = [json.loads(l) for l in open(os.path.join(V, "properties.jsonl"))]
    checks = []
    na = []
    for p in props:
        pid = p["id"]
        if pid in CHECKS:
            c = CHECKS[pid]
            checks.append({
                "property_id": pid,
                "quick_cmd": "./check %s --tier quick" % pid,
                "thorough_cmd": "./check %s --tier thorough" % pid,
                "evidence_file": "/verif/evidence/%s.json" % pid,
                "replay_cmd_template": "./check %s --replay {path}" % pid,
                "engine": "tlc+conformance",
                "level_claimed": {"category": c["category"], "text": c["text"], "design_ref": c["design_ref"]},
                "level_note": c["note"],
                "technique": c["technique"],
            })
        elif pid in NOT_APPLICABLE:
            na.append({"property_id": pid, "reason": NOT_APPLICABLE[pid]})
        else:
            na.append({"property_id": pid, "reason": NOT_YET.get(pid, "not claimed yet: specification and conformance harness for this property are not built in this revision")})
    hooks_commits = [l.strip() for l in open(os.path.join(V, "tools", "hook_commits.txt")) if l.strip()] if os.path.exists(os.path.join(V, "tools", "hook_commits.txt")) else []
    man = {
        "version": 1,
        "setup_cmd": "./setup.sh",
        "hooks": {
            "guard": "HYPNOTOAD_VERIF",
            "enable": "HYPNOTOAD_VERIF=1 in the environment of the harness processes (Python: no build step; checks import hypnotoad from /repo's working tree with PYTHONPATH=/repo)",
            "baseline_off_cmd": "cd /repo && env -u HYPNOTOAD_VERIF /venv/bin/python -m pytest -ra -q -p no:cacheprovider --timeout=900 --continue-on-collection-errors",
            "source_commits": hooks_commits,
            "add_only": True,
        },
        "engines": [
            {"name": "tlc", "path": "harness/tlc.py", "serves_properties": sorted(CHECKS), "kind_free_text": "TLC 1.8 model checking of spec/*.tla (exhaustive configs) and trace validation (Trace_*.tla)"},
            {"name": "drivers", "path": "harness/drivers", "serves_properties": sorted(CHECKS), "kind_free_text": "conformance drivers: replay TLC behaviours/states into the real code (S->C) and record traces of the real code for TLC (C->S)"},
        ],
        "checks": checks,
        "not_applicable": na,
        "notes": "All properties are decided with explicit TLA+ specifications under spec/, checked by TLC and bound to the implementation by conformance drivers under harness/. See DESIGN.md.",
    }
    with open(os.path.join(V, "MANIFEST.json"), "w") as fh:
        json.dump(man, fh, indent=1)
    import sys
    sys.path.append(os.path.join(V, ".deps"))
    try:
        import jsonschema
        jsonschema.validate(man, json.load(open("/root/.vp/MANIFEST.schema.json")))
        print("MANIFEST.json valid;", len(checks), "checks,", len(na), "not applicable")
    except ImportError:
        print("jsonschema not available; not validated")


if __name__ == "__main__":
    main()
