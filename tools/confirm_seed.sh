#!/bin/sh
# usage: confirm_seed.sh <worktree> <seed-id>   (worktree has the change applied and patch.diff + demo.py inside)
# Confirms: pinned suite passes with the change; demo fails with it and passes without it. Logs into /verif/seeded/<id>/.
WT=$1; ID=$2; OUT=/verif/seeded/$ID
mkdir -p $OUT
cp $WT/patch.diff $OUT/patch.diff; cp $WT/demo.py $OUT/demo.py
cd $WT
git diff --quiet -- hypnotoad && git apply patch.diff
( /venv/bin/python -m pytest -q -p no:cacheprovider --timeout=900 -n 6 hypnotoad 2>&1 | tail -3 ) > $OUT/pytest_with_change.log
( timeout 900 /venv/bin/python demo.py > $OUT/demo_with_change.log 2>&1; echo "exit=$?" >> $OUT/demo_with_change.log )
git apply -R patch.diff
( timeout 900 /venv/bin/python demo.py > $OUT/demo_without_change.log 2>&1; echo "exit=$?" >> $OUT/demo_without_change.log )
git apply patch.diff
tail -1 $OUT/pytest_with_change.log; tail -1 $OUT/demo_with_change.log; tail -1 $OUT/demo_without_change.log
